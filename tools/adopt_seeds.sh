#!/bin/bash
# usage: adopt_seeds.sh <wtid>...   (e.g. C11b): copy the deliverables of a seeding sub-agent from /tmp/wt/out/<wtid> to
# /verif/seeded/<Cxx>-seed2, remove its worktree, confirm it in a scratch worktree (tools/confirm_seed.sh)
for id in "$@"; do
  pid=${id:0:3}; case "${id:3}" in b) n=2;; c) n=3;; d) n=4;; e) n=5;; f) n=6;; g) n=7;; *) n=9;; esac; name=$pid-seed$n
  [ -f /tmp/wt/out/$id/patch.diff ] || { echo "no deliverables for $id"; continue; }
  mkdir -p /verif/seeded/$name
  cp /tmp/wt/out/$id/patch.diff /tmp/wt/out/$id/demo.py /tmp/wt/out/$id/notes.md /verif/seeded/$name/
  git -C /repo worktree remove --force /tmp/wt/$id 2>/dev/null
  /verif/tools/confirm_seed.sh $name
  echo "$name: $(grep -E '^exit=|passed|failed' /verif/seeded/$name/confirm.log | tr '\n' ' ')"
done
