#!/venv/bin/python
"""Self-test of tools/translate_solver.py (the regenerated worklist iteration of the dataflow analysis, Gen/SolverGen.v).

(a) runs the translator on the clean source ($VERIF_REPO, default /tmp/cleanrepo) and checks that the output is the
    committed coq/Gen/SolverGen.v, compiles, and that Lemmas/SolverGenLemmas.v compiles against it;
(b) applies small mutations to a scratch copy of generic.py / functions.py / fee_field.py and shows that, for each,
    either the translator stops (TranslateError) or the generated Gallina differs AND Lemmas/SolverGenLemmas.v no
    longer compiles against it.  For the mutants the translator accepts, the PROBE of the lemma file (the concrete
    two-key instance merge_information_forward_gen_accumulates_example, a statement about the generated function
    alone, proved by vm_compute) is compiled on its own against the mutant as well: it tells whether the instance
    distinguishes the mutant semantically, independently of the proof scripts.

Precondition: coq/ has been built (`make`).  Every coqc runs under `timeout`.  Exit status 0 iff every row has the
expected verdict.

usage: VERIF_REPO=/tmp/cleanrepo /venv/bin/python tools/test_translate_solver.py [-v]
"""
import ast
import os
import re
import shutil
import subprocess
import sys
import tempfile

HERE = os.path.dirname(os.path.abspath(__file__))
ROOT = os.path.dirname(HERE)
COQ = os.path.join(ROOT, "coq")
PY = "/venv/bin/python"
REPO = os.environ.get("VERIF_REPO", "/tmp/cleanrepo")

GEN = "tealer/analyses/dataflow/transaction_context/generic.py"
FEE = "tealer/analyses/dataflow/transaction_context/fee_field.py"
FN = "tealer/teal/functions.py"
BB = "tealer/teal/basic_blocks.py"

PROBE_HEAD = """From Coq Require Import String List NArith ZArith Bool Arith.
From Tealer Require Import Tables Syntax Parse Cfg StackAst Keys KeysGen Analysis GraphGen SolverGen.
Import ListNotations.
Open Scope string_scope.
Open Scope list_scope.
"""


def sh(cmd, cwd=None, env=None):
    e = dict(os.environ)
    if env:
        e.update(env)
    p = subprocess.run(cmd, shell=True, cwd=cwd, stdout=subprocess.PIPE, stderr=subprocess.STDOUT, env=e, check=False)
    return p.returncode, p.stdout.decode(errors="replace")


# ----------------------------------------------------------------------------- mutations (text -> text)
def replace_once(src, old, new):
    if src.count(old) != 1:
        raise RuntimeError(f"mutation anchor found {src.count(old)} times: " + old[:60])
    return src.replace(old, new, 1)


def mut_flag_overwritten(src):
    """(i) the real regression: `updated` assigned for every key instead of accumulated (forward)"""
    return replace_once(
        src,
        "            if new_reachout != global_reachout[key][block]:\n                global_reachout[key][block] = new_reachout\n                updated = True\n",
        "            updated = new_reachout != global_reachout[key][block]\n            if updated:\n                global_reachout[key][block] = new_reachout\n",
    )


def mut_no_return_point(src):
    """(ii) the forward pass does not enqueue the return point of a callsub block"""
    return replace_once(
        src,
        "                for bi in next_blocks_global(self._function, b) + return_point_block:\n",
        "                for bi in next_blocks_global(self._function, b):\n",
    )


def mut_no_callsub_block(src):
    """(iii) the backward pass skips the callsub_block of a return point"""
    return replace_once(
        src,
        "                for bi in prev_blocks_global(self._function, b) + callsub_block:\n",
        "                for bi in prev_blocks_global(self._function, b):\n",
    )


def mut_duplicates(src):
    """(iv) `if bi not in worklist` dropped in the forward pass (duplicates are enqueued)"""
    return replace_once(
        src,
        "                for bi in next_blocks_global(self._function, b) + return_point_block:\n                    if bi not in worklist:\n                        worklist.append(bi)\n",
        "                for bi in next_blocks_global(self._function, b) + return_point_block:\n                    worklist.append(bi)\n",
    )


def mut_leaf_null(src):
    """(v) the backward initialisation uses the null set for leaf blocks"""
    return replace_once(
        src,
        "                    global_liveout[key][b] = self._block_contexts[key][b]\n",
        "                    global_liveout[key][b] = self._null_set(key)\n",
    )


def mut_flag_overwritten_bwd(src):
    """(x1) the same regression in _merge_information_backward"""
    return replace_once(
        src,
        "            if new_liveout != global_liveout[key][block]:\n                global_liveout[key][block] = new_liveout\n                updated = True\n",
        "            updated = new_liveout != global_liveout[key][block]\n            if updated:\n                global_liveout[key][block] = new_liveout\n",
    )


def mut_flag_last_key(src):
    """(x2) `updated = False` in the else branch (the flag of the last key wins)"""
    return replace_once(
        src,
        "                global_reachout[key][block] = new_reachout\n                updated = True\n",
        "                global_reachout[key][block] = new_reachout\n                updated = True\n            else:\n                updated = False\n",
    )


def mut_enqueue_predecessors(src):
    """(x3) the forward pass enqueues the predecessors"""
    return replace_once(
        src,
        "                for bi in next_blocks_global(self._function, b) + return_point_block:\n",
        "                for bi in prev_blocks_global(self._function, b) + return_point_block:\n",
    )


def mut_init_universal(src):
    """(x4) the forward initialisation uses the universal set"""
    return replace_once(
        src,
        "                global_reachout[key][b] = self._null_set(key)\n",
        "                global_reachout[key][b] = self._universal_set(key)\n",
    )


def mut_no_block_context(src):
    """(x5) the forward step does not intersect with the block context"""
    return replace_once(
        src,
        "            new_reachout = self._intersection(\n                key,\n                self._calculate_reachin(key, block, global_reachout[key]),\n                self._block_contexts[key][block],\n            )\n",
        "            new_reachout = self._calculate_reachin(key, block, global_reachout[key])\n",
    )


def mut_leaf_recomputed(src):
    """(x6) _merge_information_backward recomputes leaf blocks as well"""
    return replace_once(src, "        if leaf_block_global(block):  # leaf block\n            return False\n\n", "")


def mut_not_stored(src):
    """(x7) forward_analyis does not store the result into self._block_contexts"""
    return replace_once(
        src,
        "        for key in analysis_keys:\n            self._block_contexts[key] = global_reachout[key]\n",
        "        for key in analysis_keys:\n            pass\n",
    )


def mut_return_point_always(src):
    """(x8) the return point is enqueued without the `is not None` test"""
    return replace_once(
        src,
        "                    if b.is_callsub_block and b.sub_return_point is not None\n",
        "                    if b.is_callsub_block\n",
    )


def mut_livein_for_forward(src):
    """(x9) the forward step calls _calculate_livein"""
    return replace_once(
        src,
        "                self._calculate_reachin(key, block, global_reachout[key]),\n",
        "                self._calculate_livein(key, block, global_reachout[key]),\n",
    )


def mut_stale_compare(src):
    """(x10) the backward step compares with the block context instead of the stored value"""
    return replace_once(
        src,
        "            if new_liveout != global_liveout[key][block]:\n",
        "            if new_liveout != self._block_contexts[key][block]:\n",
    )


def mut_no_pop(src):
    """(s1) the head of the worklist is not removed (forward)"""
    return replace_once(
        src,
        "            b = worklist[0]\n            worklist = worklist[1:]\n            updated = self._merge_information_forward(",
        "            b = worklist[0]\n            updated = self._merge_information_forward(",
    )


def mut_pop_last(src):
    """(s2) the worklist is used as a stack (worklist[-1])"""
    return replace_once(
        src,
        "            b = worklist[0]\n            worklist = worklist[1:]\n            updated = self._merge_information_backward(",
        "            b = worklist[-1]\n            worklist = worklist[:-1]\n            updated = self._merge_information_backward(",
    )


def mut_equal(src):
    """(s3) `==` for `!=`"""
    return replace_once(src, "            if new_reachout != global_reachout[key][block]:\n", "            if new_reachout == global_reachout[key][block]:\n")


def mut_flag_in_loop(src):
    """(s4) `updated = False` moved into the loop over the keys"""
    return replace_once(
        src,
        "        updated = False\n        for key in analysis_keys:\n            # RCHout(b) = intersection(RCHin(b), PRSV(b))\n",
        "        for key in analysis_keys:\n            updated = False\n            # RCHout(b) = intersection(RCHin(b), PRSV(b))\n",
    )


def mut_break(src):
    """(s5) break in the while loop"""
    return replace_once(
        src,
        "            updated = self._merge_information_forward(analysis_keys, b, global_reachout)\n\n            if updated:\n",
        "            updated = self._merge_information_forward(analysis_keys, b, global_reachout)\n            if not updated:\n                break\n\n            if updated:\n",
    )


def mut_override(src):
    """(s6, fee_field.py) a subclass overrides forward_analyis"""
    return src + "\n\nclass Shadow(FeeField):\n    def forward_analyis(self, analysis_keys, worklist):\n        return None\n"


def mut_contexts_reassigned(src):
    """(s7, fee_field.py) self._block_contexts re-assigned as a whole"""
    return src + "\n\nclass Shadow2(FeeField):\n    def run_analysis(self):\n        self._block_contexts = {}\n        super().run_analysis()\n"


def mut_function_blocks(src):
    """(s8, functions.py) Function.blocks edited"""
    return replace_once(src, "    def blocks(self) -> List[\"BasicBlock\"]:\n        return self._blocks\n", "    def blocks(self) -> List[\"BasicBlock\"]:\n        return self._blocks[1:]\n")


def mut_other_dict(src):
    """(s9) the step stores into self._block_contexts"""
    return replace_once(
        src,
        "                global_reachout[key][block] = new_reachout\n                updated = True\n",
        "                self._block_contexts[key][block] = new_reachout\n                updated = True\n",
    )


def mut_alias_inner(src):
    """(s10) the inner dictionaries of the keys are aliased (g[key] = g[analysis_keys[0]])"""
    return replace_once(src, "            global_liveout[key] = {}\n", "            global_liveout[key] = global_liveout.get(key, {})\n")


def mut_block_eq(src):
    """(s11, basic_blocks.py) BasicBlock defines __eq__ (`in` is no longer identity)"""
    return replace_once(src, "    def __str__(self) -> str:\n", "    def __eq__(self, other: object) -> bool:\n        return True\n\n    def __str__(self) -> str:\n")


def mut_store_after_alias(src):
    """(s12) a statement after the closing loop of forward_analyis"""
    return replace_once(
        src,
        "        for key in analysis_keys:\n            self._block_contexts[key] = global_reachout[key]\n",
        "        for key in analysis_keys:\n            self._block_contexts[key] = global_reachout[key]\n        worklist = []\n",
    )


# ---- twin audit (same-typed section variables / glue functions written for each other, swapped argument order)
def mut_bwd_init_universal(src):
    """(t1) the backward initialisation of the non-leaf blocks uses the universal set"""
    return replace_once(
        src,
        "                else:\n                    global_liveout[key][b] = self._null_set(key)\n",
        "                else:\n                    global_liveout[key][b] = self._universal_set(key)\n",
    )


def mut_fwd_step_union(src):
    """(t2) the forward step unites RCHin with the block context"""
    return replace_once(
        src,
        "            new_reachout = self._intersection(\n                key,\n                self._calculate_reachin(key, block, global_reachout[key]),\n",
        "            new_reachout = self._union(\n                key,\n                self._calculate_reachin(key, block, global_reachout[key]),\n",
    )


def mut_bwd_step_union(src):
    """(t3) the backward step unites LIVEin with the block context"""
    return replace_once(
        src,
        "            new_liveout = self._intersection(\n                key,\n                self._calculate_livein(key, block, global_liveout[key]),\n",
        "            new_liveout = self._union(\n                key,\n                self._calculate_livein(key, block, global_liveout[key]),\n",
    )


def mut_bwd_enqueue_successors(src):
    """(t4) the backward pass enqueues the successors (forward / backward twin)"""
    return replace_once(
        src,
        "                for bi in prev_blocks_global(self._function, b) + callsub_block:\n",
        "                for bi in next_blocks_global(self._function, b) + callsub_block:\n",
    )


def mut_reachin_for_backward(src):
    """(t5) the backward step calls _calculate_reachin (forward / backward twin)"""
    return replace_once(
        src,
        "                self._calculate_livein(key, block, global_liveout[key]),\n",
        "                self._calculate_reachin(key, block, global_liveout[key]),\n",
    )


def mut_fwd_stale_compare(src):
    """(t6) the forward step compares with the block context (twin dictionaries of the same type)"""
    return replace_once(
        src,
        "            if new_reachout != global_reachout[key][block]:\n",
        "            if new_reachout != self._block_contexts[key][block]:\n",
    )


def mut_bwd_leaf_test_swapped(src):
    """(t7) the backward initialisation: the two branches of the leaf test swapped"""
    return replace_once(
        src,
        "                if leaf_block_global(b):  # leaf block\n                    global_liveout[key][b] = self._block_contexts[key][b]\n                else:\n                    global_liveout[key][b] = self._null_set(key)\n",
        "                if leaf_block_global(b):  # leaf block\n                    global_liveout[key][b] = self._null_set(key)\n                else:\n                    global_liveout[key][b] = self._block_contexts[key][b]\n",
    )


def mut_fwd_step_args(src):
    """(a1) the forward step: the two set arguments of _intersection swapped"""
    return replace_once(
        src,
        "                self._calculate_reachin(key, block, global_reachout[key]),\n                self._block_contexts[key][block],\n",
        "                self._block_contexts[key][block],\n                self._calculate_reachin(key, block, global_reachout[key]),\n",
    )


def mut_bwd_step_args(src):
    """(a2) the backward step: the two set arguments of _intersection swapped"""
    return replace_once(
        src,
        "                self._calculate_livein(key, block, global_liveout[key]),\n                self._block_contexts[key][block],\n",
        "                self._block_contexts[key][block],\n                self._calculate_livein(key, block, global_liveout[key]),\n",
    )


def mut_fwd_neq_args(src):
    """(a3) the forward step: operands of != swapped (== of an arbitrary domain need not be symmetric)"""
    return replace_once(
        src,
        "            if new_reachout != global_reachout[key][block]:\n",
        "            if global_reachout[key][block] != new_reachout:\n",
    )


def mut_fwd_concat_order(src):
    """(a4) the forward pass enqueues the return point before the successors"""
    return replace_once(
        src,
        "                for bi in next_blocks_global(self._function, b) + return_point_block:\n",
        "                for bi in return_point_block + next_blocks_global(self._function, b):\n",
    )


def mut_bwd_concat_order(src):
    """(a5) the backward pass enqueues the callsub block before the predecessors"""
    return replace_once(
        src,
        "                for bi in prev_blocks_global(self._function, b) + callsub_block:\n",
        "                for bi in callsub_block + prev_blocks_global(self._function, b):\n",
    )


MUTATIONS = [
    ("(i) `updated` overwritten per key (regression)", GEN, mut_flag_overwritten),
    ("(ii) forward: return point not enqueued", GEN, mut_no_return_point),
    ("(iii) backward: callsub_block not enqueued", GEN, mut_no_callsub_block),
    ("(iv) forward: `if bi not in worklist` dropped", GEN, mut_duplicates),
    ("(v) backward init: null set for leaf blocks", GEN, mut_leaf_null),
    ("(x1) backward: `updated` overwritten per key", GEN, mut_flag_overwritten_bwd),
    ("(x2) `updated = False` in an else branch", GEN, mut_flag_last_key),
    ("(x3) forward enqueues the predecessors", GEN, mut_enqueue_predecessors),
    ("(x4) forward init: universal set", GEN, mut_init_universal),
    ("(x5) forward step: block context not intersected", GEN, mut_no_block_context),
    ("(x6) backward step: leaf test dropped", GEN, mut_leaf_recomputed),
    ("(x7) forward result not stored", GEN, mut_not_stored),
    ("(x8) return point: `is not None` test dropped", GEN, mut_return_point_always),
    ("(x9) forward step calls _calculate_livein", GEN, mut_livein_for_forward),
    ("(x10) backward compares with the block context", GEN, mut_stale_compare),
    ("(s1) head of the worklist not removed", GEN, mut_no_pop),
    ("(s2) worklist used as a stack", GEN, mut_pop_last),
    ("(s3) `==` for `!=`", GEN, mut_equal),
    ("(s4) `updated = False` inside the key loop", GEN, mut_flag_in_loop),
    ("(s5) break in the while loop", GEN, mut_break),
    ("(s6) subclass overrides forward_analyis", FEE, mut_override),
    ("(s7) self._block_contexts re-assigned", FEE, mut_contexts_reassigned),
    ("(s8) Function.blocks edited", FN, mut_function_blocks),
    ("(s9) step stores into self._block_contexts", GEN, mut_other_dict),
    ("(s10) inner dictionary not created by {}", GEN, mut_alias_inner),
    ("(s11) BasicBlock defines __eq__", BB, mut_block_eq),
    ("(s12) statement after the closing loop", GEN, mut_store_after_alias),
    ("(t1) TWIN backward init: universal set for null set", GEN, mut_bwd_init_universal),
    ("(t2) TWIN forward step: union for intersection", GEN, mut_fwd_step_union),
    ("(t3) TWIN backward step: union for intersection", GEN, mut_bwd_step_union),
    ("(t4) TWIN backward enqueues the successors", GEN, mut_bwd_enqueue_successors),
    ("(t5) TWIN backward step calls _calculate_reachin", GEN, mut_reachin_for_backward),
    ("(t6) TWIN forward compares with the block context", GEN, mut_fwd_stale_compare),
    ("(t7) TWIN backward init: branches of the leaf test swapped", GEN, mut_bwd_leaf_test_swapped),
    ("(a1) ARGS forward step: _intersection(key, y, x)", GEN, mut_fwd_step_args),
    ("(a2) ARGS backward step: _intersection(key, y, x)", GEN, mut_bwd_step_args),
    ("(a3) ARGS forward step: operands of != swapped", GEN, mut_fwd_neq_args),
    ("(a4) ARGS forward: return point + successors", GEN, mut_fwd_concat_order),
    ("(a5) ARGS backward: callsub block + predecessors", GEN, mut_bwd_concat_order),
]
REQUIRED = 5  # the first five rows are the mutations required by the task


# ----------------------------------------------------------------------------- one run
def enclosing(vfile, line):
    name = "?"
    with open(vfile, encoding="utf-8") as f:
        for i, l in enumerate(f, 1):
            m = re.match(r"\s*(Lemma|Theorem|Corollary|Definition)\s+(\w+)", l)
            if m and i <= line:
                name = m.group(2)
            if i > line:
                break
    return name


def probe_text():
    with open(os.path.join(COQ, "Lemmas", "SolverGenLemmas.v"), encoding="utf-8") as fh:
        s = fh.read()
    a, b = s.index("(* PROBE-BEGIN *)"), s.index("(* PROBE-END *)")
    return PROBE_HEAD + s[a:b] + "\n"


def run_case(work, scratch, rel=None, mutate=None):
    """-> dict(translator=..., text=..., gen_ok=..., lemmas_ok=..., where=..., probe_ok=..., log=...)"""
    gen = os.path.join(work, "Gen")
    lem = os.path.join(work, "Lemmas")
    os.makedirs(gen)
    os.makedirs(lem)
    path, orig = None, None
    if mutate:
        path = os.path.join(scratch, rel)
        with open(path, encoding="utf-8") as fh:
            orig = fh.read()
        new = mutate(orig)
        if new == orig:
            raise RuntimeError("mutation did not change the source")
        ast.parse(new)  # the mutant is valid Python
        with open(path, "w", encoding="utf-8") as fh:
            fh.write(new)
    try:
        rc, out = sh(f"{PY} {HERE}/translate_solver.py {gen}", env={"VERIF_REPO": scratch})
    finally:
        if path:
            with open(path, "w", encoding="utf-8") as fh:
                fh.write(orig)
    res = {"translator": "ok" if rc == 0 else "STOPPED", "log": out.strip().replace(scratch + "/", ""), "text": None, "gen_ok": None, "lemmas_ok": None, "where": None, "probe_ok": None}
    if rc != 0:
        if rc != 2 or "translator:" not in out:
            res["translator"] = "CRASHED"
        return res
    with open(os.path.join(gen, "SolverGen.v"), encoding="utf-8") as fh:
        res["text"] = fh.read()
    # the other generated files are taken (compiled) from the built tree
    for f in ("Tables.vo", "Leaves.vo", "KeysGen.vo", "SingleGen.vo", "AssertedGen.vo", "GraphGen.vo"):
        os.symlink(os.path.join(COQ, "Gen", f), os.path.join(gen, f))
    lemv = os.path.join(lem, "SolverGenLemmas.v")
    shutil.copy(os.path.join(COQ, "Lemmas", "SolverGenLemmas.v"), lemv)
    q = f"-Q {COQ}/Model Tealer -Q {gen} Tealer -Q {COQ}/Spec Tealer -Q {COQ}/Lemmas Tealer"
    rc, out = sh(f"timeout 300 coqc {q} {gen}/SolverGen.v 2>&1")
    res["gen_ok"] = rc == 0
    res["log"] += "\n" + out[-1500:]
    if rc == 0:
        rc, out = sh(f"timeout 900 coqc {q} {lemv} 2>&1")
        res["lemmas_ok"] = rc == 0
        res["log"] += "\n" + out[-1500:]
        if rc != 0:
            m = re.search(r"line (\d+), characters", out)
            res["where"] = f"{enclosing(lemv, int(m.group(1)))} (line {m.group(1)})" if m else ("timeout" if rc == 124 else "?")
        probe = os.path.join(lem, "SolverGenProbe.v")
        with open(probe, "w", encoding="utf-8") as fh:
            fh.write(probe_text())
        rc, out = sh(f"timeout 300 coqc {q} {probe} 2>&1")
        res["probe_ok"] = rc == 0
    return res


def main():
    verbose = "-v" in sys.argv
    for f in ("Model/Analysis.vo", "Gen/KeysGen.vo", "Gen/GraphGen.vo", "Lemmas/SolverLemmas.vo", "Lemmas/GraphGenLemmas.vo", "Lemmas/TotalSolver.vo"):
        if not os.path.exists(os.path.join(COQ, f)):
            print(f"precondition: {COQ}/{f} missing -- build coq/ first (make)")
            sys.exit(3)
    top = tempfile.mkdtemp(prefix="tsolver_")
    scratch = os.path.join(top, "repo")
    shutil.copytree(os.path.join(REPO, "tealer"), os.path.join(scratch, "tealer"), ignore=shutil.ignore_patterns("__pycache__"))
    rows = []
    ok = True
    try:
        base = run_case(os.path.join(top, "base"), scratch)
        same = None
        cur = os.path.join(COQ, "Gen", "SolverGen.v")
        if base["text"] is not None and os.path.exists(cur):
            with open(cur, encoding="utf-8") as fh:
                same = fh.read() == base["text"]
        good = base["translator"] == "ok" and base["gen_ok"] and base["lemmas_ok"] and base["probe_ok"] and same is True
        ok &= bool(good)
        rows.append(("(a) clean source", base["translator"], "= coq/Gen/SolverGen.v" if same else ("DIFFERS from coq/Gen" if same is False else "-"), base["gen_ok"], base["lemmas_ok"], base["probe_ok"], "PASS" if good else "FAIL"))
        if verbose or not good:
            print(base["log"])
        for i, (name, rel, fn) in enumerate(MUTATIONS):
            r = run_case(os.path.join(top, f"m{i}"), scratch, rel, fn)
            if r["translator"] == "STOPPED":
                verdict, good, diff = "caught: translator stops", True, "-"
            elif r["translator"] == "CRASHED":
                verdict, good, diff = "FAIL: translator crashed", False, "-"
            else:
                differs = r["text"] != base["text"]
                diff = "differs" if differs else "IDENTICAL"
                if differs and r["gen_ok"] and r["lemmas_ok"] is False:
                    verdict, good = f"caught: lemmas break in {r['where']}", True
                elif differs and not r["gen_ok"]:
                    verdict, good = "caught: SolverGen.v ill-typed", True
                else:
                    verdict, good = "FAIL: NOT DETECTED", False
            ok &= good
            rows.append((name, r["translator"], diff, r["gen_ok"], r["lemmas_ok"], r["probe_ok"], verdict))
            if verbose or not good:
                print(f"--- {name}\n{r['log']}\n")
            elif r["translator"] == "STOPPED":
                print(f"--- {name}: {r['log'].splitlines()[0][:260]}")
    finally:
        shutil.rmtree(top, ignore_errors=True)
    hdr = ("case", "translator", "generated Gallina", "SolverGen.v compiles", "SolverGenLemmas.v compiles", "2-key probe holds", "verdict")
    fmt = lambda x: "-" if x is None else ("yes" if x is True else ("NO" if x is False else str(x)))  # noqa: E731
    table = [hdr] + [tuple(fmt(c) for c in r) for r in rows]
    widths = [max(len(r[i]) for r in table) for i in range(len(hdr))]
    print()
    for k, r in enumerate(table):
        print(" | ".join(c.ljust(w) for c, w in zip(r, widths)))
        if k == 0:
            print("-+-".join("-" * w for w in widths))
    print(
        "\nNotes.  (i)/(x1)/(x2): besides the proof scripts, the statement merge_information_*_gen_cons (the flag of k :: ks is the\n"
        "disjunction of the flags) is FALSE of the mutant; for the forward mutants the 2-key probe (vm_compute on the generated function,\n"
        "no proof script involved) fails as well.\n"
        "(iv): the generated loop differs (worklist ++ [bi] unconditionally) and the equality with Analysis.forward is false of the mutant\n"
        "(the worklists, hence the number of iterations / the fuel needed, differ), so the lemma file breaks (in forward_analyis_loop_gen_eq\n"
        "the rewrite with append_fold_eq no longer finds the fold of the generated text).  The mutant computes the same fixpoint whenever both terminate (order independence), but the\n"
        "lemma file does NOT prove that: it proves equality with the model's iteration, which is strictly finer.  The 2-key probe, a\n"
        "statement about one step, still holds for this mutant."
    )
    print("\nRESULT:", "all mutations caught, clean source accepted" if ok else "FAILURE")
    sys.exit(0 if ok else 1)


if __name__ == "__main__":
    main()
