#!/venv/bin/python
"""Statement-by-statement translation of tealer's condition-combination function into Gallina (Gen/AssertedGen.v).

Translated (read with `ast` only, never imported):
  analyses/utils/stack_ast_builder.py                        : _flatten_ast       -> flatten_ast_gen
                                                               compute_equations  -> compute_equations_gen
  analyses/dataflow/transaction_context/generic.py           : DataflowTransactionContext._get_asserted
                                                                                  -> get_asserted_gen
The hand-written counterpart is Model/Analysis.v, Section Domain: asserted / and_parts / or_parts over the `cond`
tree built by StackAst.cond_of; Lemmas/AssertedGenLemmas.v proves generated = hand-written.

Reading of Python in Gallina.  The exception monad (`py A := option A`, ret, bind, ifE, notE), the attribute reads
`v.instruction`, `v.args[k]` (attr_instruction, attr_args, subscript) and isinstance(v, UnknownStackValue) are the
ones of the fixed prelude of Gen/KeysGen.v (tools/translate_keys.py), imported, not repeated.  In addition:
  * recursion: Python recurses on sub-values; every translated function that is recursive, or calls one, takes an
    explicit recursion budget `fuel : nat`; a recursive function is `Fixpoint f (fuel : nat) .. {struct fuel}`, its
    translated body sits under `S fuel` and every call passes the decremented `fuel`; `O => None` (budget exhausted,
    read like Python's RecursionError).  Lemmas/AssertedGenLemmas.v gives a sufficient budget.
  * `for x in l: body` is `fold_left (fun acc x => bind acc (fun st => <body>)) l (ret <state>)`: the state is the
    tuple of the variables that are (re)assigned in the body and already bound before the loop; the translated body
    ends by returning the new state; variables first bound in the body (and the loop variable) are local to it.
    return/break/continue are not accepted in a loop body.  `x.append(e)` is the rebinding `x := x ++ [e]`.
  * tuples are destructured with fst/snd under `let` (never with a Gallina pattern: a Python name such as `left`
    would be read as a constructor in a pattern).
  * what follows an `if` is duplicated into the branches that fall through (as in translate_keys.py).
  * the abstract methods of DataflowTransactionContext are the parameters of the Section, as in Model/Analysis.v:
    self._universal_set(key) = univ, self._null_set(key) = null, self._intersection(key, a, b) = inter a b,
    self._union(key, a, b) = union a b, self._get_asserted_single(key, v) = single op pos args for
    v = KnownStackValue(op@pos, args) (the `key` argument must be the method's own `key`: the parameters are the
    operations of that key).  `self._get_asserted` is the translated function itself: the translator checks that no
    class of transaction_context/ overrides it.
    A function that uses one member of a group of same-typed parameters (univ / null, union / inter) takes the
    whole group (a dead `let`, tcommon.pin_twins), so that writing one for the other cannot become a mere renaming of
    a parameter of the discharged function.
  * a class object passed as `node_ins` is a value of the generated type `nodeclass` (one constructor per class
    that is passed: And, Or); isinstance(i, node_ins) is isinstance_node.  isinstance(i, (A, B)) with literal class
    names is a constructor match through CLASS_PATTERNS; the translator checks that these classes have no
    subclasses.  `@lru_cache(maxsize=None)` on compute_equations is accepted: the function is pure and its result
    is only iterated by the caller.

Fail-closed: every statement kind, expression kind, attribute name, call name, class name and variable type that is
not whitelisted below raises TranslateError.
"""
import ast
import os
import sys

from tcommon import TranslateError, fail, parse, strip_doc, pin_twins, T
from translate_keys import check_imports, check_no_subclasses, indent

SB_REL = "analyses/utils/stack_ast_builder.py"
GEN_REL = "analyses/dataflow/transaction_context/generic.py"
TC_DIR = "analyses/dataflow/transaction_context"

# ----------------------------------------------------------------------------- whitelists
# python instruction class -> constructor pattern of Model/Syntax.instr
CLASS_PATTERNS = {"And": "IAnd", "Or": "IOr", "Not": "INot"}
# classes that may be passed as a class object (node_ins)
NODE_CLASSES = ("And", "Or")
# abstract methods of DataflowTransactionContext -> (section parameter, number of arguments after `key`)
DOMAIN_METHODS = {
    "_universal_set": ("univ", 0),
    "_null_set": ("null", 0),
    "_intersection": ("inter", 2),
    "_union": ("union", 2),
}
ABSTRACT_METHODS = ("_universal_set", "_null_set", "_union", "_intersection", "_get_asserted_single")

# types of the little typed expression language
VAL, INS, BOOL, DOM, NODE = "sval", "instr", "bool", "T", "nodeclass"
LIST_ANY = "list ?"  # the empty list literal


def tlist(t):
    return f"list {t}"


def ttup(*ts):
    return "(" + " * ".join(ts) + ")"


def tup_parts(t):
    """components of a product type written by ttup (components are never products themselves here)"""
    if t.startswith("(") and t.endswith(")"):
        return t[1:-1].split(" * ")
    return None


RESERVED = {
    "fuel", "acc", "st", "l", "T", "univ", "null", "union", "inter", "single", "ret", "bind", "py", "ifE", "notE", "andE", "orE",
    "subscript", "attr_instruction", "attr_args", "isinstance_UnknownStackValue", "isinstance_node", "get_asserted_single",
    "flatten_ast_gen", "compute_equations_gen", "get_asserted_gen", "fold_left", "fst", "snd", "negb", "true", "false", "nil", "cons", "app",
    "Some", "None", "K_And", "K_Or", "O", "S",
    "in", "at", "as", "fun", "let", "match", "end", "if", "then", "else", "return", "with", "forall", "exists", "fix", "cofix", "for",
    "where", "using", "Type", "Prop", "Set", "SProp", "struct",
}  # fmt: skip

PRELUDE = r"""
(* ====================================================================== *)
(* PRELUDE (fixed text); the exception monad and the attribute reads are those of Gen/KeysGen.v            *)
(* ====================================================================== *)
(* a class object passed as `node_ins` (Type[Instruction]): the classes the translated code passes *)
Inductive nodeclass := %(node_ctors)s.
(* isinstance(i, node_ins); the classes have no subclasses (checked by the translator) *)
Definition isinstance_node (i : instr) (c : nodeclass) : bool :=
  match c, i with %(node_cases)s => true | _, _ => false end.
"""

SECTION_HEAD = r"""
(* the abstract methods of DataflowTransactionContext for one analysis key (same parameters as Model/Analysis.v,
   Section Domain) *)
Section AssertedGen.
  Variable T : Type.
  Variable univ null : T.
  Variable union inter : T -> T -> T.
  Variable single : instr -> nat -> list sval -> T * T.

  (* self._get_asserted_single(key, v): v is a KnownStackValue (an UnknownStackValue has no .instruction) *)
  Definition get_asserted_single (v : sval) : py (T * T) :=
    match v with SKnown op pos args _ => Some (single op pos args) | SUnknown => None end.
"""


# ----------------------------------------------------------------------------- environment
class Env:
    def __init__(self, path, vars_, kind, imports=None):
        self.path = path
        self.imports = imports or {}  # name -> origin, for the file the function is read from
        self.vars = dict(vars_)  # python name -> type (the Coq name is the Python name)
        self.kind = kind  # "flatten" | "compute" | "asserted"
        self.counter = [0]
        self.in_loop = False

    def child(self, **new):
        e = Env(self.path, self.vars, self.kind, self.imports)
        e.counter = self.counter
        e.in_loop = self.in_loop
        e.vars.update(new)
        return e

    def fresh(self):
        self.counter[0] += 1
        return f"tmp{self.counter[0]}"


def seq(env, parts, build, monadic_result=False):
    """parts: [(term, pure)]; impure parts are bound left to right to fresh names. -> (term, pure)"""
    binds, atoms = [], []
    for t, pure in parts:
        if pure:
            atoms.append(t)
        else:
            v = env.fresh()
            binds.append((v, t))
            atoms.append(v)
    body = build(*atoms)
    if not binds and not monadic_result:
        return body, True
    out = body if monadic_result else f"(ret {body})"
    for v, t in reversed(binds):
        out = f"(bind {t} (fun {v} => {out}))"
    return out, False


def as_monadic(t, pure):
    return f"(ret {t})" if pure else t


def compatible(a, b):
    """type of a re-assignment: equal, or the empty list literal against a list"""
    if a == b:
        return a
    if a == LIST_ANY and b.startswith("list "):
        return b
    if b == LIST_ANY and a.startswith("list "):
        return a
    return None


def is_self_call(e, name=None):
    return (
        isinstance(e, ast.Call)
        and isinstance(e.func, ast.Attribute)
        and isinstance(e.func.value, ast.Name)
        and e.func.value.id == "self"
        and (name is None or e.func.attr == name)
    )


INS_MODULE = "tealer.teal.instructions.instructions"
SB_MODULE = "tealer.analyses.utils.stack_ast_builder"


def need_origin(env, node, name, origins):
    """the global name used at [node] is bound (top-level import / definition) to the expected object"""
    if env.imports.get(name) not in origins:
        fail(env.path, node, f"name {name} is bound to {env.imports.get(name)}, expected one of {sorted(origins)}")


def node_class_arg(env, node):
    """an expression denoting a class object passed as node_ins -> coq term"""
    if isinstance(node, ast.Name):
        if env.vars.get(node.id) == NODE:
            return node.id
        if node.id in NODE_CLASSES and node.id not in env.vars:
            need_origin(env, node, node.id, {INS_MODULE + "." + node.id})
            return f"K_{node.id}"
    fail(env.path, node, "class argument " + ast.unparse(node))


def key_arg(env, e):
    """the first argument of a self.<method>(key, ..) call must be the method's own `key`"""
    if env.kind != "asserted":
        fail(env.path, e, "method call outside _get_asserted: " + ast.unparse(e)[:60])
    if e.keywords or not e.args or not (isinstance(e.args[0], ast.Name) and e.args[0].id == "key"):
        fail(env.path, e, "method call whose first argument is not `key`: " + ast.unparse(e)[:60])
    return e.args[1:]


def expr(env, e):
    """-> (term, type, pure)"""
    p = env.path
    if isinstance(e, ast.Constant):
        if e.value is True:
            return "true", BOOL, True
        if e.value is False:
            return "false", BOOL, True
        fail(p, e, "constant " + ast.unparse(e))
    if isinstance(e, ast.Name):
        if e.id in env.vars:
            return e.id, env.vars[e.id], True
        fail(p, e, f"unknown name {e.id}")
    if isinstance(e, ast.Attribute):
        if e.attr == "instruction":
            t, ty, pure = expr(env, e.value)
            if ty != VAL:
                fail(p, e, f"attribute .instruction of a value of type {ty}")
            out, _ = seq(env, [(t, pure)], lambda a: f"(attr_instruction {a})", monadic_result=True)
            return out, INS, False
        fail(p, e, f"attribute {ast.unparse(e)}")
    if isinstance(e, ast.Subscript):
        # x.args[k]
        if (
            isinstance(e.value, ast.Attribute)
            and e.value.attr == "args"
            and isinstance(e.slice, ast.Constant)
            and isinstance(e.slice.value, int)
            and not isinstance(e.slice.value, bool)
            and e.slice.value >= 0
        ):
            t, ty, pure = expr(env, e.value.value)
            if ty != VAL:
                fail(p, e, f".args of a value of type {ty}")
            k = e.slice.value
            out, _ = seq(env, [(t, pure)], lambda a: f"(bind (attr_args {a}) (fun l => subscript l {k}))", monadic_result=True)
            return out, VAL, False
        fail(p, e, "subscript " + ast.unparse(e))
    if isinstance(e, ast.UnaryOp):
        if isinstance(e.op, ast.Not):
            t, ty, pure = expr(env, e.operand)
            if ty != BOOL:
                fail(p, e, f"`not` of a value of type {ty}")
            return (f"(negb {t})" if pure else f"(notE {t})"), BOOL, pure
        fail(p, e, "unary operator")
    if isinstance(e, ast.List):
        if not e.elts:
            return "[]", LIST_ANY, True
        parts = [expr(env, x) for x in e.elts]
        tys = {ty for _, ty, _ in parts}
        if len(tys) != 1 or tup_parts(next(iter(tys))) or next(iter(tys)).startswith("list"):
            fail(p, e, "list literal " + ast.unparse(e))
        out, pure = seq(env, [(t, pu) for t, _, pu in parts], lambda *a: "[" + "; ".join(a) + "]")
        return out, tlist(parts[0][1]), pure
    if isinstance(e, ast.BinOp):
        if isinstance(e.op, ast.Add):
            l, lty, lp = expr(env, e.left)
            r, rty, rp = expr(env, e.right)
            ty = compatible(lty, rty)
            if ty is None or not ty.startswith("list ") or ty == LIST_ANY:
                fail(p, e, f"`+` on values of types {lty}, {rty}")
            out, pure = seq(env, [(l, lp), (r, rp)], lambda a, b: f"({a} ++ {b})")
            return out, ty, pure
        fail(p, e, "binary operator " + ast.unparse(e))
    if isinstance(e, ast.Tuple):
        if len(e.elts) < 2:
            fail(p, e, "tuple " + ast.unparse(e))
        parts = [expr(env, x) for x in e.elts]
        for (_, ty, _), x in zip(parts, e.elts):
            if tup_parts(ty) or ty == LIST_ANY:
                fail(p, x, f"tuple component of type {ty}")
        out, pure = seq(env, [(t, pu) for t, _, pu in parts], lambda *a: "(" + ", ".join(a) + ")")
        return out, ttup(*[ty for _, ty, _ in parts]), pure
    if isinstance(e, ast.Call):
        return call(env, e)
    fail(p, e, "expression " + ast.unparse(e)[:60])


def call(env, e):
    p = env.path
    if is_self_call(e):
        m = e.func.attr
        args = key_arg(env, e)
        if m in DOMAIN_METHODS:
            coq, n = DOMAIN_METHODS[m]
            if len(args) != n:
                fail(p, e, f"self.{m} with {len(args)} arguments after key")
            parts = [expr(env, a) for a in args]
            for (_, ty, _), a in zip(parts, args):
                if ty != DOM:
                    fail(p, a, f"argument of self.{m} of type {ty}")
            if n == 0:
                return coq, DOM, True
            out, pure = seq(env, [(t, pu) for t, _, pu in parts], lambda *a: f"({coq} " + " ".join(a) + ")")
            return out, DOM, pure
        if m in ("_get_asserted", "_get_asserted_single") and len(args) == 1:
            t, ty, pure = expr(env, args[0])
            if ty != VAL:
                fail(p, e, f"self.{m} of a value of type {ty}")
            build = (lambda a: f"(get_asserted_gen fuel {a})") if m == "_get_asserted" else (lambda a: f"(get_asserted_single {a})")
            out, _ = seq(env, [(t, pure)], build, monadic_result=True)
            return out, ttup(DOM, DOM), False
        fail(p, e, "method call " + ast.unparse(e)[:60])
    if e.keywords or not isinstance(e.func, ast.Name):
        fail(p, e, "call " + ast.unparse(e)[:60])
    fn = e.func.id
    if fn in env.vars:
        fail(p, e, f"call of the local variable {fn}")
    if fn == "isinstance" and len(e.args) == 2:
        t, ty, pure = expr(env, e.args[0])
        c = e.args[1]
        if ty == VAL and isinstance(c, ast.Name) and c.id == "UnknownStackValue" and c.id not in env.vars:
            need_origin(env, c, c.id, {"<local>" if env.kind != "asserted" else SB_MODULE + "." + c.id})
            build = lambda a: f"(isinstance_UnknownStackValue {a})"  # noqa: E731
        elif ty == INS and isinstance(c, ast.Name) and env.vars.get(c.id) == NODE:
            build = lambda a: f"(isinstance_node {a} {c.id})"  # noqa: E731
        elif ty == INS:
            names = [c] if isinstance(c, ast.Name) else (list(c.elts) if isinstance(c, ast.Tuple) and c.elts else None)
            if names is None or not all(isinstance(x, ast.Name) and x.id in CLASS_PATTERNS and x.id not in env.vars for x in names):
                fail(p, e, "isinstance class argument " + ast.unparse(c))
            for x in names:
                need_origin(env, x, x.id, {INS_MODULE + "." + x.id})
            pats = " | ".join(CLASS_PATTERNS[x.id] for x in names)
            build = lambda a: f"(match {a} with {pats} => true | _ => false end)"  # noqa: E731
        else:
            fail(p, e, f"isinstance of a value of type {ty} with {ast.unparse(c)}")
        out, pure2 = seq(env, [(t, pure)], build)
        return out, BOOL, pure2
    if fn == "_flatten_ast" and len(e.args) == 2 and env.kind in ("flatten", "compute"):
        need_origin(env, e, fn, {"<local>"})
        t, ty, pure = expr(env, e.args[0])
        if ty != VAL:
            fail(p, e, f"_flatten_ast of a value of type {ty}")
        c = node_class_arg(env, e.args[1])
        out, _ = seq(env, [(t, pure)], lambda a: f"(flatten_ast_gen fuel {a} {c})", monadic_result=True)
        return out, tlist(VAL), False
    if fn == "compute_equations" and len(e.args) == 2 and env.kind == "asserted":
        need_origin(env, e, fn, {SB_MODULE + "." + fn})
        t, ty, pure = expr(env, e.args[0])
        if ty != VAL:
            fail(p, e, f"compute_equations of a value of type {ty}")
        c = node_class_arg(env, e.args[1])
        out, _ = seq(env, [(t, pure)], lambda a: f"(compute_equations_gen fuel {a} {c})", monadic_result=True)
        return out, ttup(tlist(VAL), BOOL), False
    fail(p, e, "call " + ast.unparse(e)[:60])


# ----------------------------------------------------------------------------- statements
RET_TYPE = {"flatten": tlist(VAL), "compute": ttup(tlist(VAL), BOOL), "asserted": ttup(DOM, DOM)}


def check_name(env, name, node):
    if name in RESERVED or name.startswith("tmp") or name in CLASS_PATTERNS or name in ("UnknownStackValue", "key", "self"):
        fail(env.path, node, f"variable name {name} is reserved by the translator")
    if not name.isidentifier() or not name.isascii():
        fail(env.path, node, f"variable name {name}")


def bind_var(env, name, node, t, ty, pure, rest_of):
    """`name = <t>`; a re-assignment must keep the type of the variable"""
    check_name(env, name, node)
    if name in env.vars:
        ty2 = compatible(env.vars[name], ty)
        if ty2 is None:
            fail(env.path, node, f"re-assignment of {name} changes its type from {env.vars[name]} to {ty}")
        ty = ty2
    rest = rest_of(env.child(**{name: ty}))
    if pure:
        return f"(let {name} := {t} in\n{rest})"
    return f"(bind {t} (fun {name} =>\n{rest}))"


def projections(n, st):
    """terms of the n components of the left-nested tuple st"""
    if n == 1:
        return [st]
    return projections(n - 1, f"(fst {st})") + [f"(snd {st})"]


def destructure(env, names, node, t, ty, pure, rest_of):
    """`a, b, .. = <t>` for a tuple-valued term: bound to a temporary, then projected with fst/snd"""
    parts = tup_parts(ty)
    if parts is None or len(parts) != len(names) or len(set(names)) != len(names):
        fail(env.path, node, f"destructuring of a value of type {ty} into {len(names)} variables")
    tmp = env.fresh()

    def chain(env2, i):
        if i == len(names):
            return rest_of(env2)
        return bind_var(env2, names[i], node, projs[i], parts[i], True, lambda env3: chain(env3, i + 1))

    projs = projections(len(names), tmp)
    inner = chain(env, 0)
    if pure:
        return f"(let {tmp} := {t} in\n{inner})"
    return f"(bind {t} (fun {tmp} =>\n{inner}))"


def names_in(node):
    return {n.id for n in ast.walk(node) if isinstance(n, ast.Name)}


def assigned_in(env, stmts):
    """names (re)bound by the statements of a loop body, in order of first occurrence; fail on anything that is not
    a plain rebinding"""
    out = []

    def add(n):
        if n not in out:
            out.append(n)

    for st in stmts:
        for node in ast.walk(st):
            if isinstance(node, (ast.Return, ast.Break, ast.Continue, ast.For, ast.While, ast.Try, ast.With, ast.FunctionDef, ast.Lambda, ast.NamedExpr, ast.AugAssign, ast.Delete, ast.Global, ast.Nonlocal, ast.ListComp, ast.GeneratorExp, ast.Yield, ast.Raise)):
                fail(env.path, node, "statement/expression not accepted in a loop body: " + type(node).__name__)
            if isinstance(node, ast.Assign):
                for tg in node.targets:
                    for n in ast.walk(tg):
                        if isinstance(n, ast.Name):
                            add(n.id)
            if isinstance(node, ast.Expr) and is_append(node):
                add(node.value.func.value.id)
    return out


def is_append(st):
    v = st.value
    return (
        isinstance(v, ast.Call)
        and isinstance(v.func, ast.Attribute)
        and v.func.attr == "append"
        and isinstance(v.func.value, ast.Name)
        and len(v.args) == 1
        and not v.keywords
    )


def tuple_term(names):
    return names[0] if len(names) == 1 else "(" + ", ".join(names) + ")"


def block(env, stmts, fall):
    """stmts: statement list; fall: function env -> term for what follows the block (None: the function ends).
    Returns a term of type py R."""
    p = env.path
    stmts = strip_doc(stmts)
    if not stmts:
        if fall is None:
            raise TranslateError(f"translator: {p}: control reaches the end of the function without return")
        return fall(env)
    st, rest = stmts[0], stmts[1:]
    rest_of = lambda env2: block(env2, rest, fall)  # noqa: E731
    if isinstance(st, ast.Return):
        if env.in_loop:
            fail(p, st, "return in a loop body")
        if rest:
            fail(p, rest[0], "statement after return")
        if st.value is None:
            fail(p, st, "bare return")
        t, ty, pure = expr(env, st.value)
        if compatible(ty, RET_TYPE[env.kind]) is None:
            fail(p, st, f"return of a value of type {ty}, expected {RET_TYPE[env.kind]}")
        return as_monadic(t, pure)
    if isinstance(st, ast.Assign):
        if len(st.targets) != 1:
            fail(p, st, "chained assignment")
        tg = st.targets[0]
        if isinstance(tg, ast.Name):
            t, ty, pure = expr(env, st.value)
            return bind_var(env, tg.id, st, t, ty, pure, rest_of)
        if isinstance(tg, ast.Tuple) and len(tg.elts) >= 2 and all(isinstance(x, ast.Name) for x in tg.elts):
            names = [x.id for x in tg.elts]
            v = st.value
            if isinstance(v, ast.Tuple):
                # a, b = e1, e2: the right-hand sides are evaluated (left to right) before any name is rebound
                if len(v.elts) != len(names) or len(set(names)) != len(names):
                    fail(p, st, "tuple assignment " + ast.unparse(st)[:60])
                parts = [expr(env, x) for x in v.elts]
                if set(names) & names_in(v):
                    # e.g. a, b = b, a: go through temporaries
                    tmps = [env.fresh() for _ in names]
                    srcs = [(tm, ty, True) for tm, (_, ty, _) in zip(tmps, parts)]
                else:
                    tmps, srcs = None, parts

                def chain(env2, i):
                    if i == len(names):
                        return block(env2, rest, fall)
                    t, ty, pure = srcs[i]
                    return bind_var(env2, names[i], st, t, ty, pure, lambda env3: chain(env3, i + 1))

                inner = chain(env, 0)
                if tmps:
                    for tm, (t, _, pure) in reversed(list(zip(tmps, parts))):
                        inner = f"(let {tm} := {t} in\n{inner})" if pure else f"(bind {t} (fun {tm} =>\n{inner}))"
                return inner
            t, ty, pure = expr(env, v)
            return destructure(env, names, st, t, ty, pure, rest_of)
        fail(p, st, "assignment target " + ast.unparse(tg))
    if isinstance(st, ast.Expr):
        # x.append(e)  ==  x := x ++ [e]
        if is_append(st):
            x = st.value.func.value.id
            if x not in env.vars or not env.vars[x].startswith("list"):
                fail(p, st, f".append on {x}, which is not a list variable")
            t, ty, pure = expr(env, st.value.args[0])
            lty = compatible(env.vars[x], tlist(ty))
            if lty is None or tup_parts(ty):
                fail(p, st, f".append of a value of type {ty} to a {env.vars[x]}")
            out, pure2 = seq(env, [(t, pure)], lambda a: f"({x} ++ [{a}])")
            return bind_var(env, x, st, out, lty, pure2, rest_of)
        fail(p, st, "expression statement " + ast.unparse(st)[:60])
    if isinstance(st, ast.If):
        t, ty, pure = expr(env, st.test)
        if ty != BOOL:
            fail(p, st, f"if-condition of type {ty}")
        cont = (lambda env2: block(env2, rest, fall)) if (rest or fall is not None) else None
        then_t = block(env, st.body, cont)
        if st.orelse:
            else_t = block(env, st.orelse, cont)
        else:
            if cont is None:
                raise TranslateError(f"translator: {p}:{st.lineno}: if without else at the end of the function")
            else_t = cont(env)
        if pure:
            return f"(if {t}\n then\n{indent(then_t)}\n else\n{else_t})"
        return f"(ifE {t}\n{indent(then_t)}\n{else_t})"
    if isinstance(st, ast.For):
        if st.orelse or getattr(st, "type_comment", None) or env.in_loop:
            fail(p, st, "for-else / nested loop")
        if not isinstance(st.target, ast.Name) or not isinstance(st.iter, ast.Name):
            fail(p, st, "loop header " + ast.unparse(st)[:60])
        x = st.target.id
        check_name(env, x, st)
        lty = env.vars.get(st.iter.id)
        if lty is None or not lty.startswith("list ") or lty == LIST_ANY:
            fail(p, st, f"iteration over {st.iter.id} of type {lty}")
        if x in env.vars:
            fail(p, st, f"loop variable {x} shadows a variable")
        body = strip_doc(st.body)
        assigned = assigned_in(env, body)
        if x in assigned or st.iter.id in assigned:
            fail(p, st, "loop body assigns the loop variable or the iterated list")
        state = [n for n in assigned if n in env.vars]
        if not state:
            fail(p, st, "loop without carried variable")
        stv = "st"
        projs = projections(len(state), stv)

        # the types of the carried variables are invariant; a variable initialised with `[]` gets its element type
        # from the body (first pass), the second pass checks the invariance
        def run_body(env0, stys, record):
            benv = env0.child(**{x: lty[len("list "):]})
            benv.in_loop = True

            def body_end(env2):
                for n, ty in zip(state, stys):
                    ty2 = compatible(env2.vars[n], ty)
                    if ty2 is None or (record is None and env2.vars[n] != ty):
                        fail(p, st, f"loop body changes the type of {n} from {ty} to {env2.vars[n]}")
                    if record is not None:
                        record[n] = ty2 if record.get(n, LIST_ANY) == LIST_ANY else record[n]
                        if compatible(record[n], ty2) is None:
                            fail(p, st, f"loop body gives {n} the types {record[n]} and {ty2}")
                return f"(ret {tuple_term(state)})"

            return block(benv, body, body_end)

        saved = env.counter[0]
        record = {}
        run_body(env, [env.vars[n] for n in state], record)
        env.counter[0] = saved
        env = env.child(**record)
        stys = [env.vars[n] for n in state]
        if LIST_ANY in stys:
            fail(p, st, "carried list variable whose element type is not determined by the loop body")
        body_t = run_body(env, stys, None)
        for n, pr in reversed(list(zip(state, projs))):
            body_t = f"(let {n} := {pr} in\n{body_t})"
        loop = f"(fold_left (fun acc {x} => (bind acc (fun {stv} =>\n{indent(body_t, 2)})))\n  {st.iter.id} (ret {tuple_term(state)}))"
        # after the loop: only the carried variables are rebound (body-local names stay unknown: fail-closed)
        after = block(env, rest, fall)
        tmp = env.fresh()
        for n, pr in reversed(list(zip(state, projections(len(state), tmp)))):
            after = f"(let {n} := {pr} in\n{after})"
        return f"(bind {loop} (fun {tmp} =>\n{after}))"
    fail(p, st, "statement " + ast.unparse(st)[:60])


# ----------------------------------------------------------------------------- source checks
def find_toplevel(tree, name, path):
    found = [n for n in tree.body if isinstance(n, ast.FunctionDef) and n.name == name]
    if len(found) != 1:
        raise TranslateError(f"translator: {path}: expected exactly one top-level function {name}")
    return found[0]


def signature(path, fn, expected, decorators=()):
    a = fn.args
    if a.vararg or a.kwarg or a.kwonlyargs or a.posonlyargs or a.defaults:
        fail(path, fn, "signature of " + fn.name)
    if [ast.unparse(d) for d in fn.decorator_list] != list(decorators):
        fail(path, fn, f"decorators of {fn.name}: {[ast.unparse(d) for d in fn.decorator_list]}")
    got = [(x.arg, ast.unparse(x.annotation) if x.annotation else None) for x in a.args]
    if got != expected:
        fail(path, fn, f"signature of {fn.name}: {got}")


def find_class(tree, name, path):
    found = [n for n in tree.body if isinstance(n, ast.ClassDef) and n.name == name]
    if len(found) != 1:
        raise TranslateError(f"translator: {path}: expected exactly one class {name}")
    return found[0]


def check_methods(path, cls):
    """_get_asserted is defined once; the methods it calls are the abstract ones (no body besides the docstring)"""
    meths = {}
    for n in cls.body:
        if isinstance(n, ast.FunctionDef):
            if n.name in meths:
                fail(path, n, f"method {n.name} defined twice")
            meths[n.name] = n
    for m in ABSTRACT_METHODS:
        if m not in meths:
            raise TranslateError(f"translator: {path}: abstract method {m} not found")
        f = meths[m]
        if [ast.unparse(d) for d in f.decorator_list] != ["abstractmethod"] or strip_doc(f.body):
            fail(path, f, f"{m} is no longer an abstract method without body")
    if "_get_asserted" not in meths:
        raise TranslateError(f"translator: {path}: method _get_asserted not found")
    return meths["_get_asserted"]


def check_no_override(name):
    """self._get_asserted must be the translated function: no other definition in transaction_context/"""
    d = os.path.join(T, TC_DIR)
    hits = []
    for root, _, files in os.walk(d):
        for fn in sorted(files):
            if fn.endswith(".py"):
                path = os.path.join(root, fn)
                for node in ast.walk(parse(path)):
                    if isinstance(node, (ast.FunctionDef, ast.AsyncFunctionDef)) and node.name == name:
                        hits.append(f"{path}:{node.lineno}")
                    if isinstance(node, ast.Assign) and any(isinstance(t, ast.Attribute) and t.attr == name for t in node.targets):
                        hits.append(f"{path}:{node.lineno}")
    if len(hits) != 1 or not hits[0].startswith(os.path.join(T, GEN_REL) + ":"):
        raise TranslateError(f"translator: {d}: {name} must be defined exactly once, in generic.py; found {hits}")


def bound_names(tree):
    """top-level bindings of a module: imported name -> module.name, local definitions -> <local>"""
    got = {}
    for node in tree.body:
        if isinstance(node, ast.ImportFrom):
            for al in node.names:
                got[al.asname or al.name] = (node.module or "") + "." + al.name
        elif isinstance(node, ast.Import):
            for al in node.names:
                got[(al.asname or al.name).split(".")[0]] = "<module>"
        elif isinstance(node, (ast.FunctionDef, ast.ClassDef)):
            got[node.name] = "<local>"
        elif isinstance(node, (ast.Assign, ast.AnnAssign)):
            for tg in node.targets if isinstance(node, ast.Assign) else [node.target]:
                for n in names_in(tg):
                    got[n] = "<local>"
    return got


def fixpoint(name, params, rty, body):
    return (
        f"Fixpoint {name} (fuel : nat) {params} {{struct fuel}} : {rty} :=\n"
        f"  match fuel with\n"
        f"  | O => None (* recursion budget exhausted *)\n"
        f"  | S fuel =>\n{indent(body, 4)}\n"
        f"  end."
    )


# ----------------------------------------------------------------------------- emission
def emit_asserted(outdir):
    sb = os.path.join(T, SB_REL)
    gp = os.path.join(T, GEN_REL)
    stree, gtree = parse(sb), parse(gp)

    check_imports(
        sb, stree,
        {
            "UnknownStackValue": "<local>",
            "KnownStackValue": "<local>",
            "_flatten_ast": "<local>",
            "compute_equations": "<local>",
            "lru_cache": "functools.lru_cache",
        },
    )
    check_imports(
        gp, gtree,
        {
            "And": "tealer.teal.instructions.instructions.And",
            "Or": "tealer.teal.instructions.instructions.Or",
            "Not": "tealer.teal.instructions.instructions.Not",
            "UnknownStackValue": "tealer.analyses.utils.stack_ast_builder.UnknownStackValue",
            "compute_equations": "tealer.analyses.utils.stack_ast_builder.compute_equations",
            "abstractmethod": "abc.abstractmethod",
        },
    )
    check_no_subclasses(os.path.join(T, "teal/instructions/instructions.py"), set(CLASS_PATTERNS))
    check_no_subclasses(sb, {"UnknownStackValue", "KnownStackValue"})
    check_no_override("_get_asserted")

    L = []
    w = L.append
    w("(* GENERATED by tools/translate.py (translate_asserted) from /repo/tealer -- do not edit *)")
    w("(* analyses/utils/stack_ast_builder.py (_flatten_ast, compute_equations) and transaction_context/generic.py")
    w("   (DataflowTransactionContext._get_asserted), statement by statement.  See tools/translate_asserted.py. *)")
    w("From Coq Require Import String List NArith ZArith Bool.")
    w("From Tealer Require Import Syntax StackAst KeysGen.")
    w("Import ListNotations.")
    w("Open Scope list_scope.")
    w(
        (
            PRELUDE
            % {
                "node_ctors": " | ".join(f"K_{c}" for c in NODE_CLASSES),
                "node_cases": " | ".join(f"K_{c}, {CLASS_PATTERNS[c]}" for c in NODE_CLASSES),
            }
        ).rstrip("\n")
    )
    w("")
    w("(* ====================================================================== *)")
    w("(* TRANSLATED functions                                                     *)")
    w("(* ====================================================================== *)")

    # --- _flatten_ast
    f = find_toplevel(stree, "_flatten_ast", sb)
    signature(sb, f, [("root", "StackValue"), ("node_ins", "Type[Instruction]")])
    env = Env(sb, {"root": VAL, "node_ins": NODE}, "flatten", bound_names(stree))
    w(f"(* {SB_REL}: _flatten_ast (line {f.lineno}) *)")
    w(fixpoint("flatten_ast_gen", "(root : sval) (node_ins : nodeclass)", "py (list sval)", block(env, f.body, None)))
    w("")
    # --- compute_equations
    f = find_toplevel(stree, "compute_equations", sb)
    signature(sb, f, [("root", "KnownStackValue"), ("node_ins", "Type[Instruction]")], decorators=["lru_cache(maxsize=None)"])
    env = Env(sb, {"root": VAL, "node_ins": NODE}, "compute", bound_names(stree))
    w(f"(* {SB_REL}: compute_equations (line {f.lineno}); fuel is the budget passed to flatten_ast_gen *)")
    w(
        "Definition compute_equations_gen (fuel : nat) (root : sval) (node_ins : nodeclass) : py (list sval * bool) :=\n"
        + indent(block(env, f.body, None), 2)
        + "."
    )
    w(SECTION_HEAD.rstrip("\n"))
    w("")
    # --- _get_asserted
    cls = find_class(gtree, "DataflowTransactionContext", gp)
    f = check_methods(gp, cls)
    signature(gp, f, [("self", None), ("key", "str"), ("ins_stack_value", "KnownStackValue")])
    env = Env(gp, {"ins_stack_value": VAL}, "asserted", bound_names(gtree))
    w(f"  (* {GEN_REL}: DataflowTransactionContext._get_asserted (line {f.lineno}) *)")
    # a definition that uses one of univ / null (union / inter) takes both: see tcommon.pin_twins
    w(indent(fixpoint("get_asserted_gen", "(ins_stack_value : sval)", "py (T * T)", pin_twins(block(env, f.body, None))), 2))
    w("End AssertedGen.")
    os.makedirs(outdir, exist_ok=True)
    with open(os.path.join(outdir, "AssertedGen.v"), "w") as fh:
        fh.write("\n".join(L) + "\n")
    return 3


def main():
    outdir = sys.argv[1] if len(sys.argv) > 1 else os.path.join(os.path.dirname(os.path.abspath(__file__)), "..", "coq", "Gen")
    try:
        n = emit_asserted(outdir)
    except TranslateError as e:
        print(str(e))
        sys.exit(2)
    print(f"translate_asserted: {n} condition-combination functions -> {outdir}/AssertedGen.v")


if __name__ == "__main__":
    main()
