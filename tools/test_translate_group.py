#!/venv/bin/python
"""Self-test of tools/translate_group.py (the regenerated group-mode verdict, Gen/GroupGen.v).

(a) runs the translator on the clean source ($VERIF_REPO, default /tmp/cleanrepo) and checks that the output is the
    current coq/Gen/GroupGen.v, compiles, and that Lemmas/GroupGenLemmas.v compiles against it;
(b) applies small mutations to a scratch copy of the tool's source (detectors/utils.py,
    execution_context/transactions.py and the fingerprinted helpers) and shows that, for each, either the translator
    stops (TranslateError) or the generated Gallina differs AND Lemmas/GroupGenLemmas.v no longer compiles against it;
    one semantically neutral mutant (e1: a local variable renamed) is included as a control: its Gallina differs and
    the lemmas must still compile.

The first five rows are the regressions named in the task; (i), (ii), (iii) are the seeded defects C13-seed1/2/3.

Precondition: coq/ has been built (`make`).  Every coqc runs under `timeout`.  Exit status 0 iff every row has the
expected verdict.

usage: VERIF_REPO=/tmp/cleanrepo /venv/bin/python tools/test_translate_group.py [-v]
"""
import ast
import os
import re
import shutil
import subprocess
import sys
import tempfile

HERE = os.path.dirname(os.path.abspath(__file__))
ROOT = os.path.dirname(HERE)
COQ = os.path.join(ROOT, "coq")
PY = "/venv/bin/python"
REPO = os.environ.get("VERIF_REPO", "/tmp/cleanrepo")

UTILS = "tealer/detectors/utils.py"
TX = "tealer/execution_context/transactions.py"
CTX = "tealer/teal/context/block_transaction_context.py"
COMMON = "tealer/utils/command_line/common.py"
DET = "tealer/detectors/abstract_detector.py"
AN = "tealer/utils/analyses.py"


def sh(cmd, cwd=None, env=None):
    e = dict(os.environ)
    if env:
        e.update(env)
    p = subprocess.run(cmd, shell=True, cwd=cwd, stdout=subprocess.PIPE, stderr=subprocess.STDOUT, env=e, check=False)
    return p.returncode, p.stdout.decode(errors="replace")


# ----------------------------------------------------------------------------- mutations (text -> text)
def replace_once(src, old, new):
    if src.count(old) != 1:
        raise RuntimeError(f"mutation anchor found {src.count(old)} times: " + old[:60])
    return src.replace(old, new, 1)


def replace_all(src, old, new, n):
    if src.count(old) != n:
        raise RuntimeError(f"mutation anchor found {src.count(old)} times, expected {n}: " + old[:60])
    return src.replace(old, new)


def cut(src, old):
    return replace_once(src, old, "")


REL_RESET = "            checked = False\n            for (other_txn, offset) in group_txn.group_relative_indexes[txn].items():\n"
REL_LOOP = "            for (other_txn, offset) in group_txn.group_relative_indexes[txn].items():\n"
ABS_LOOP = "                for other_txn in group_txn.transactions:\n"
FILL_ASSIGN = "            group.group_relative_indexes[other_txn][txn] = offset\n"


def mut_checked_once(src):
    """(i) C13-seed1: `checked = False` once per group, the reset before the relative loop removed"""
    src = replace_once(src, "        is_vulnerable = False\n", "        is_vulnerable = False\n        checked = False\n")
    return replace_once(src, REL_RESET, REL_LOOP)


def mut_fill_overwrites(src):
    """(ii) fill_group_relative_indexes overwrites the per-target map"""
    return replace_once(src, FILL_ASSIGN, "            group.group_relative_indexes[other_txn] = {txn: offset}\n")


def mut_fill_overwrites_seed(src):
    """(ii') C13-seed2 as committed: .items() loop and the overwriting assignment"""
    src = replace_once(
        src,
        "        for offset in txn.relative_indexes:\n            other_txn = txn.relative_indexes[offset]\n",
        "        for offset, other_txn in txn.relative_indexes.items():\n",
    )
    return replace_once(src, FILL_ASSIGN, "            group.group_relative_indexes[other_txn] = {txn: offset}\n")


def mut_main_blocks(src):
    """(iii) C13-seed3: the three leaf helpers iterate function.main.blocks"""
    return replace_all(
        src,
        "    leaf_blocks = [block for block in function.blocks if leaf_block_global(block)]\n",
        "    leaf_blocks = [block for block in function.main.blocks if leaf_block_global(block)]\n",
        3,
    )


def mut_abs_skips_self(src):
    """(iv) the absolute-index reader loop skips the transaction itself"""
    return replace_once(src, ABS_LOOP, ABS_LOOP + "                    if other_txn is txn:\n                        continue\n")


def mut_type_inverted(src):
    """(v) eligibility test on the transaction type inverted"""
    return replace_once(src, "                and txn.type not in vulnerable_transaction_types\n", "                and txn.type in vulnerable_transaction_types\n")


def mut_checked_abs_only(src):
    """(x1) only the reset before the relative loop removed (checked leaks from the absolute-index branch)"""
    return replace_once(src, REL_RESET, REL_LOOP)


def mut_no_own_application(src):
    """(x2) the own-application clearance is dropped"""
    return cut(
        src,
        "            if txn.application is not None and contract_checks_its_field(\n                txn.application, checks_field, txn.absoulte_index\n            ):\n"
        "                # the application checks the field. The transaction is not vulnerable\n                # continue to next transaction\n                continue\n",
    )


def mut_own_without_index(src):
    """(x3) the own logic-sig is asked without the configured absolute index"""
    return replace_once(src, "                txn.logic_sig, checks_field, txn.absoulte_index\n", "                txn.logic_sig, checks_field, None\n")


def mut_stateless_stateful_swapped(src):
    """(x4) STATELESS eligibility tests the application"""
    return replace_once(
        src,
        "            if detector.TYPE == DetectorType.STATELESS and not txn.has_logic_sig:\n",
        "            if detector.TYPE == DetectorType.STATELESS and txn.application is None:\n",
    )


def mut_no_break(src):
    """(x5) the relative loop goes on after a hit on the logic-sig (no break)"""
    return replace_once(
        src,
        "                    # The logic sig of some other transaction in the group checks this transaction usiing the relative index.\n                    checked = True\n                    break\n",
        "                    checked = True\n",
    )


def mut_abs_not_cleared(src):
    """(x6) a hit of the absolute-index loop does not clear the transaction"""
    return cut(src, "                if checked:\n                    continue\n\n")


def mut_fill_swapped(src):
    """(x7) fill_group_relative_indexes: target and referrer swapped"""
    return replace_once(src, FILL_ASSIGN, "            group.group_relative_indexes[txn][other_txn] = offset\n")


def mut_fill_no_init(src):
    """(x8) fill_group_relative_indexes: the per-transaction maps are not created"""
    return cut(src, "    for txn in group.transactions:\n        group.group_relative_indexes[txn] = {}\n\n")


def mut_fill_reinit(src):
    """(x9) fill_group_relative_indexes: the map of the referrer is re-created inside the second loop"""
    return replace_once(
        src,
        "    for txn in group.transactions:\n        for offset in txn.relative_indexes:\n",
        "    for txn in group.transactions:\n        group.group_relative_indexes[txn] = {}\n        for offset in txn.relative_indexes:\n",
    )


def mut_record_application(src):
    """(x10) STATELESS detectors record the transaction only when it has a logic-sig function"""
    return replace_once(
        src,
        "                    vulnerable_transactions[txn] = [txn.logic_sig]\n                else:\n                    vulnerable_transactions[txn] = []\n            elif",
        "                    vulnerable_transactions[txn] = [txn.logic_sig]\n            elif",
    )


def mut_report_always(src):
    """(x11) every group is reported"""
    return replace_once(src, "        if is_vulnerable:\n            output.append(", "        if True:\n            output.append(")


def mut_shared_dict(src):
    """(s1) one dict object shared by all transactions"""
    return replace_once(
        src,
        "    for txn in group.transactions:\n        group.group_relative_indexes[txn] = {}\n",
        "    empty = {}\n    for txn in group.transactions:\n        group.group_relative_indexes[txn] = empty\n",
    )


def mut_relative_context(src):
    """(s2, block_transaction_context.py) relative_context accepts any offset"""
    return cut(src, "        if offset not in self._relative_context:\n            raise TealerException()\n")


def mut_transaction_eq(src):
    """(s3, transactions.py) Transaction defines __eq__"""
    return replace_once(
        src,
        '        self.transacton_id: str = ""\n',
        '        self.transacton_id: str = ""\n\n    def __eq__(self, other: object) -> bool:\n        return isinstance(other, Transaction) and self.type == other.type\n',
    )


def mut_no_fill_call(src):
    """(s4, common.py) init_tealer_from_config no longer fills the relative indexes"""
    return cut(src, "        fill_group_relative_indexes(group_obj)\n")


def mut_detector_type_values(src):
    """(s5, abstract_detector.py) two DetectorType members share a value (ComparableEnum compares values)"""
    return replace_once(src, "    STATELESS = 2\n", "    STATELESS = 0\n")


def mut_leaf_helper(src):
    """(s6, utils/analyses.py) leaf_block_global no longer excludes callsub blocks"""
    return replace_once(
        src,
        "    return len(block.next) == 0 and not block.is_retsub_block and not block.is_callsub_block\n",
        "    return len(block.next) == 0 and not block.is_retsub_block\n",
    )


def mut_stored_dict_carried(src):
    """(s7) vulnerable_transactions created once, before the loop over the groups (stored objects mutated later)"""
    src = cut(src, "        vulnerable_transactions = {}\n")
    return replace_once(src, "    output = []\n    for group_txn in tealer.groups:\n", "    output = []\n    vulnerable_transactions = {}\n    for group_txn in tealer.groups:\n")


def mut_while(src):
    """(s8) a statement kind outside the whitelist"""
    return replace_once(src, "    output = []\n    for group_txn in tealer.groups:\n", "    output = []\n    while False:\n        pass\n    for group_txn in tealer.groups:\n")


def mut_rename(src):
    """(e1) the loop variable of the absolute-index loop renamed: EQUIVALENT -- the Gallina text differs, the proofs must
    still go through (they are stated up to conversion, not as a text comparison)"""
    a = src.index(ABS_LOOP)
    b = src.index("                if checked:\n                    continue\n", a)
    seg = src[a:b]
    if seg.count("other_txn") != 5:
        raise RuntimeError(f"rename anchor: {seg.count('other_txn')} occurrences")
    return src[:a] + seg.replace("other_txn", "reader") + src[b:]


# ---- twin audit (same-typed names written for each other, swapped argument order / tuple components)
def mut_abs_uses_relative_context(src):
    """(t1) contract_checks_txn_at_absolute_index asks relative_context (twin methods int -> context)"""
    return replace_once(
        src,
        "        if not checks_field(function.transaction_context(block).absolute_context(absolute_index)):\n",
        "        if not checks_field(function.transaction_context(block).relative_context(absolute_index)):\n",
    )


def mut_rel_uses_absolute_context(src):
    """(t2) contract_checks_using_relative_index asks absolute_context (twin methods int -> context)"""
    return replace_once(
        src,
        "        if not checks_field(function.transaction_context(block).relative_context(offset)):\n",
        "        if not checks_field(function.transaction_context(block).absolute_context(offset)):\n",
    )


def mut_abs_loop_calls_relative(src):
    """(t3) the absolute-index loop calls contract_checks_using_relative_index on the logic-sig (twin functions)"""
    return replace_once(
        src,
        "                    if other_txn.logic_sig is not None and contract_checks_txn_at_absolute_index(\n",
        "                    if other_txn.logic_sig is not None and contract_checks_using_relative_index(\n",
    )


def mut_abs_loop_own_logic_sig(src):
    """(t4) the absolute-index loop asks the logic-sig of txn itself (twin variables txn / other_txn)"""
    return replace_once(
        src,
        "                    if other_txn.logic_sig is not None and contract_checks_txn_at_absolute_index(\n                        other_txn.logic_sig, checks_field, txn.absoulte_index\n",
        "                    if txn.logic_sig is not None and contract_checks_txn_at_absolute_index(\n                        txn.logic_sig, checks_field, txn.absoulte_index\n",
    )


def mut_abs_loop_other_index(src):
    """(t5) the absolute-index loop asks for the index of other_txn (twin variables txn / other_txn)"""
    return replace_once(
        src,
        "                        other_txn.logic_sig, checks_field, txn.absoulte_index\n",
        "                        other_txn.logic_sig, checks_field, other_txn.absoulte_index\n",
    )


def mut_stateful_records_logic_sig(src):
    """(t6) STATEFULL: the recorded contract is the logic-sig (twin attributes of type Optional[Function])"""
    return replace_once(
        src,
        "                if txn.application is not None:\n                    vulnerable_transactions[txn] = [txn.application]\n",
        "                if txn.logic_sig is not None:\n                    vulnerable_transactions[txn] = [txn.logic_sig]\n",
    )


def mut_items_pair_swapped(src):
    """(a1) for (offset, other_txn) in ...items()"""
    return replace_once(
        src,
        "            for (other_txn, offset) in group_txn.group_relative_indexes[txn].items():\n",
        "            for (offset, other_txn) in group_txn.group_relative_indexes[txn].items():\n",
    )


def mut_validated_args_swapped(src):
    """(a2) validated_in_block(function, block, ..)"""
    return replace_once(
        src,
        "        if not validated_in_block(block, function, checks_field, absolute_index):\n",
        "        if not validated_in_block(function, block, checks_field, absolute_index):\n",
    )


def mut_fill_offset_sign(src):
    """(a3, transactions.py) fill: the stored offset is negated (the offset as seen from the other side)"""
    return replace_once(src, FILL_ASSIGN, "            group.group_relative_indexes[other_txn][txn] = -offset\n")


MUTATIONS = [
    ("(i) `checked` initialised once per group (C13-seed1)", UTILS, mut_checked_once),
    ("(ii) fill: group_relative_indexes[other] = {txn: offset}", TX, mut_fill_overwrites),
    ("(iii) leaf helpers iterate function.main.blocks (C13-seed3)", UTILS, mut_main_blocks),
    ("(iv) absolute-index loop skips the transaction itself", UTILS, mut_abs_skips_self),
    ("(v) transaction-type eligibility inverted", UTILS, mut_type_inverted),
    ("(ii') C13-seed2 as committed (.items() + overwrite)", TX, mut_fill_overwrites_seed),
    ("(x1) only the reset before the relative loop removed", UTILS, mut_checked_abs_only),
    ("(x2) own-application clearance dropped", UTILS, mut_no_own_application),
    ("(x3) own logic-sig asked without the absolute index", UTILS, mut_own_without_index),
    ("(x4) STATELESS eligibility tests the application", UTILS, mut_stateless_stateful_swapped),
    ("(x5) relative loop: no break after a logic-sig hit", UTILS, mut_no_break),
    ("(x6) absolute-index hit does not clear", UTILS, mut_abs_not_cleared),
    ("(x7) fill: target and referrer swapped", TX, mut_fill_swapped),
    ("(x8) fill: per-transaction maps not created", TX, mut_fill_no_init),
    ("(x9) fill: referrer's map re-created in the second loop", TX, mut_fill_reinit),
    ("(x10) STATELESS: txn without logic-sig function not recorded", UTILS, mut_record_application),
    ("(x11) every group reported", UTILS, mut_report_always),
    ("(s1) fill: one dict object shared by all keys", TX, mut_shared_dict),
    ("(s2) relative_context changed (fingerprint)", CTX, mut_relative_context),
    ("(s3) Transaction.__eq__ defined (fingerprint)", TX, mut_transaction_eq),
    ("(s4) common.py no longer calls fill (fingerprint)", COMMON, mut_no_fill_call),
    ("(s5) DetectorType values collide (fingerprint)", DET, mut_detector_type_values),
    ("(s6) leaf_block_global changed (fingerprint)", AN, mut_leaf_helper),
    ("(s7) stored dict carried across groups", UTILS, mut_stored_dict_carried),
    ("(s8) while statement", UTILS, mut_while),
    ("(e1) EQUIVALENT: loop variable renamed", UTILS, mut_rename),
    ("(t1) TWIN absolute helper asks relative_context", UTILS, mut_abs_uses_relative_context),
    ("(t2) TWIN relative helper asks absolute_context", UTILS, mut_rel_uses_absolute_context),
    ("(t3) TWIN absolute loop calls the relative helper", UTILS, mut_abs_loop_calls_relative),
    ("(t4) TWIN absolute loop asks txn's own logic-sig", UTILS, mut_abs_loop_own_logic_sig),
    ("(t5) TWIN absolute loop asks for other_txn's index", UTILS, mut_abs_loop_other_index),
    ("(t6) TWIN STATEFULL records the logic-sig", UTILS, mut_stateful_records_logic_sig),
    ("(a1) PAIR for (offset, other_txn) in ..items()", UTILS, mut_items_pair_swapped),
    ("(a2) ARGS validated_in_block(function, block, ..)", UTILS, mut_validated_args_swapped),
    ("(a3) SIGN fill: stores -offset", TX, mut_fill_offset_sign),
]
EQUIVALENT = {"(e1) EQUIVALENT: loop variable renamed"}
REQUIRED = 5

GEN_DEPS = ("Tables.vo", "Leaves.vo", "KeysGen.vo", "SingleGen.vo", "AssertedGen.vo", "GraphGen.vo", "SearchGen.vo")


# ----------------------------------------------------------------------------- one run
def enclosing(vfile, line):
    name = "?"
    with open(vfile, encoding="utf-8") as f:
        for i, l in enumerate(f, 1):
            m = re.match(r"\s*(Lemma|Theorem|Corollary|Definition|Example)\s+(\w+)", l)
            if m and i <= line:
                name = m.group(2)
            if i > line:
                break
    return name


def run_case(work, scratch, rel=None, mutate=None):
    gen = os.path.join(work, "Gen")
    lem = os.path.join(work, "Lemmas")
    os.makedirs(gen)
    os.makedirs(lem)
    path, orig = None, None
    if mutate:
        path = os.path.join(scratch, rel)
        with open(path, encoding="utf-8") as fh:
            orig = fh.read()
        new = mutate(orig)
        if new == orig:
            raise RuntimeError("mutation did not change the source")
        ast.parse(new)  # the mutant is valid Python
        with open(path, "w", encoding="utf-8") as fh:
            fh.write(new)
    try:
        rc, out = sh(f"{PY} {HERE}/translate_group.py {gen}", env={"VERIF_REPO": scratch})
    finally:
        if path:
            with open(path, "w", encoding="utf-8") as fh:
                fh.write(orig)
    res = {"translator": "ok" if rc == 0 else "STOPPED", "log": out.strip().replace(scratch + "/", ""), "text": None, "gen_ok": None, "lemmas_ok": None, "where": None}
    if rc != 0:
        if rc != 2 or "translator:" not in out:
            res["translator"] = "CRASHED"
        return res
    with open(os.path.join(gen, "GroupGen.v"), encoding="utf-8") as fh:
        res["text"] = fh.read()
    for f in GEN_DEPS:
        os.symlink(os.path.join(COQ, "Gen", f), os.path.join(gen, f))
    lemv = os.path.join(lem, "GroupGenLemmas.v")
    shutil.copy(os.path.join(COQ, "Lemmas", "GroupGenLemmas.v"), lemv)
    q = f"-Q {COQ}/Model Tealer -Q {gen} Tealer -Q {COQ}/Spec Tealer -Q {COQ}/Lemmas Tealer"
    rc, out = sh(f"timeout 300 coqc {q} {gen}/GroupGen.v 2>&1")
    res["gen_ok"] = rc == 0
    res["log"] += "\n" + out[-1500:]
    if rc == 0:
        rc, out = sh(f"timeout 900 coqc {q} {lemv} 2>&1")
        res["lemmas_ok"] = rc == 0
        res["log"] += "\n" + out[-1500:]
        if rc != 0:
            m = re.search(r"line (\d+), characters", out)
            res["where"] = f"{enclosing(lemv, int(m.group(1)))} (line {m.group(1)})" if m else "?"
    return res


def main():
    verbose = "-v" in sys.argv
    for f in ("Model/Group.vo", "Gen/SearchGen.vo", "Lemmas/SearchGenLemmas.vo", "Lemmas/GroupLemmas.vo"):
        if not os.path.exists(os.path.join(COQ, f)):
            print(f"precondition: {COQ}/{f} missing -- build coq/ first (make)")
            sys.exit(3)
    top = tempfile.mkdtemp(prefix="tgroup_")
    scratch = os.path.join(top, "repo")
    shutil.copytree(os.path.join(REPO, "tealer"), os.path.join(scratch, "tealer"), ignore=shutil.ignore_patterns("__pycache__"))
    rows = []
    ok = True
    try:
        base = run_case(os.path.join(top, "base"), scratch)
        same = None
        cur = os.path.join(COQ, "Gen", "GroupGen.v")
        if base["text"] is not None and os.path.exists(cur):
            with open(cur, encoding="utf-8") as fh:
                same = fh.read() == base["text"]
        good = base["translator"] == "ok" and base["gen_ok"] and base["lemmas_ok"] and same is True
        ok &= bool(good)
        rows.append(("(a) clean source", base["translator"], "= coq/Gen/GroupGen.v" if same else ("DIFFERS from coq/Gen" if same is False else "-"), base["gen_ok"], base["lemmas_ok"], "PASS" if good else "FAIL"))
        if verbose or not good:
            print(base["log"])
        for i, (name, rel, fn) in enumerate(MUTATIONS):
            r = run_case(os.path.join(top, f"m{i}"), scratch, rel, fn)
            if r["translator"] == "STOPPED":
                verdict, good, diff = "caught: translator stops", True, "-"
            elif r["translator"] == "CRASHED":
                verdict, good, diff = "FAIL: translator crashed", False, "-"
            else:
                differs = r["text"] != base["text"]
                diff = "differs" if differs else "IDENTICAL"
                if name in EQUIVALENT:
                    good = differs and bool(r["gen_ok"]) and r["lemmas_ok"] is True
                    verdict = "equivalent mutant: lemmas still hold (expected)" if good else "FAIL: equivalent mutant rejected"
                elif differs and r["gen_ok"] and r["lemmas_ok"] is False:
                    verdict, good = f"caught: lemmas break in {r['where']}", True
                elif differs and not r["gen_ok"]:
                    verdict, good = "caught: GroupGen.v ill-typed", True
                else:
                    verdict, good = "FAIL: NOT DETECTED", False
            ok &= good
            rows.append((name, r["translator"], diff, r["gen_ok"], r["lemmas_ok"], verdict))
            if verbose or not good:
                print(f"--- {name}\n{r['log']}\n")
            elif r["translator"] == "STOPPED":
                print(f"--- {name}: {r['log'].splitlines()[0][:300]}")
    finally:
        shutil.rmtree(top, ignore_errors=True)
    hdr = ("case", "translator", "generated Gallina", "GroupGen.v compiles", "GroupGenLemmas.v compiles", "verdict")
    fmt = lambda x: "-" if x is None else ("yes" if x is True else ("NO" if x is False else str(x)))  # noqa: E731
    table = [hdr] + [tuple(fmt(c) for c in r) for r in rows]
    widths = [max(len(r[i]) for r in table) for i in range(len(hdr))]
    print()
    for k, r in enumerate(table):
        print(" | ".join(c.ljust(w) for c, w in zip(r, widths)))
        if k == 0:
            print("-+-".join("-" * w for w in widths))
    print("\nRESULT:", "all mutations caught, clean source accepted" if ok else "FAILURE")
    sys.exit(0 if ok else 1)


if __name__ == "__main__":
    main()
