#!/venv/bin/python
"""Self-test of tools/translate_cfg.py (the regenerated CFG construction, Gen/CfgGen.v).

(a) runs the translator on the clean source ($VERIF_REPO, default /tmp/cleanrepo) and checks that the output is the
    committed coq/Gen/CfgGen.v, compiles, and that Lemmas/CfgGenLemmas.v compiles against it;
(b) applies small mutations to a scratch copy of teal/parse_teal.py / basic_blocks.py / instructions/instructions.py
    and shows that, for each, either the translator stops (TranslateError) or the generated Gallina differs AND
    Lemmas/CfgGenLemmas.v no longer compiles against it.  The first four rows are real regressions of tealer's history.

Precondition: coq/ has been built (`make`).  Every coqc runs under `timeout`.  Exit status 0 iff every row has the
expected verdict.

usage: VERIF_REPO=/tmp/cleanrepo /venv/bin/python tools/test_translate_cfg.py [-v]
"""
import ast
import os
import re
import shutil
import subprocess
import sys
import tempfile

HERE = os.path.dirname(os.path.abspath(__file__))
ROOT = os.path.dirname(HERE)
COQ = os.path.join(ROOT, "coq")
PY = "/venv/bin/python"
REPO = os.environ.get("VERIF_REPO", "/tmp/cleanrepo")

PT = "tealer/teal/parse_teal.py"
BB = "tealer/teal/basic_blocks.py"
INS = "tealer/teal/instructions/instructions.py"


def sh(cmd, cwd=None, env=None):
    e = dict(os.environ)
    if env:
        e.update(env)
    p = subprocess.run(cmd, shell=True, cwd=cwd, stdout=subprocess.PIPE, stderr=subprocess.STDOUT, env=e, check=False)
    return p.returncode, p.stdout.decode(errors="replace")


# ----------------------------------------------------------------------------- mutations (text -> text)
def replace_once(src, old, new):
    if src.count(old) != 1:
        raise RuntimeError(f"mutation anchor found {src.count(old)} times: " + old[:60])
    return src.replace(old, new, 1)


def mut_label_prev(src):
    """(i) REGRESSION create_bb: a Label starts a new block only if len(ins.prev) > 1"""
    return replace_once(
        src,
        "        if isinstance(ins, Label) and len(bb.instructions) != 0:\n",
        "        if isinstance(ins, Label) and len(ins.prev) > 1 and len(bb.instructions) != 0:\n",
    )


def mut_dfs_break(src):
    """(ii) REGRESSION identify_subroutine_blocks: `break` for `continue` in the successor loop"""
    return replace_once(
        src,
        "            if next_bb not in subroutines_blocks and next_bb not in stack:\n                stack.append(next_bb)\n",
        "            if next_bb in subroutines_blocks or next_bb in stack:\n                break\n            stack.append(next_bb)\n",
    )


def mut_prune_iterate_mutated(src):
    """(iii) REGRESSION pruning: the loop iterates over the list it mutates"""
    return replace_once(src, "            for bnext in list(bi.next):\n", "            for bnext in bi.next:\n")


def mut_jump_equal_fallthrough(src):
    """(iv) REGRESSION second_pass: a jump edge equal to the fall-through edge is skipped"""
    return replace_once(
        src,
        "            ins.add_next(labels[ins.label])\n            labels[ins.label].add_prev(ins)\n",
        "            if labels[ins.label] not in ins.next:\n                ins.add_next(labels[ins.label])\n                labels[ins.label].add_prev(ins)\n",
    )


def mut_label_prev_only(src):
    """(i') create_bb: a Label starts a new block only if len(ins.prev) > 1 (the non-empty test dropped)"""
    return replace_once(src, "        if isinstance(ins, Label) and len(bb.instructions) != 0:\n", "        if isinstance(ins, Label) and len(ins.prev) > 1:\n")


def mut_dfs_continue(src):
    """(ii') identify_subroutine_blocks: the same loop written with `continue` (behaviour unchanged, text changed)"""
    return replace_once(
        src,
        "            if next_bb not in subroutines_blocks and next_bb not in stack:\n                stack.append(next_bb)\n",
        "            if next_bb in subroutines_blocks or next_bb in stack:\n                continue\n            stack.append(next_bb)\n",
    )


def mut_bb_no_callsub(src):
    """(x1) create_bb: a Callsub no longer ends its block"""
    return replace_once(src, "        if len(ins.next) > 1 or isinstance(ins, Callsub):\n", "        if len(ins.next) > 1:\n")


def mut_bb_empty_last(src):
    """(x2) create_bb: a new (empty) block is created after an exit instruction that is the last one"""
    return replace_once(
        src,
        "            # if the instruction is the last instruction, do not create a *empty* block.\n            if ins == instructions[-1]:\n                continue\n",
        "",
    )


def mut_bb_edge_after_b(src):
    """(x3) create_bb: a default edge is added after B / Err / Return"""
    return replace_once(
        src,
        "            # Do not add any edges. There are no default edges and Jump edges are added in the next pass.\n            bb = next_bb\n",
        "            bb.add_next(next_bb)\n            next_bb.add_prev(bb)\n            bb = next_bb\n",
    )


def mut_bb_any_next(src):
    """(x4) create_bb: every instruction with a successor ends its block (> 0 for > 1)"""
    return replace_once(src, "        if len(ins.next) > 1 or isinstance(ins, Callsub):\n", "        if len(ins.next) > 0 or isinstance(ins, Callsub):\n")


def mut_bb_no_prev_link(src):
    """(x5) create_bb: the label split no longer records the predecessor"""
    return replace_once(
        src,
        "            bb.add_next(next_bb)\n            next_bb.add_prev(bb)\n            bb = next_bb\n\n        bb.add_instruction(ins)\n",
        "            bb.add_next(next_bb)\n            bb = next_bb\n\n        bb.add_instruction(ins)\n",
    )


def mut_dfs_no_stack_test(src):
    """(x6) identify_subroutine_blocks: `next_bb not in stack` dropped"""
    return replace_once(src, "            if next_bb not in subroutines_blocks and next_bb not in stack:\n", "            if next_bb not in subroutines_blocks:\n")


def mut_dfs_visit_late(src):
    """(x7) identify_subroutine_blocks: the block is recorded after its successors were pushed"""
    return replace_once(
        src,
        "        bb = stack.pop()\n        subroutines_blocks.append(bb)\n\n        for next_bb in bb.next:\n            if next_bb not in subroutines_blocks and next_bb not in stack:\n                stack.append(next_bb)\n",
        "        bb = stack.pop()\n\n        for next_bb in bb.next:\n            if next_bb not in subroutines_blocks and next_bb not in stack:\n                stack.append(next_bb)\n        subroutines_blocks.append(bb)\n",
    )


def mut_prune_keep_next(src):
    """(x8) pruning: the unreachable block keeps its successor list"""
    return replace_once(src, "                bnext.prev.remove(bi)\n                bi.next.remove(bnext)\n", "                bnext.prev.remove(bi)\n")


def mut_prune_inverted(src):
    """(x9) pruning: the test is inverted (reachable blocks are unlinked)"""
    return replace_once(src, "        if bi not in all_reachable_blocks:\n            # bi is unreachable\n", "        if bi in all_reachable_blocks:\n")


def mut_prune_wrong_list(src):
    """(x10) pruning: the block is removed from the successor's next list"""
    return replace_once(src, "                bnext.prev.remove(bi)\n", "                bnext.next.remove(bi)\n")


def mut_prune_keep_ins(src):
    """(x11) pruning: the instructions of an unreachable block stay in the instruction list"""
    return replace_once(src, "            for ins in bi.instructions:\n                instructions.remove(ins)\n", "")


def mut_first_retsub(src):
    """(x12) first_pass: Retsub falls through to the next instruction"""
    return replace_once(src, "        if isinstance(ins, (B, Err, Return, Retsub)):\n            prev = None\n", "        if isinstance(ins, (B, Err, Return)):\n            prev = None\n")


def mut_first_no_next(src):
    """(x13) first_pass: the default edge is only recorded in ins.prev"""
    return replace_once(src, "            ins.add_prev(prev)\n            prev.add_next(ins)\n", "            ins.add_prev(prev)\n")


def mut_first_label_first(src):
    """(x14) first_pass: label definitions are not stored"""
    return replace_once(src, "        if isinstance(ins, Label):\n            labels[ins.label] = ins\n", "        if isinstance(ins, Label):\n            pass\n")


def mut_second_switch_no_prev(src):
    """(x15) second_pass: switch/match targets do not record their predecessor"""
    return replace_once(
        src,
        "                ins.add_next(labels[ins_label])\n                labels[ins_label].add_prev(ins)\n",
        "                ins.add_next(labels[ins_label])\n",
    )


def mut_second_no_bz(src):
    """(x16) second_pass: BZ gets no jump edge"""
    return replace_once(src, "        if isinstance(ins, (B, BZ, BNZ)):\n            ins.add_next", "        if isinstance(ins, (B, BNZ)):\n            ins.add_next")


def mut_fourth_no_dedup(src):
    """(x17) fourth_pass: a successor block is added even when already present"""
    return replace_once(src, "            if next_bb not in bb.next:\n                assert bb not in next_bb.prev\n", "            if True:\n")


def mut_fourth_entry(src):
    """(x18) fourth_pass: the successors of the FIRST instruction of the block are used"""
    return replace_once(src, "        ins = bb.exit_instr\n", "        ins = bb.instructions[-1].prev[-1]\n")


def mut_fourth_no_prev(src):
    """(x19) fourth_pass: the jump edge is not recorded in the successor's prev list"""
    return replace_once(src, "                bb.add_next(next_bb)\n                next_bb.add_prev(bb)\n", "                bb.add_next(next_bb)\n")


def mut_first_callsub_table(src):
    """(x20) first_pass: callsub instructions are not recorded in the subroutine table"""
    return replace_once(src, "        if isinstance(ins, Callsub):\n            subroutines[ins.label].append(ins)\n", "        if isinstance(ins, Callsub):\n            pass\n")


def mut_glue_add_next(src):
    """(s1, basic_blocks.py) BasicBlock.add_next appends to _prev"""
    return replace_once(src, "        self._next.append(next_bb)\n", "        self._prev.append(next_bb)\n")


def mut_instruction_eq(src):
    """(s2, instructions.py) Instruction defines __eq__"""
    return replace_once(src, "    def add_prev(self, prev_ins: \"Instruction\") -> None:\n", "    def __eq__(self, other: object) -> bool:\n        return True\n\n    def add_prev(self, prev_ins: \"Instruction\") -> None:\n")


def mut_block_init(src):
    """(s3, basic_blocks.py) BasicBlock.__init__ starts with a self loop"""
    return replace_once(src, "        self._next: List[BasicBlock] = []\n", "        self._next: List[BasicBlock] = [self]\n")


def mut_unknown_attr(src):
    """(s4) an attribute outside the glue table (.idx)"""
    return replace_once(src, "            if next_bb not in subroutines_blocks and next_bb not in stack:\n", "            if next_bb not in subroutines_blocks and next_bb not in stack and next_bb.idx != 0:\n")


def mut_label_subclass(src):
    """(s5, instructions.py) a subclass of Label"""
    return src + "\n\nclass NamedLabel(Label):\n    pass\n"


def mut_idx_reversed(src):
    """(s6) _add_basic_blocks_idx sorts in reverse"""
    return replace_once(src, "    bbs = sorted(bbs, key=lambda x: x.entry_instr.line)\n", "    bbs = sorted(bbs, key=lambda x: -x.entry_instr.line)\n")


def mut_rebind_all_bbs(src):
    """(s7) all_bbs re-bound before the pruning loop"""
    return replace_once(src, "    main_program_name = \"__main__\"\n", "    main_program_name = \"__main__\"\n    all_bbs = all_bbs[1:]\n")


def mut_slice_skip(src):
    """(s8) first_pass: the statement that skips a line without instruction edited"""
    return replace_once(src, "        if not ins:\n            continue\n", "        if not ins and idx > 1:\n            continue\n")


def mut_rebind_create_bb(src):
    """(s9) create_bb re-bound at the end of parse_teal.py"""
    return src + "\n\ncreate_bb = fourth_pass\n"


def mut_bb_setter(src):
    """(s10, instructions.py) the setter of Instruction.bb edited"""
    return replace_once(src, "    def bb(self, b: \"BasicBlock\") -> None:\n        self._bb = b\n", "    def bb(self, b: \"BasicBlock\") -> None:\n        self._bb = self._bb or b\n")


def mut_while_for(src):
    """(s11) create_bb: a try statement in the loop"""
    return replace_once(src, "        bb.add_instruction(ins)\n        ins.bb = bb\n", "        try:\n            bb.add_instruction(ins)\n        finally:\n            pass\n        ins.bb = bb\n")


def mut_return_in_loop(src):
    """(s12) create_bb: return in the loop"""
    return replace_once(src, "            if ins == instructions[-1]:\n                continue\n            next_bb = BasicBlock()\n            all_bbs.append(next_bb)\n            # add sequential link\n", "            if ins == instructions[-1]:\n                return\n            next_bb = BasicBlock()\n            all_bbs.append(next_bb)\n            # add sequential link\n")


# ---- twin audit (next / prev written for each other, swapped argument order / receiver and argument)
def mut_first_links_swapped(src):
    """(t1) first_pass: ins.add_next(prev); prev.add_prev(ins)"""
    return replace_once(
        src,
        "            ins.add_prev(prev)\n            prev.add_next(ins)\n",
        "            ins.add_next(prev)\n            prev.add_prev(ins)\n",
    )


def mut_second_links_swapped(src):
    """(t2) second_pass: a jump adds the label as predecessor and itself as the label's successor"""
    return replace_once(
        src,
        "            ins.add_next(labels[ins.label])\n            labels[ins.label].add_prev(ins)\n",
        "            ins.add_prev(labels[ins.label])\n            labels[ins.label].add_next(ins)\n",
    )


def mut_bb_label_links_swapped(src):
    """(t3) create_bb, label split: bb.add_prev(next_bb); next_bb.add_next(bb)"""
    return replace_once(
        src,
        "        if isinstance(ins, Label) and len(bb.instructions) != 0:\n            next_bb = BasicBlock()\n            all_bbs.append(next_bb)\n            bb.add_next(next_bb)\n            next_bb.add_prev(bb)\n",
        "        if isinstance(ins, Label) and len(bb.instructions) != 0:\n            next_bb = BasicBlock()\n            all_bbs.append(next_bb)\n            bb.add_prev(next_bb)\n            next_bb.add_next(bb)\n",
    )


def mut_fourth_over_prev(src):
    """(t4) fourth_pass iterates over ins.prev"""
    return replace_once(src, "        for next_ins in ins.next:\n            next_bb = next_ins.bb\n", "        for next_ins in ins.prev:\n            next_bb = next_ins.bb\n")


def mut_fourth_links_swapped(src):
    """(t5) fourth_pass: bb.add_prev(next_bb); next_bb.add_next(bb)"""
    return replace_once(
        src,
        "                assert bb not in next_bb.prev\n                bb.add_next(next_bb)\n                next_bb.add_prev(bb)\n",
        "                assert bb not in next_bb.prev\n                bb.add_prev(next_bb)\n                next_bb.add_next(bb)\n",
    )


def mut_dfs_over_prev(src):
    """(t6) identify_subroutine_blocks follows bb.prev"""
    return replace_once(src, "        for next_bb in bb.next:\n", "        for next_bb in bb.prev:\n")


def mut_prune_over_prev(src):
    """(t7) pruning: the successor loop runs over list(bi.prev)"""
    return replace_once(src, "            for bnext in list(bi.next):\n", "            for bnext in list(bi.prev):\n")


def mut_fourth_test_prev(src):
    """(t8) fourth_pass: the duplicate test reads bb.prev"""
    return replace_once(src, "            if next_bb not in bb.next:\n", "            if next_bb not in bb.prev:\n")


def mut_bb_gt_args(src):
    """(a1) create_bb: `1 > len(ins.next)` for `len(ins.next) > 1`"""
    return replace_once(src, "        if len(ins.next) > 1 or isinstance(ins, Callsub):\n", "        if 1 > len(ins.next) or isinstance(ins, Callsub):\n")


def mut_prune_receiver_swapped(src):
    """(a2) pruning: bi.exit_instr.prev.remove(ins_next) (receiver and argument exchanged)"""
    return replace_once(src, "                ins_next.prev.remove(bi.exit_instr)\n", "                bi.exit_instr.prev.remove(ins_next)\n")


def mut_fourth_receiver_swapped(src):
    """(a3) fourth_pass: next_bb.add_next(bb); bb.add_prev(next_bb) (receivers and arguments exchanged)"""
    return replace_once(
        src,
        "                assert bb not in next_bb.prev\n                bb.add_next(next_bb)\n                next_bb.add_prev(bb)\n",
        "                assert bb not in next_bb.prev\n                next_bb.add_next(bb)\n                bb.add_prev(next_bb)\n",
    )


MUTATIONS = [
    ("(i) create_bb: Label splits only if len(ins.prev) > 1", PT, mut_label_prev),
    ("(ii) DFS: break for continue in the successor loop", PT, mut_dfs_break),
    ("(iii) pruning: iterates over the list it mutates", PT, mut_prune_iterate_mutated),
    ("(iv) second_pass: jump edge = fall-through skipped", PT, mut_jump_equal_fallthrough),
    ("(i') create_bb: Label test is len(ins.prev) > 1 alone", PT, mut_label_prev_only),
    ("(x1) create_bb: Callsub does not end the block", PT, mut_bb_no_callsub),
    ("(x2) create_bb: empty block after a final exit", PT, mut_bb_empty_last),
    ("(x3) create_bb: default edge after B/Err/Return", PT, mut_bb_edge_after_b),
    ("(x4) create_bb: len(ins.next) > 0", PT, mut_bb_any_next),
    ("(x5) create_bb: label split without add_prev", PT, mut_bb_no_prev_link),
    ("(x6) DFS: `not in stack` dropped", PT, mut_dfs_no_stack_test),
    ("(x7) DFS: block recorded after its successors", PT, mut_dfs_visit_late),
    ("(x8) pruning: bi.next.remove dropped", PT, mut_prune_keep_next),
    ("(x9) pruning: test inverted", PT, mut_prune_inverted),
    ("(x10) pruning: bnext.next.remove(bi)", PT, mut_prune_wrong_list),
    ("(x11) pruning: instructions not removed", PT, mut_prune_keep_ins),
    ("(x12) first_pass: Retsub falls through", PT, mut_first_retsub),
    ("(x13) first_pass: prev.add_next dropped", PT, mut_first_no_next),
    ("(x14) first_pass: labels never stored", PT, mut_first_label_first),
    ("(x15) second_pass: switch target without add_prev", PT, mut_second_switch_no_prev),
    ("(x16) second_pass: BZ without jump edge", PT, mut_second_no_bz),
    ("(x17) fourth_pass: duplicate successors kept", PT, mut_fourth_no_dedup),
    ("(x18) fourth_pass: edges of another instruction", PT, mut_fourth_entry),
    ("(x19) fourth_pass: next_bb.add_prev dropped", PT, mut_fourth_no_prev),
    ("(x20) first_pass: callsubs not recorded", PT, mut_first_callsub_table),
    ("(s1) BasicBlock.add_next edited", BB, mut_glue_add_next),
    ("(s2) Instruction defines __eq__", INS, mut_instruction_eq),
    ("(s3) BasicBlock.__init__ edited", BB, mut_block_init),
    ("(s4) attribute outside the glue table (.idx)", PT, mut_unknown_attr),
    ("(s5) subclass of Label", INS, mut_label_subclass),
    ("(s6) _add_basic_blocks_idx edited", PT, mut_idx_reversed),
    ("(s7) all_bbs re-bound in parse_teal", PT, mut_rebind_all_bbs),
    ("(s8) first_pass: skipped statement edited", PT, mut_slice_skip),
    ("(s9) create_bb re-bound at module level", PT, mut_rebind_create_bb),
    ("(s10) setter of Instruction.bb edited", INS, mut_bb_setter),
    ("(s11) try statement in create_bb", PT, mut_while_for),
    ("(s12) return in the loop of create_bb", PT, mut_return_in_loop),
    ("(t1) TWIN first_pass: add_next / add_prev exchanged", PT, mut_first_links_swapped),
    ("(t2) TWIN second_pass: add_next / add_prev exchanged", PT, mut_second_links_swapped),
    ("(t3) TWIN create_bb: add_next / add_prev exchanged", PT, mut_bb_label_links_swapped),
    ("(t4) TWIN fourth_pass iterates ins.prev", PT, mut_fourth_over_prev),
    ("(t5) TWIN fourth_pass: add_next / add_prev exchanged", PT, mut_fourth_links_swapped),
    ("(t6) TWIN DFS follows bb.prev", PT, mut_dfs_over_prev),
    ("(t7) TWIN pruning loops over bi.prev", PT, mut_prune_over_prev),
    ("(t8) TWIN fourth_pass: duplicate test reads bb.prev", PT, mut_fourth_test_prev),
    ("(a1) ARGS create_bb: 1 > len(ins.next)", PT, mut_bb_gt_args),
    ("(a2) ARGS pruning: bi.exit_instr.prev.remove(ins_next)", PT, mut_prune_receiver_swapped),
    ("(a3) ARGS fourth_pass: receivers and arguments exchanged", PT, mut_fourth_receiver_swapped),
]
REQUIRED = 4  # the first four rows are the real regressions named in the task
# a behaviour-preserving rewrite: reported, not required to be caught (the lemma file is tied to the generated text)
NEUTRAL = [("(ii') DFS: same loop written with continue", PT, mut_dfs_continue)]


# ----------------------------------------------------------------------------- one run
def enclosing(vfile, line):
    name = "?"
    with open(vfile, encoding="utf-8") as f:
        for i, l in enumerate(f, 1):
            m = re.match(r"\s*(Lemma|Theorem|Corollary|Definition)\s+(\w+)", l)
            if m and i <= line:
                name = m.group(2)
            if i > line:
                break
    return name


def run_case(work, scratch, rel=None, mutate=None):
    """-> dict(translator=..., text=..., gen_ok=..., lemmas_ok=..., where=..., log=...)"""
    gen = os.path.join(work, "Gen")
    lem = os.path.join(work, "Lemmas")
    os.makedirs(gen)
    os.makedirs(lem)
    path, orig = None, None
    if mutate:
        path = os.path.join(scratch, rel)
        with open(path, encoding="utf-8") as fh:
            orig = fh.read()
        new = mutate(orig)
        if new == orig:
            raise RuntimeError("mutation did not change the source")
        ast.parse(new)  # the mutant is valid Python
        with open(path, "w", encoding="utf-8") as fh:
            fh.write(new)
    try:
        rc, out = sh(f"{PY} {HERE}/translate_cfg.py {gen}", env={"VERIF_REPO": scratch})
    finally:
        if path:
            with open(path, "w", encoding="utf-8") as fh:
                fh.write(orig)
    res = {"translator": "ok" if rc == 0 else "STOPPED", "log": out.strip().replace(scratch + "/", ""), "text": None, "gen_ok": None, "lemmas_ok": None, "where": None}
    if rc != 0:
        if rc != 2 or "translator:" not in out:
            res["translator"] = "CRASHED"
        return res
    with open(os.path.join(gen, "CfgGen.v"), encoding="utf-8") as fh:
        res["text"] = fh.read()
    # the other generated files are taken (compiled) from the built tree
    for f in os.listdir(os.path.join(COQ, "Gen")):
        if f.endswith(".vo") and f != "CfgGen.vo":
            os.symlink(os.path.join(COQ, "Gen", f), os.path.join(gen, f))
    lemv = os.path.join(lem, "CfgGenLemmas.v")
    shutil.copy(os.path.join(COQ, "Lemmas", "CfgGenLemmas.v"), lemv)
    q = f"-Q {COQ}/Model Tealer -Q {gen} Tealer -Q {COQ}/Spec Tealer -Q {COQ}/Lemmas Tealer"
    rc, out = sh(f"timeout 300 coqc {q} {gen}/CfgGen.v 2>&1")
    res["gen_ok"] = rc == 0
    res["log"] += "\n" + out[-1500:]
    if rc == 0:
        rc, out = sh(f"timeout 900 coqc {q} {lemv} 2>&1")
        res["lemmas_ok"] = rc == 0
        res["log"] += "\n" + out[-1500:]
        if rc != 0:
            m = re.search(r"line (\d+), characters", out)
            res["where"] = f"{enclosing(lemv, int(m.group(1)))} (line {m.group(1)})" if m else ("timeout" if rc == 124 else "?")
    return res


def main():
    verbose = "-v" in sys.argv
    for f in ("Model/Cfg.vo", "Gen/KeysGen.vo", "Lemmas/CfgLemmas.vo", "Lemmas/SubLemmas.vo"):
        if not os.path.exists(os.path.join(COQ, f)):
            print(f"precondition: {COQ}/{f} missing -- build coq/ first (make)")
            sys.exit(3)
    top = tempfile.mkdtemp(prefix="tcfg_")
    scratch = os.path.join(top, "repo")
    shutil.copytree(os.path.join(REPO, "tealer"), os.path.join(scratch, "tealer"), ignore=shutil.ignore_patterns("__pycache__"))
    rows = []
    ok = True
    try:
        base = run_case(os.path.join(top, "base"), scratch)
        same = None
        cur = os.path.join(COQ, "Gen", "CfgGen.v")
        if base["text"] is not None and os.path.exists(cur):
            with open(cur, encoding="utf-8") as fh:
                same = fh.read() == base["text"]
        good = base["translator"] == "ok" and base["gen_ok"] and base["lemmas_ok"] and same is True
        ok &= bool(good)
        rows.append(("(a) clean source", base["translator"], "= coq/Gen/CfgGen.v" if same else ("DIFFERS from coq/Gen" if same is False else "-"), base["gen_ok"], base["lemmas_ok"], "PASS" if good else "FAIL"))
        if verbose or not good:
            print(base["log"])
        for i, (name, rel, fn) in enumerate(MUTATIONS + NEUTRAL):
            neutral = i >= len(MUTATIONS)
            r = run_case(os.path.join(top, f"m{i}"), scratch, rel, fn)
            if r["translator"] == "STOPPED":
                verdict, good, diff = "caught: translator stops", True, "-"
            elif r["translator"] == "CRASHED":
                verdict, good, diff = "FAIL: translator crashed", False, "-"
            else:
                differs = r["text"] != base["text"]
                diff = "differs" if differs else "IDENTICAL"
                if differs and r["gen_ok"] and r["lemmas_ok"] is False:
                    verdict, good = f"caught: lemmas break in {r['where']}", True
                elif differs and not r["gen_ok"]:
                    verdict, good = "caught: CfgGen.v ill-typed", True
                elif neutral:
                    verdict, good = "accepted (behaviour-preserving rewrite)", True
                else:
                    verdict, good = "FAIL: NOT DETECTED", False
            if neutral:
                verdict = "[not a defect] " + verdict
            ok &= good
            rows.append((name, r["translator"], diff, r["gen_ok"], r["lemmas_ok"], verdict))
            if verbose or not good:
                print(f"--- {name}\n{r['log']}\n")
            elif r["translator"] == "STOPPED":
                print(f"--- {name}: {r['log'].splitlines()[0][:260]}")
    finally:
        shutil.rmtree(top, ignore_errors=True)
    hdr = ("case", "translator", "generated Gallina", "CfgGen.v compiles", "CfgGenLemmas.v compiles", "verdict")
    fmt = lambda x: "-" if x is None else ("yes" if x is True else ("NO" if x is False else str(x)))  # noqa: E731
    table = [hdr] + [tuple(fmt(c) for c in r) for r in rows]
    widths = [max(len(r[i]) for r in table) for i in range(len(hdr))]
    print()
    for k, r in enumerate(table):
        print(" | ".join(c.ljust(w) for c, w in zip(r, widths)))
        if k == 0:
            print("-+-".join("-" * w for w in widths))
    print("\nRESULT:", "all mutations caught, clean source accepted" if ok else "FAILURE")
    sys.exit(0 if ok else 1)


if __name__ == "__main__":
    main()
