"""Per-property check definitions: which streams run, what is compared, which oracle decides a violation."""
import glob
import json
import os
import random
import re
import time

import corr
import gen
import oracle
import lines as linegen
import graphcheck
import avmspec

HERE = os.path.dirname(os.path.abspath(__file__))
ROOT = os.path.dirname(HERE)

TRUSTED_BASE = [
    "Coq 8.16.1 kernel (coqc); vm_compute is used, native_compute is not",
    "tools/translate.py + translate_leaves.py (fail-closed Python-ast translator; regenerates coq/Gen on every run)",
    "Extraction: ExtrOcamlBasic, ExtrOcamlNativeString (their Extract Inductive for bool/option/list/prod/unit/sumbool/string/ascii), no Extract Constant of our own; OCaml 4.13.1; ocaml/main.ml",
    "Correspondence harness tools/corr.py, tools/implrun.py, tools/gen.py (model ≙ code is sampled, the property of the model is proved)",
    "Hand-written algorithmic model coq/Model/*.v (tied by correspondence); CPython, re, base64, yaml are modelled-not-verified",
]


# ------------------------------------------------------------------ streams

def B_sh(cmd):
    import subprocess
    p = subprocess.run(cmd, shell=True, stdout=subprocess.PIPE, stderr=subprocess.STDOUT, timeout=600, check=False)
    return p.returncode, p.stdout.decode(errors="replace")


def corpus_programs():
    out = []
    for p in sorted(glob.glob(os.path.join(ROOT, "corpus", "**", "*.teal"), recursive=True)):
        out.append((os.path.relpath(p, ROOT), open(p).read().rstrip("\n")))
    return out


def replay_payload(ctx):
    """the payload of `--replay <file>` ({} when absent or unreadable)"""
    if not ctx.get("replay"):
        return {}
    try:
        with open(ctx["replay"]) as f:
            d = json.load(f)
        return d if isinstance(d, dict) else {}
    except Exception:  # pylint: disable=broad-except
        return {}


def sizes(tier):
    if tier == "thorough":
        return {"random": 6000, "micro_step": 1, "envs": 120}
    return {"random": 500, "micro_step": 6, "envs": 40}


def program_streams(ctx, micro_prefixes=None, want_random=True):
    """list of (id, text, meta) — corpus first, adversarial, enumerated micro (subsampled in quick), random"""
    sz = sizes(ctx["tier"])
    rng = ctx["rng"]
    progs = []
    rp = replay_payload(ctx)
    if rp.get("program"):
        # --replay <file>: the recorded failing program runs first, with the oracle switched on (kf_free) and its environment
        progs.append(("replay", rp["program"], {"stream": "replay", "kf_free": True}))
    for name, text in corpus_programs():
        progs.append(("corpus:" + name, text, {"stream": "corpus"}))
    for name, text in gen.adversarial_programs():
        progs.append(("adv:" + name, text, {"stream": "adversarial"}))
    micro = gen.micro_programs()
    if micro_prefixes is not None:
        micro = [(n, t) for n, t in micro if n.startswith(tuple(micro_prefixes))]
    off = rng.randrange(0, sz["micro_step"])
    for k, (name, text) in enumerate(micro):
        if k % sz["micro_step"] == off % sz["micro_step"] or name.startswith(("addrmix", "appid", "retmix", "bottom", "feeunk")) or (name.startswith("unkop") and k % 2 == off % 2):   # small directed families run in full (unkop: every second)
            progs.append(("micro:" + name, text, {"stream": "micro"}))
    if want_random:
        for k in range(sz["random"]):
            kf_free = k % 2 == 0
            text, feats = gen.random_program(rng, kf_free=kf_free)
            progs.append((f"rand{k}", text, {"stream": "random-kf-free" if kf_free else "random", "features": feats, "kf_free": kf_free}))
    return progs


def run_analyze(progs):
    reqs = [("analyze", f"p{n}", text, []) for n, (_, text, _) in enumerate(progs)]
    m, i = corr.run_both(reqs)
    return [(progs[n][0], progs[n][1], progs[n][2], m[f"p{n}"], i[f"p{n}"]) for n in range(len(progs))]


def distribution(progs):
    d = {}
    for _, text, meta in progs:
        s = meta["stream"]
        e = d.setdefault(s, {"programs": 0, "lines": 0, "features": {}})
        e["programs"] += 1
        e["lines"] += text.count("\n") + 1
        for f in meta.get("features", []):
            e["features"][f] = e["features"].get(f, 0) + 1
    return d


def shrink(text, still_bad, budget=60):
    """greedy line-removal delta debugging; still_bad(text) -> bool"""
    lines = text.split("\n")
    n = 0
    changed = True
    while changed and n < budget:
        changed = False
        for k in range(len(lines) - 1, 0, -1):
            cand = lines[:k] + lines[k + 1:]
            n += 1
            if n >= budget:
                break
            try:
                if still_bad("\n".join(cand)):
                    lines = cand
                    changed = True
            except Exception:  # pylint: disable=broad-except
                pass
    return "\n".join(lines)


def differs(text, compare):
    m, i = corr.run_both([("analyze", "x", text, [])], shards=1)
    return bool(compare(m["x"], i["x"]))


def generic_run(ctx, compare, oracle_props, micro_prefixes=None, known_ids=(), extra=None):
    """correspondence on all streams with `compare`; property oracle restricted to `oracle_props` on kf-free
    programs and on every disagreement; known findings replayed."""
    cov = ctx["cov"]
    sz = sizes(ctx["tier"])
    progs = program_streams(ctx, micro_prefixes)
    t0 = time.time()
    results = run_analyze(progs)
    cov["corr_wall_s"] = round(time.time() - t0, 1)
    cov["input_distribution"] = distribution(progs)
    ndiff = 0
    ncorr_reported = 0
    nstruct = 0
    facts = {"envs": 0, "approved": 0, "unsupported": 0, "facts": 0}
    distinct = set()
    for name, text, meta, m, i in results:
        if m.get("structured") is False:
            nstruct += 1
        d = compare(m, i)
        if "blocks" in i and len(i["blocks"]) > 1:
            distinct.add(hash(text))
        bad_oracle = []
        # comparisons of an address field with a run-time value are the tool's documented heuristic (outside the claims)
        runtime_cmp = meta["stream"] == "micro" and "/Receiv" in name
        run_oracle = oracle_props and (meta.get("kf_free") or meta["stream"] in ("micro",) or d) and not runtime_cmp
        if run_oracle and "ctx" in i:
            envs = oracle.make_envs(text, ctx["rng"], sz["envs"] if not d else 4 * sz["envs"])
            v, st = oracle.check_program(text, i, envs)
            for k in facts:
                facts[k] += st[k]
            bad_oracle = [x for x in v if x["property"] in oracle_props]
            if meta["stream"] == "micro":
                # enumerated grid contains the known operand-order shape (D2) for GroupSize/GroupIndex
                # (known finding D2: C06, C10 and, through empty index sets, C01)
                bad_oracle = [x for x in bad_oracle if not (x["property"] in ("C06", "C10", "C01") and re.search(r"/(<|<=|>|>=)/swap/", name) and name.startswith(("micro:gsize", "micro:gindex")))]
        if bad_oracle:
            x = bad_oracle[0]
            ctx["violations"].append((f"{name}: {x['what']}", {"kind": "property-oracle", "program": text, "env": x["env"], "trace_blocks": x["trace_blocks"], "stream": meta["stream"]}))
        if d:
            ndiff += 1
            if not bad_oracle and ncorr_reported < 4:
                ncorr_reported += 1
                small = text
                try:
                    small = shrink(text, lambda t: differs(t, compare))
                except Exception:  # pylint: disable=broad-except
                    pass
                ctx["broken"].append(f"correspondence model/implementation on {name}: {d[0][:300]} || minimal program: {small!r}")
            # keep searching the later disagreements for an input on which the property itself fails (the oracle runs on
            # every disagreement); stop once a few failing inputs are in hand or after many disagreements
            if len(ctx["violations"]) >= 3 or ndiff > 120:
                break
    cov["input_samples"] = [{"id": n_, "program": t_} for n_, t_, _m, _a, _b in (results[len(results) // 3:len(results) // 3 + 1] + results[-1:])]
    cov["traces_validated_against_impl"] = len(results)
    cov["evaluations"] = len(results)
    cov["distinct_nontrivial"] = len(distinct)
    cov["rule"] = "programs from corpus (authors' contracts + regressions), adversarial layouts, enumerated micro grid, seeded structured random generator; non-trivial = more than one basic block; distinct by program text"
    cov["disagreements"] = ndiff
    cov["unstructured_skipped"] = nstruct
    cov["oracle"] = facts
    if extra:
        extra(ctx, results)
    replay_known(ctx, known_ids)


def normalize_env(env):
    for t in env["group"]:
        for k, v in list(t.items()):
            if isinstance(v, list):
                t[k] = tuple(v)
    return env


def replay_known(ctx, known_ids):
    """each listed finding is replayed against the current tree; if it still fails it is printed as KNOWN-FINDING"""
    kf = {f["id"]: f for f in ctx["known"].get("findings", [])}
    for kid in known_ids:
        f = kf.get(kid)
        if f is None or ctx["pid"] not in f["properties"]:
            continue
        text = f["program"]
        m, i = corr.run_both([("analyze", "k", text, [])], shards=1)
        still = False
        why = ""
        if f.get("env") is not None and "ctx" in i["k"]:
            v, _ = oracle.check_program(text, i["k"], [normalize_env(f["env"])], masks=False)
            v = [x for x in v if x["property"] == ctx["pid"]]
            still = bool(v)
            why = v[0]["what"] if v else ""
        elif f.get("expect_silent") is not None:
            got = i["k"].get("paths", {}).get(f["expect_silent"])
            still = isinstance(got, list) and len(got) > 0
            why = f"{f['expect_silent']} reports {got} although no execution is approved"
        elif f.get("expect") is not None:
            # expectation on the implementation output: {"block": b, "key": k, "value_should_be": s}
            e = f["expect"]
            got = i["k"].get("ctx", {}).get(str(e["block"]), {}).get(e["key"])
            still = got != e["value_should_be"]
            why = f"block {e['block']} {e['key']} = {got!r}, the property requires {e['value_should_be']!r}"
        if still:
            ctx["known_lines"].append(f"KNOWN-FINDING: property={ctx['pid']} {kid}: {f['title']} ({why[:160]})")
        else:
            ctx["cov"].setdefault("known_findings_no_longer_reproduced", []).append(kid)


# ------------------------------------------------------------------ comparators per property

def key_is(*suffixes, fams=("self",)):
    def f(k):
        fam, fld = k.split(":", 1)
        famk = "self" if fam == "self" else re.sub(r"[-0-9]+$", "", fam)
        return fld in suffixes and famk in fams
    return f


def cmp_for(keys=None, paths=None, cfg=True):
    def c(m, i):
        d = []
        if cfg:
            d += corr.cmp_cfg(m, i)
        if keys is not None:
            d += corr.cmp_ctx(m, i, keys)
        if paths is not None:
            d += corr.cmp_paths(m, i, paths or None)
        return d
    return c


ALL_DETECTORS = []


def run_c01(ctx):
    generic_run(ctx, cmp_for(keys=lambda k: True, paths=[]), {"C01"}, known_ids=("D3", "D4", "D17", "D21"))


def run_c02(ctx):
    def extra(ctx, results):
        bad = 0
        n = 0
        for name, text, meta, m, i in results:
            if "paths" not in i or m.get("structured") is False:
                continue
            for det, ps in i["paths"].items():
                if not isinstance(ps, list):
                    continue
                n += len(ps)
                errs = graphcheck.check_paths(i, ps)
                if errs:
                    bad += 1
                    ctx["violations"].append((f"{name}: detector {det}: {errs[0]}", {"kind": "path-validity", "program": text, "detector": det}))
                    break
        ctx["cov"]["paths_checked_declaratively"] = n
        # last sentence of C02: the JSON rendering ('short', per-block instruction lists) of the real CLI denotes exactly the
        # reported block sequence -- also when a block occurs several times in one path (a subroutine called twice)
        import cli
        twice = "#pragma version 6\ncallsub f\ncallsub f\nint 1\nreturn\nf:\nint 7\npop\nretsub"
        nested = "#pragma version 6\ncallsub g\ncallsub f\nint 1\nreturn\ng:\ncallsub f\nretsub\nf:\nint 7\npop\nretsub"
        cand = [("directed:sub-called-twice", twice, None), ("directed:nested-and-shared", nested, None)]
        cand += [(name, text, i) for name, text, meta, m, i in results if name.startswith("adv:") and "paths" in i][:: 4 if ctx["tier"] == "quick" else 1]
        cand += [(name, text, i) for name, text, meta, m, i in results if meta["stream"].startswith("random") and "paths" in i and "callsub" in text][: 6 if ctx["tier"] == "quick" else 60]
        runs = par_map(lambda c: cli.full_run(c[1], printers=False), cand)
        nj = 0
        for (name, text, i), r in zip(cand, runs):
            j = r.get("json")
            if not isinstance(j, dict) or not isinstance(j.get("result"), list):
                continue
            if i is None:
                _, ii = corr.run_both([("analyze", "x", text, [])], shards=1)
                i = ii["x"]
            if "blocks" not in i:
                continue
            rows = {b["idx"]: [f"{ln}: {tx}" for ln, tx in zip(b["lines"], b["ins"])] for b in i["blocks"]}
            for res in j["result"]:
                want = i.get("paths", {}).get(res.get("check"))
                if res.get("type") != "ExecutionPaths" or not isinstance(want, list):
                    continue
                nj += 1
                got_short = [p.get("short") for p in res.get("paths", [])]
                if got_short != [" -> ".join(str(x) for x in pth) for pth in want] or res.get("count") != len(want):
                    ctx["violations"].append((f"{name}: {res.get('check')}: JSON lists paths {got_short} (count {res.get('count')}), the detector returned {want}", {"kind": "json-rendering", "program": text, "detector": res.get("check")}))
                    break
                bad = [(pth, [len(x) for x in p.get("blocks", [])]) for pth, p in zip(want, res["paths"]) if [len(x) for x in p.get("blocks", [])] != [len(rows.get(b, [])) for b in pth]
                       or any([str(y).split(":")[0] for y in x] != [str(y).split(":")[0] for y in rows.get(b, [])] for x, b in zip(p.get("blocks", []), pth))]
                if bad:
                    ctx["violations"].append((f"{name}: {res.get('check')}: the JSON 'blocks' of path {bad[0][0]} do not list the instructions of exactly these blocks in order (sizes {bad[0][1]})", {"kind": "json-rendering", "program": text, "detector": res.get("check")}))
                    break
        ctx["cov"]["json_renderings_read_back"] = nj
    generic_run(ctx, cmp_for(keys=None, paths=[]), set(), extra=extra)


def run_c03(ctx):
    """verdict exactness on the enumerated direct-check grid: the detector reports iff some dangerous value of the
    governed field is approved (decided exactly by the interpreter over the region representatives)"""
    import avm

    def extra(ctx, results):
        n = 0
        for name, text, meta, m, i in results:
            if meta["stream"] != "micro" or "paths" not in i:
                continue
            kind = name.split(":")[1].split("/")[0]
            if kind == "fee" and "/18446744073709551615/" in name:
                continue  # known finding D25: `Fee > 2^64-1` (never true) cannot be expressed by an upper bound
            if kind == "fee":
                det, fld = "missing-fee-check", "Fee"
                ints, _ = oracle.program_constants(text)
                vals = sorted({0, 272000, 272001, 2**64 - 1} | {max(0, c - 1) for c in ints} | set(ints) | {min(2**64 - 1, c + 1) for c in ints})
                dangerous = [v for v in vals if v > 272000]
                mk = lambda v: {"Fee": v}
            elif kind == "addr" and "/RekeyTo/" in name and "/Receiv" not in name:
                det, fld = "rekey-to", "RekeyTo"
                dangerous = [("addr", oracle.FRESH)]
                mk = lambda v: {"RekeyTo": v}
            elif kind == "retmix" and name.split("/")[1] in ("RekeyTo", "Fee"):
                # the leaf ASSERTS the check of field A and returns another computed condition: no execution carrying A's
                # dangerous value is approved, whatever the returned condition says -> A's detector must be silent
                if name.split("/")[1] == "RekeyTo":
                    det, fld, dangerous, mk = "rekey-to", "RekeyTo", [("addr", oracle.FRESH)], (lambda v: {"RekeyTo": v})
                else:
                    det, fld, dangerous, mk = "missing-fee-check", "Fee", [272001, 2**64 - 1], (lambda v: {"Fee": v})
            elif kind == "bottom" and name.split("/")[1] in ("RekeyTo", "Fee"):
                if name.split("/")[1] == "RekeyTo":
                    det, fld, dangerous, mk = "rekey-to", "RekeyTo", [("addr", oracle.FRESH)], (lambda v: {"RekeyTo": v})
                else:
                    det, fld, dangerous, mk = "missing-fee-check", "Fee", [272001, 2**64 - 1], (lambda v: {"Fee": v})
            elif kind == "oc":
                # kind-based verdicts: known finding D16 can only make the tool MORE silent, so the direction of C03 (no report
                # when every accepting execution excludes UpdateApplication / DeleteApplication) is decided here, one-sided
                if re.search(r"/(6|7)(num|name)/", name):
                    continue  # a constant that is no OnCompletion value (6, 7) is not interpreted by the tool: it reports (observation, DESIGN section 9)
                try:
                    prog = avm.Program(text)
                except Exception:  # pylint: disable=broad-except
                    continue
                for det, oc in (("is-updatable", 4), ("is-deletable", 5)):
                    appr = False
                    for appid in (0, 7):
                        txn = {"_index": 0, "Fee": 1000, "RekeyTo": ("addr", avm.ZERO), "CloseRemainderTo": ("addr", avm.ZERO), "AssetCloseTo": ("addr", avm.ZERO),
                               "Sender": ("addr", "CREATOR"), "Receiver": ("addr", "CREATOR"), "TypeEnum": 6, "OnCompletion": oc, "ApplicationID": appid}
                        try:
                            ok, _ = avm.run(prog, {"group": [txn], "index": 0, "creator": "CREATOR"})
                        except avm.Unsupported:
                            ok = True
                        appr = appr or bool(ok)
                    rep = isinstance(i["paths"].get(det), list) and len(i["paths"][det]) > 0
                    n += 1
                    if rep and not appr:
                        ctx["violations"].append((f"{name}: {det} reports a path although no application call with that OnCompletion is approved", {"kind": "verdict-exactness", "program": text, "detector": det}))
                continue
            else:
                continue
            try:
                prog = avm.Program(text)
            except Exception:  # pylint: disable=broad-except
                continue
            approved_dangerous = False
            for v in dangerous:
                txn = {"_index": 0, "Fee": 1000, "RekeyTo": ("addr", avm.ZERO), "CloseRemainderTo": ("addr", avm.ZERO), "AssetCloseTo": ("addr", avm.ZERO),
                       "Sender": ("addr", "CREATOR"), "Receiver": ("addr", "CREATOR"), "TypeEnum": 1, "OnCompletion": 0, "ApplicationID": 0}
                txn.update(mk(v))
                try:
                    ok, _ = avm.run(prog, {"group": [txn], "index": 0, "creator": "CREATOR"})
                except avm.Unsupported:
                    ok = None
                if ok:
                    approved_dangerous = True
            reported = isinstance(i["paths"].get(det), list) and len(i["paths"][det]) > 0
            n += 1
            if reported != approved_dangerous:
                what = "reports a path although no dangerous value is approved" if reported else "is silent although a dangerous value is approved"
                ctx["violations"].append((f"{name}: {det} {what}", {"kind": "verdict-exactness", "program": text, "detector": det}))
        ctx["cov"]["exact_verdicts_checked"] = n
    # full grid for the direct-check prefixes
    old = sizes
    generic_run(ctx, cmp_for(keys=None, paths=[], cfg=False), set(), micro_prefixes=["fee", "addr/RekeyTo", "bool", "spell", "retmix", "unkop", "oc", "bottom"], extra=extra, known_ids=("D25",))


def run_c04(ctx):
    def extra(ctx, results):
        n = 0
        for name, text, meta, m, i in results:
            if "blocks" not in i:
                continue
            errs = graphcheck.check_graph(text, i)
            n += 1
            if errs:
                ctx["violations"].append((f"{name}: {errs[0]}", {"kind": "graph-law", "program": text}))
        ctx["cov"]["graphs_checked_against_laws"] = n
        # parse level: C04 quantifies over ALL assembler-valid programs, also those on which the analyses stop (a block that
        # belongs to two routines): the graph laws are checked on parse_teal's result for every program without an analysis
        # result and for all adversarial layouts, and the parse-level dump is compared with the model's
        again = [(name, text) for name, text, meta, m, i in results if "blocks" not in i or meta["stream"] == "adversarial"]
        cm, ci = corr.run_both([("cfg", f"g{k}", t, []) for k, (_, t) in enumerate(again)])
        n2 = 0
        for k, (name, text) in enumerate(again):
            g = ci.get(f"g{k}")
            if not isinstance(g, dict) or "blocks" not in g:
                continue
            n2 += 1
            errs = [e for e in graphcheck.check_graph(text, g) if "subroutine" not in e and "callsub" not in e] if cm.get(f"g{k}", {}).get("structured") is False else graphcheck.check_graph(text, g)
            if errs:
                ctx["violations"].append((f"{name} (parse level): {errs[0]}", {"kind": "graph-law", "program": text}))
            d = corr.cmp_cfg(cm[f"g{k}"], g)
            if d and len(ctx["broken"]) < 4:
                ctx["broken"].append(f"correspondence (parse-level graph) on {name}: {d[0][:300]} || program: {text!r}")
        ctx["cov"]["parse_level_graphs_checked"] = n2
    generic_run(ctx, cmp_for(), set(), extra=extra)


def run_ctx(keys_pred, oracle_props, prefixes, known=()):
    def r(ctx):
        generic_run(ctx, cmp_for(keys=keys_pred, cfg=False), oracle_props, micro_prefixes=prefixes, known_ids=known)
    return r


def run_lines(compare_keys):
    """C11 / C16 / C19: per-line correspondence over generated lines (all opcodes x immediates x decorations)"""
    def r(ctx):
        cov = ctx["cov"]
        rng = ctx["rng"]
        n = 4000 if ctx["tier"] == "quick" else 40000
        ls = linegen.all_lines(rng, n)
        reqs = [("parseline", f"l{k}", text, [ver]) for k, (text, ver, _) in enumerate(ls)]
        m, i = corr.run_both(reqs)
        nd = 0
        kinds = {}
        for k, (text, ver, kind) in enumerate(ls):
            kinds[kind] = kinds.get(kind, 0) + 1
            a, b = m[f"l{k}"], i[f"l{k}"]
            d = corr.cmp_parseline(a, b)
            d = [x for x in d if x.split(":")[0] in compare_keys or x.startswith(("error status", "model="))]
            if d:
                nd += 1
                if nd <= 3:
                    ctx["broken"].append(f"correspondence on line {text!r} (version {ver}): {d[0][:200]}")
        cov["input_samples"] = [{"line": t_, "version": v_, "kind": k_} for t_, v_, k_ in ls[:3]]
        cov["traces_validated_against_impl"] = len(ls)
        cov["evaluations"] = len(ls)
        cov["distinct_nontrivial"] = len(set(t for t, _, _ in ls))
        cov["rule"] = "lines: every parser rule x immediate grammars (dec/hex/oct ints, fields, labels, byte literals) x whitespace/comment decorations; distinct by text"
        cov["input_distribution"] = kinds
        cov["disagreements"] = nd
        extra = LINE_EXTRA.get(ctx["pid"])
        if extra:
            extra(ctx)
        replay_known_lines(ctx)
    return r


def replay_known_lines(ctx):
    """table findings (one source line, one column): replayed on the implementation against the specification value"""
    for f in ctx["known"].get("findings", []):
        if ctx["pid"] not in f["properties"] or "line" not in f:
            continue
        _, i = corr.run_both([("parseline", "k", f["line"], [f["version"]])], shards=1)
        got = i["k"].get(f["field"])
        if str(got) != str(f["spec_value"]):
            ctx["known_lines"].append(f"KNOWN-FINDING: property={ctx['pid']} {f['id']}: {f['title']} (`{f['line']}` in a v{f['version']} program: {f['field']}={got}, AVM: {f['spec_value']})")
        else:
            ctx["cov"].setdefault("known_findings_no_longer_reproduced", []).append(f["id"])


LINE_EXTRA = {}


def regex_cases(rng, text, n):
    """(label, pattern) pairs for one program: windows of 1-4 source lines (present), perturbed ones (absent)"""
    lines = [l.strip() for l in text.split("\n") if l.strip() and not l.strip().startswith(("#pragma", "//"))]
    labels = ["*"] + [l[:-1] for l in lines if l.endswith(":")]
    out = []
    for _ in range(n):
        k = rng.randrange(1, 5)
        i = rng.randrange(0, max(1, len(lines) - k + 1))
        pat = lines[i:i + k]
        if rng.random() < 0.2:
            pat = pat + ["int 424242"]
        if rng.random() < 0.15:
            pat = [rng.choice(["int 1", "return", "assert", "pop", "retsub", "=="])]
        out.append((rng.choice(labels), "\n".join(pat)))
    return out


def _norm_line(line):
    """comment-stripped, whitespace-normalised text of a line with integer tokens in decimal (what str() of the parsed
    instruction compares); None for blank / comment lines.  Lines with string literals are returned verbatim-trimmed."""
    import avm
    l = line.strip()
    if '"' not in l and "//" in l:
        l = l[:l.index("//")].strip()
    if not l:
        return None
    if '"' in l:
        return l
    toks = l.split()
    out = [toks[0]]
    for t in toks[1:]:
        try:
            out.append(str(avm.parse_int(t)))
        except Exception:  # pylint: disable=broad-except
            out.append(t)
    return " ".join(out)


def independent_regex(text, label, pattern):
    """the property, computed from the SOURCE TEXT only (independent of tealer and of the model): instruction-level
    successors (fall-through unless b/err/return/retsub; jump targets of b/bz/bnz/switch/match/callsub),
    reachability from the label (or the first instruction for `*`), straight-line occurrences of the pattern,
    covered = reachable instructions from which a match start is reachable in >= 1 steps.
    Returns (sorted match start lines, sorted covered lines) or None when the case is outside what this oracle reads."""
    ins = []   # (lineno, normalised text)
    for n, raw in enumerate(text.split("\n"), 1):
        t = _norm_line(raw)
        if t is not None:
            ins.append((n, t))
    pat = [x for x in (_norm_line(l) for l in pattern.split("\n")) if x is not None]
    if not pat or any('"' in t for _, t in ins) or any('"' in t for t in pat):
        return None
    labels = {}
    for k, (_, t) in enumerate(ins):
        if t.endswith(":") and " " not in t:
            labels[t[:-1]] = k
    nxt = []
    for k, (_, t) in enumerate(ins):
        op = t.split()[0]
        args = t.split()[1:]
        succ = []
        if op not in ("b", "err", "return", "retsub") and k + 1 < len(ins):   # callsub: callee entry AND (after the return) the next line
            succ.append(k + 1)
        if op in ("b", "bz", "bnz", "callsub", "switch", "match"):
            for a in args:
                if a not in labels:
                    return None
                succ.append(labels[a])
        nxt.append(succ)
    def closure(srcs):
        seen, todo = set(), list(srcs)
        while todo:
            k = todo.pop()
            if k in seen:
                continue
            seen.add(k)
            todo += nxt[k]
        return seen
    if label == "*":
        start = 0
    elif label in labels:
        start = labels[label]
        # known finding D29: a label inside pruned code is unknown to the tool.  Retained = reachable from the entry
        # or from any callsub target (C04).
        callees = [labels[t.split()[1]] for _, t in ins if t.split()[0] == "callsub" and len(t.split()) == 2 and t.split()[1] in labels]
        if start not in closure([0] + callees):
            return None
    else:
        return [], []
    reach, todo = set(), [start]
    while todo:
        k = todo.pop()
        if k in reach:
            continue
        reach.add(k)
        todo += nxt[k]

    def is_match(k):
        cur = k
        for j, ptxt in enumerate(pat):
            if cur is None or ins[cur][1] != ptxt:
                return False
            loc = nxt[cur][:-1] if ins[cur][1].split()[0] == "callsub" else nxt[cur]   # a call is not a branch: the line after it continues the straight line
            cur = loc[0] if len(loc) == 1 else None
        return True
    starts = [k for k in sorted(reach) if is_match(k)]
    cov, todo = set(), list(starts)
    prev = {k: [j for j in range(len(ins)) if k in nxt[j]] for k in range(len(ins))}
    while todo:
        k = todo.pop()
        for j in prev[k]:
            if j in reach and j not in cov:
                cov.add(j)
                todo.append(j)
    return sorted(ins[k][0] for k in starts), sorted(ins[k][0] for k in cov)


def run_c20(ctx):
    cov = ctx["cov"]
    rng = ctx["rng"]
    nprog = 150 if ctx["tier"] == "quick" else 1500
    progs = [(n, t) for n, t in gen.adversarial_programs()]
    for k in range(nprog):
        t, _ = gen.random_program(rng)
        progs.append((f"rand{k}", t))
    # diamonds and loops with the pattern behind a join (known finding D14 lives here)
    # repeated runs: self-overlapping patterns and several matches on one path
    runs = []
    for unit, pats in ((["int 1"], ["int 1", "int 1\nint 1", "int 1\nint 1\nint 1"]),
                       (["int 1", "pop"], ["int 1\npop\nint 1", "pop\nint 1", "int 1\npop", "int 1\npop\nint 1\npop"]),
                       (["dup", "dup", "pop"], ["dup\ndup", "dup\npop\ndup", "pop\ndup\ndup\npop"])):
        for k in (2, 3, 5):
            body = "\n".join(unit * k)
            for shape in ("#pragma version 6\n{b}\nint 1\nreturn",
                          "#pragma version 6\nint 0\nbnz l\n{b}\nb e\nl:\n{b}\ne:\n{b}\nint 1\nreturn",
                          "#pragma version 6\nl:\n{b}\ntxn Fee\nbnz l\n{b}\nint 1\nreturn"):
                runs.append((shape.replace("{b}", body), pats))
    reqs = []
    meta = {}
    for n, (text, pats) in enumerate(runs):
        for pat in pats:
            rid = f"q{len(reqs)}"
            reqs.append(("regex", rid, pat + "\n@@----\n" + text, ["*"]))
            meta[rid] = (f"runs{n}", text, "*", pat)
    for name, text in progs:
        for j, (label, pat) in enumerate(regex_cases(rng, text, 4)):
            rid = f"q{len(reqs)}"
            reqs.append(("regex", rid, pat + "\n@@----\n" + text, [label]))
            meta[rid] = (name, text, label, pat)
    m, i = corr.run_both(reqs)
    nd = 0
    nmatch = 0
    norc = 0
    for kind, rid, _, _ in reqs:
        a, b = m[rid], i[rid]
        if "err" in a or "err" in b:
            if ("err" in a) != ("err" in b):
                nd += 1
                if nd <= 3:
                    ctx["broken"].append(f"correspondence regex {meta[rid][0]} label={meta[rid][2]!r} pattern={meta[rid][3]!r}: model={a} impl={b}")
            continue
        if b["matches"]:
            nmatch += 1
        exp = independent_regex(meta[rid][1], meta[rid][2], meta[rid][3])
        if exp is not None:
            norc += 1
            got_starts = sorted(mm[0] for mm in b["matches"])
            if got_starts != exp[0] or len(set(got_starts)) != len(got_starts):
                ctx["violations"].append((f"{meta[rid][0]}: regex label={meta[rid][2]!r} pattern={meta[rid][3]!r}: reported match starts (lines) {got_starts}, reachable straight-line occurrences are at {exp[0]}",
                                          {"kind": "regex-matches", "program": meta[rid][1], "label": meta[rid][2], "pattern": meta[rid][3]}))
            elif sorted(b["covered"]) != exp[1]:
                ctx["violations"].append((f"{meta[rid][0]}: regex label={meta[rid][2]!r} pattern={meta[rid][3]!r}: covered lines {sorted(b['covered'])}, the instructions on a path from the label to a match are {exp[1]}",
                                          {"kind": "regex-covered", "program": meta[rid][1], "label": meta[rid][2], "pattern": meta[rid][3]}))
        if a["matches"] != b["matches"] or a["covered"] != b["covered"]:
            nd += 1
            if nd <= 3:
                ctx["broken"].append(f"correspondence regex {meta[rid][0]} label={meta[rid][2]!r} pattern={meta[rid][3]!r}: model={a} impl={b} program={meta[rid][1]!r}")
    cov["traces_validated_against_impl"] = len(reqs)
    cov["evaluations"] = len(reqs)
    cov["distinct_nontrivial"] = nmatch
    cov["independent_oracle_cases"] = norc
    cov["rule"] = "regex queries = (program, label, pattern of 1-4 instructions) over adversarial + random programs + repeated-run programs; each also decided by an independent reachability computation from the source text; non-trivial = at least one match"
    cov["disagreements"] = nd
    replay_known_regex(ctx)


def replay_known_regex(ctx):
    for f in ctx["known"].get("findings", []):
        if "C20" not in f["properties"] or "pattern" not in f:
            continue
        text = f["pattern"] + "\n@@----\n" + f["program"]
        _, i = corr.run_both([("regex", "k", text, [f["label"]])], shards=1)
        still = False
        why = ""
        if "covered_should_be" in f:
            got = i["k"].get("covered")
            still = got is not None and sorted(got) != sorted(f["covered_should_be"])
            why = f"covered lines {got}, every instruction on a path to the match is {f['covered_should_be']}"
        if "matches_should_be" in f:
            got = sorted(mm[0] for mm in i["k"].get("matches", []))
            still = got != sorted(f["matches_should_be"])
            why = f"match starts {got}, reachable occurrences start at lines {f['matches_should_be']}"
        if still:
            ctx["known_lines"].append(f"KNOWN-FINDING: property=C20 {f['id']}: {f['title']} ({why})")
        else:
            ctx["cov"].setdefault("known_findings_no_longer_reproduced", []).append(f["id"])

def run_c05(ctx):
    def extra(ctx, results):
        n = 0
        for name, text, meta, m, i in results:
            if "blocks" not in i:
                continue
            errs = [e for e in graphcheck.check_graph(text, i) if "subroutine" in e or "callsub" in e]
            n += 1
            if errs:
                ctx["violations"].append((f"{name}: {errs[0]}", {"kind": "subroutine-law", "program": text}))
        ctx["cov"]["graphs_checked_against_laws"] = n
        # last sentence of C05: the call-graph export has an edge f -> g exactly when a callsub RETAINED in f targets g.
        # Expected edges are read off the implementation's own parse result (retained call sites per routine); the export is
        # the file the real CLI writes.  All adversarial layouts + a sample of the other programs with call sites.
        import cli
        cand = [(name, text, i) for name, text, meta, m, i in results
                if "blocks" in i and "subs" in i and any(b["ins"] and b["ins"][-1].startswith("callsub ") for b in i["blocks"])]
        adv = [c for c in cand if c[0].startswith("adv:")]
        rest = [c for c in cand if not c[0].startswith("adv:")]
        sample = adv + rest[:: max(1, len(rest) // (12 if ctx["tier"] == "quick" else 120))]
        outs = par_map(lambda c: cli.call_graph_edges(c[1]), sample)
        ncg = 0
        for (name, text, i), (got, rc, err) in zip(sample, outs):
            blocks = {b["idx"]: b for b in i["blocks"]}
            exp = set()
            for rn in [i["main"]] + i["subs"]:
                for b in rn["blocks"]:
                    if b in blocks and blocks[b]["ins"][-1].startswith("callsub "):
                        exp.add((rn["name"], blocks[b]["ins"][-1].split()[1]))
            ncg += 1
            if got is None:
                ctx["violations"].append((f"{name}: call-graph printer wrote no file (exit status {rc}) although the contract has retained call sites {sorted(exp)}: {err}", {"kind": "call-graph", "program": text}))
            elif got != sorted(exp):
                ctx["violations"].append((f"{name}: call-graph export has edges {got}, the retained call sites are {sorted(exp)}", {"kind": "call-graph", "program": text}))
        ctx["cov"]["call_graph_exports_read_back"] = ncg
    generic_run(ctx, cmp_for(), set(), extra=extra)


C19_IMM = {"ecdsa_verify": ["Secp256k1", "Secp256r1"], "ecdsa_pk_decompress": ["Secp256k1", "Secp256r1"], "ecdsa_pk_recover": ["Secp256k1"],
           "base64_decode": ["URLEncoding", "StdEncoding"], "json_ref": ["JSONString", "JSONUint64", "JSONObject"], "vrf_verify": ["VrfAlgorand"],
           "block": ["BlkSeed", "BlkTimestamp"], "arg": ["0"], "load": ["1"], "store": ["1"], "gload": ["0 1"], "gloads": ["1"], "gaid": ["0"],
           "intc": ["0"], "bytec": ["0"], "pushint": ["7"], "int": ["7"], "byte": ["0x01"], "pushbytes": ["0x01"], "addr": ["7777777777777777777777777777777777777777777777777774MSJUVU"],
           "method": ['"a()void"'], "intcblock": ["1 2"], "bytecblock": ["0x01 0x02"], "dig": ["1"], "cover": ["1"], "uncover": ["1"], "bury": ["1"],
           "popn": ["1"], "dupn": ["1"], "frame_dig": ["1"], "frame_bury": ["0"], "proto": ["1 1"], "extract": ["0 1"], "substring": ["0 1"],
           "replace2": ["0"], "gitxn": ["0 Fee"], "gtxn": ["0 Fee"], "txn": ["Fee"], "gtxns": ["Fee"], "itxn": ["Fee"], "itxn_field": ["Fee"],
           "txna": ["Accounts 0"], "gtxna": ["0 Accounts 0"], "gtxnsa": ["Accounts 0"], "itxna": ["Logs 0"], "gitxna": ["0 Logs 0"],
           "txnas": ["Accounts"], "gtxnas": ["0 Accounts"], "gtxnsas": ["Accounts"], "itxnas": ["Logs"], "gitxnas": ["0 Logs"],
           "global": ["MinTxnFee"], "asset_holding_get": ["AssetBalance"], "asset_params_get": ["AssetTotal"], "app_params_get": ["AppCreator"],
           "acct_params_get": ["AcctBalance"], "pushbytess": ["0x01 0x02"], "pushints": ["1 2"], "switch": ["l1 l1"], "match": ["l1 l1"],
           "b": ["l1"], "bz": ["l1"], "bnz": ["l1"], "callsub": ["l1"]}


def c19_directed(rng, tier):
    """directed program-level cases for the AVM oracle: each opcode of the AVM table alone in a small program under
    versions around its introduction and around the versions at which its cost changes; each field under versions around its
    introduction through every opcode that can carry it; mode-specific opcodes and too-new opcodes in UNREACHABLE code"""
    ops, _curves, fields = avmspec.tables()
    out = []

    def prog(v, body):
        return (f"#pragma version {v}\n" if v is not None else "") + "\n".join(body) + "\nl1:\nint 1\nreturn"

    for mn, (iv, modes, costs) in ops.items():
        change = sorted({1, 2, 8, iv, max(iv - 1, 1)} | {k + 1 for k in range(1, 8) if costs[k] != costs[k - 1] or modes[k] != modes[k - 1]} | {k for k in range(1, 8) if costs[k] != costs[k - 1]})
        vs_ = change if tier != "quick" else rng.sample(change, min(3, len(change)))
        for v in vs_:
            for imm in C19_IMM.get(mn, [""]):
                out.append(prog(v, [(mn + " " + imm).strip()]))
    carriers = {"txn": ["txn", "gtxn 0", "gtxns", "itxn_field"], "global": ["global"], "asset_holding": ["asset_holding_get"],
                "asset_params": ["asset_params_get"], "app_params": ["app_params_get"], "acct_params": ["acct_params_get"]}
    arr = set(fields.get("txna", {}))
    for tbl, cs in carriers.items():
        for name, fv in fields[tbl].items():
            for c in cs:
                for v in sorted({max(fv - 1, 1), fv, 8} if tier == "quick" else set(range(1, 9))):
                    out.append(prog(v, [f"{c} {name}" + (" 0" if name in arr and c != "gtxns" and c != "itxn_field" else "")]))
    modal = [mn for mn, (_iv, modes, _c) in ops.items() if modes[7] != "A"]
    for k in range(40 if tier == "quick" else 400):
        a = rng.choice(modal)
        b = rng.choice(modal + ["shl", "box_del", "bsqrt", "gtxns Fee"])
        v = rng.choice([None, 1, 2, 3, 5, 6, 8])
        live = ["int 1", rng.choice(["return", "err", "b l1"])]
        shape = rng.randrange(4)
        body = live + [a + " " + C19_IMM.get(a, [""])[0]] if shape == 0 else \
            [b + " " + C19_IMM.get(b.split()[0], [""])[0] if " " not in b else b] + live + [a + " " + C19_IMM.get(a, [""])[0]] if shape == 1 else \
            live + [a + " " + C19_IMM.get(a, [""])[0], b if " " in b else b + " " + C19_IMM.get(b, [""])[0]] if shape == 2 else \
            ["callsub l1"] + live + ["dead:", a + " " + C19_IMM.get(a, [""])[0], "b dead"]
        out.append(prog(v, [x.strip() for x in body]))
    return out


def c19_extra(ctx):
    """program-level decision logic: version flags, mixed mode, contract type, block costs for declared versions 1..8"""
    import re as _re
    # validation of the trusted transcription Spec/AvmTables.v against PyTeal's opcode table (second source available offline)
    rc, out = B_sh(f"/venv/bin/python {os.path.join(HERE, 'avm_crosscheck.py')}")
    ctx["cov"]["avm_tables_vs_pyteal"] = out.strip().split("\n")[-1][:300]
    if rc != 0:
        ctx["broken"].append("trusted table Spec/AvmTables.v disagrees with PyTeal's opcode table: " + "; ".join(l for l in out.split("\n") if l.startswith("DISAGREE"))[:400])
    rng = ctx["rng"]
    progs = [t for _, t in corpus_programs()][:40]
    for _ in range(60 if ctx["tier"] == "quick" else 600):
        t, _f = gen.random_program(rng)
        progs.append(t)
    extra_ops = ["app_global_get", "arg 0", "balance", "log", "sha3_256", "ed25519verify", "global OpcodeBudget", "txn LastLog",
                 "ecdsa_pk_decompress Secp256r1", "b+", "bsqrt", "gaid 0", "itxn_begin", "box_del", "json_ref JSONString", "args"]
    reqs = []
    for n, t in enumerate(progs):
        for v in rng.sample(range(1, 9), 3):
            lines = t.split("\n")
            if lines and lines[0].startswith("#pragma"):
                lines[0] = f"#pragma version {v}"
            elif rng.random() < 0.7:
                lines.insert(0, f"#pragma version {v}")
            k = rng.randrange(1, len(lines) + 1)
            lines.insert(k, rng.choice(extra_ops))
            lines.insert(k + 1, "pop") if rng.random() < 0.5 else None
            reqs.append(("cfg", f"v{len(reqs)}", "\n".join(lines), []))
    reqs += [("cfg", f"d{n}", t, []) for n, t in enumerate(c19_directed(rng, ctx["tier"]))]
    if replay_payload(ctx).get("program"):
        reqs.insert(0, ("cfg", "replay", replay_payload(ctx)["program"], []))
    m, i = corr.run_both(reqs)
    nd = 0
    nv = 0
    for kind, rid, text, _ in reqs:
        # independent oracle: the implementation's report against the AVM tables (Spec/AvmTables.v printed by Spec/AvmDump.v)
        try:
            bad = avmspec.check(text, i[rid])
        except Exception as e:  # pylint: disable=broad-except
            bad = []
            ctx["cov"]["avm_oracle_error"] = str(e)[:300]
        if bad and nv < 3:
            nv += 1
            small = text
            try:
                small = shrink(text, lambda t: bool(avmspec.check(t, corr.run_both([("cfg", "x", t, [])], shards=1)[1]["x"])))
                bad = avmspec.check(small, corr.run_both([("cfg", "x", small, [])], shards=1)[1]["x"]) or bad
            except Exception:  # pylint: disable=broad-except
                small = text
            ctx["violations"].append((f"{rid}: {bad[0]}", {"kind": "avm-spec", "program": small, "all": bad[:5]}))
        d = corr.cmp_cfg(m[rid], i[rid])
        if d:
            nd += 1
            if nd <= 3:
                ctx["broken"].append(f"correspondence (version/mode/cost) on program {text!r}: {d[0][:300]}")
    ctx["cov"]["program_level_cases"] = len(reqs)
    ctx["cov"]["program_level_disagreements"] = nd
    ctx["cov"]["avm_oracle"] = "every program-level case also decided by tools/avmspec.py (version flags, mode / mixture / contract type, block costs against the AVM tables of Spec/AvmTables.v); directed cases: every opcode of the table at every version, every field under versions around its introduction, mode-specific opcodes in unreachable code"


def c11_extra(ctx):
    """operand-tree correspondence on straight-line opcode sequences and on the blocks of random programs"""
    rng = ctx["rng"]
    n = 400 if ctx["tier"] == "quick" else 4000
    reqs = []
    for k in range(n):
        reqs.append(("ast", f"a{k}", linegen.stack_soup(rng, rng.randrange(3, 25)), []))
    for k in range(n // 4):
        t, _ = gen.random_program(rng)
        reqs.append(("ast", f"b{k}", t, []))
    if replay_payload(ctx).get("program"):
        reqs.insert(0, ("ast", "replay", replay_payload(ctx)["program"], []))
    m, i = corr.run_both(reqs)
    nd = 0
    deep = 0
    nv_ = 0
    for kind, rid, text, _ in reqs:
        a, b = m[rid], i[rid]
        if "err" in a or "err" in b:
            if ("err" in a) != ("err" in b):
                nd += 1
                if nd <= 3:
                    ctx["broken"].append(f"correspondence (operand trees) on {text!r}: model={str(a)[:150]} impl={str(b)[:150]}")
            continue
        if "[" in json.dumps(b):
            deep += 1
        # independent oracle: operands by the AVM's own arities (Spec/AvmTables.v via Spec/AvmDump.v), tools/avmspec.py
        if nv_ < 3:
            try:
                bad = avmspec.check_operands(text, b)
            except Exception as e:  # pylint: disable=broad-except
                bad = []
                ctx["cov"]["avm_operand_oracle_error"] = str(e)[:300]
            if bad:
                nv_ += 1
                ctx["violations"].append((bad[0], {"kind": "avm-operands", "program": text}))
        if a != b:
            nd += 1
            if nd <= 3:
                blk = [k for k in b if a.get(k) != b[k]]
                ctx["broken"].append(f"correspondence (operand trees) on {text!r}: block {blk[:1]}: model={json.dumps(a.get(blk[0]) if blk else a)[:300]} impl={json.dumps(b.get(blk[0]) if blk else b)[:300]}")
    ctx["cov"]["operand_tree_cases"] = len(reqs)
    ctx["cov"]["operand_tree_disagreements"] = nd
    ctx["cov"]["avm_operand_oracle_rows"] = avmspec.STATS.get("operand_rows_compared", 0)


LINE_EXTRA["C11"] = c11_extra
LINE_EXTRA["C19"] = c19_extra


def c16_extra(ctx):
    """property oracle on the implementation alone (independent of the model): integer-spelling invariance and
    print/parse round trip.  (a) a line and its twin with every hex / octal integer token rewritten in decimal must
    parse to the same instruction (class and printed form); (b) the printed form of every parsed supported instruction
    must parse back to the same printed form and class."""
    import avm
    rng = ctx["rng"]
    n = 1500 if ctx["tier"] == "quick" else 15000
    ls = linegen.all_lines(rng, n)
    pairs = []
    seen = set()
    for text, ver, kind in ls + linegen.all_lines(rng, 8 * n):
        if text in seen:
            continue
        seen.add(text)
        if '"' in text or kind in ("blank", "label"):
            continue
        body = text.split("//")[0]
        toks = body.split()
        if len(toks) < 2:
            continue
        new = [toks[0]]
        changed = False
        for t in toks[1:]:
            if (t.startswith("0x") or (t.startswith("0") and len(t) > 1 and t.isdigit())) and toks[0] not in ("byte", "pushbytes", "bytecblock", "pushbytess", "method", "addr"):
                try:
                    new.append(str(avm.parse_int(t)))
                    changed = True
                    continue
                except Exception:  # pylint: disable=broad-except
                    pass
            new.append(t)
        if changed:
            pairs.append((text, " ".join(new), ver))
    reqs = []
    for k, (a, b, ver) in enumerate(pairs):
        reqs.append(("parseline", f"a{k}", a, [ver]))
        reqs.append(("parseline", f"b{k}", b, [ver]))
    _, i = corr.run_both(reqs)
    nspell = 0
    for k, (a, b, ver) in enumerate(pairs):
        x, y = i[f"a{k}"], i[f"b{k}"]
        nspell += 1
        if not isinstance(x, dict) or not isinstance(y, dict):
            continue
        if ("err" in x) != ("err" in y) or x.get("cls") != y.get("cls") or x.get("str") != y.get("str"):
            ctx["violations"].append((f"`{a.strip()}` and its decimal spelling `{b}` parse to different instructions: {x.get('cls')} `{x.get('str')}` {x.get('err', '')} vs {y.get('cls')} `{y.get('str')}` {y.get('err', '')}",
                                      {"kind": "int-spelling", "line": a, "twin": b, "version": ver}))
            break
    # round trip through the printed form
    _, i1 = corr.run_both([("parseline", f"l{k}", text, [ver]) for k, (text, ver, _) in enumerate(ls)])
    again = [(k, i1[f"l{k}"]["str"], ver) for k, (text, ver, _) in enumerate(ls)
             if isinstance(i1[f"l{k}"], dict) and "str" in i1[f"l{k}"] and i1[f"l{k}"].get("cls") not in (None, "UnsupportedInstruction") and i1[f"l{k}"]["str"]]
    _, i2 = corr.run_both([("parseline", f"r{k}", st, [ver]) for k, st, ver in again])
    nrt = 0
    for k, st, ver in again:
        nrt += 1
        y = i2[f"r{k}"]
        if not isinstance(y, dict):
            y = {"err": "parsed to nothing"}
        if y.get("str") != st or y.get("cls") != i1[f"l{k}"].get("cls"):
            ctx["violations"].append((f"printed form `{st}` of `{ls[k][0].strip()}` parses back to {y.get('cls')} `{y.get('str')}` {y.get('err', '')}",
                                      {"kind": "print-parse-roundtrip", "line": ls[k][0], "printed": st, "version": ver}))
            break
        # the printed form must denote the SAME instruction as the source line: same stack effect, version, mode and cost
        x = i1[f"l{k}"]
        diff = [f for f in ("pop", "push", "version", "mode", "cost") if x.get(f) != y.get(f)]
        if diff:
            ctx["violations"].append((f"`{ls[k][0].strip()}` prints as `{st}`, which parses back to a different instruction: " + ", ".join(f"{f} {x.get(f)} -> {y.get(f)}" for f in diff),
                                      {"kind": "print-parse-identity", "line": ls[k][0], "printed": st, "version": ver}))
            break
    # (c) denotation of byte constants: decoded with Python's base64 module, independently of tealer and of the model
    import base64
    import binascii

    def denoted(tok):
        try:
            if tok.startswith("0x"):
                return bytes.fromhex(tok[2:])
            for pre, dec, pad in (("base64", base64.b64decode, 4), ("b64", base64.b64decode, 4), ("base32", base64.b32decode, 8), ("b32", base64.b32decode, 8)):
                if tok.startswith(pre + "(") and tok.endswith(")"):
                    d = tok[len(pre) + 1:-1]
                elif tok.startswith(pre + " "):
                    d = tok[len(pre) + 1:].strip()
                else:
                    continue
                if not d or not all(ch.isalnum() or ch in "+/=" for ch in d):
                    return None
                return dec(d + "=" * (-len(d) % pad))
        except (binascii.Error, ValueError):
            return None
        return None

    nden = 0
    for k, (text, ver, kind) in enumerate(ls):
        if kind not in ("bytes", "bytes-random") or '"' in text:
            continue
        body = text
        for cut in (" //", "\t//"):
            if cut in body:
                body = body[:body.index(cut)]
        toks = body.split(None, 1)
        if len(toks) != 2 or toks[0] not in ("byte", "pushbytes"):
            continue
        want = denoted(" ".join(toks[1].split()))
        y = i1.get(f"l{k}")
        if want is None or not isinstance(y, dict) or "str" not in y:
            continue
        nden += 1
        if y["str"].lower() != f"{toks[0]} 0x{want.hex()}":  # hex literals are printed with the source's letter case
            ctx["violations"].append((f"`{text.strip()}` denotes the bytes 0x{want.hex()} but parses to `{y['str']}`",
                                      {"kind": "byte-constant-denotation", "line": text, "version": ver, "expected": f"{toks[0]} 0x{want.hex()}", "got": y["str"]}))
            break
    # (d) signed immediates of the frame opcodes (int8 in the AVM).  Since the model reads them (Parse.parse_sint, PSInt)
    #     they are ordinary generated lines (tools/lines.py signed_frame_lines, kind "rule:SInt:signed"), covered by the
    #     correspondence and by (b); what stays here is the denotation oracle on the results already computed (no special
    #     request stream): `frame_dig -k` is FrameDig with offset -k and prints as written
    nneg = 0
    for k, (text, ver, kind) in enumerate(ls):
        if kind != "rule:SInt:signed":
            continue
        body = text.split("//")[0].split()
        if len(body) != 2 or not body[1].startswith("-") or not body[1][1:].isdigit() or body[1][1] == "0":
            continue
        y = i1.get(f"l{k}")
        nneg += 1
        cls = {"frame_dig": "FrameDig", "frame_bury": "FrameBury"}[body[0]]
        st = f"{body[0]} {body[1]}"
        if not isinstance(y, dict) or y.get("cls") != cls or y.get("str") != st:
            ctx["violations"].append((f"`{text.strip()}` (signed frame offset, valid TEAL v8) should parse to {cls} printing `{st}`; got {y}",
                                      {"kind": "signed-frame-immediate", "line": text, "version": ver}))
            break
    ctx["cov"]["signed_frame_immediate_cases"] = nneg
    ctx["cov"]["spelling_twin_cases"] = nspell
    ctx["cov"]["roundtrip_cases"] = nrt
    ctx["cov"]["byte_constant_denotation_cases"] = nden


LINE_EXTRA["C16"] = c16_extra

def strs(x):
    if isinstance(x, list):
        return [strs(y) for y in x]
    if isinstance(x, dict):
        return {str(k): strs(v) for k, v in x.items()}
    return str(x)


def cmp_function(a, b):
    d = []
    if "err" in a or "err" in b or "analysis_err" in a:
        ea = ("err" in a) or ("analysis_err" in a)
        if ea != ("err" in b):
            d.append(f"error status differs: model={str(a)[:200]} impl={str(b)[:200]}")
        return d
    if sorted(strs(a["fn_blocks"])) != sorted(strs(b["fn_blocks"])):
        d.append(f"function blocks: model={a['fn_blocks']} impl={b['fn_blocks']}")
        return d
    ea, eb = strs(a["edges"]), strs(b["edges"])
    for k in eb:
        if ea[k]["next"] != eb[k]["next"]:
            d.append(f"block {k} next: model={ea[k]['next']} impl={eb[k]['next']}")
        if sorted(ea[k]["prev"]) != sorted(eb[k]["prev"]):
            d.append(f"block {k} prev: model={ea[k]['prev']} impl={eb[k]['prev']}")
    for k in b["ctx"]:
        if a["ctx"].get(k) != b["ctx"][k]:
            ks = [x for x in set(a["ctx"].get(k, {})) | set(b["ctx"][k]) if a["ctx"].get(k, {}).get(x) != b["ctx"][k].get(x)]
            d.append(f"ctx block {k} {ks[:3]}: model={[a['ctx'].get(k, {}).get(x) for x in ks[:3]]} impl={[b['ctx'][k].get(x) for x in ks[:3]]}")
    if strs(a["paths"]) != strs(corr.norm_err(b["paths"]) if isinstance(b["paths"], dict) and "err" in b["paths"] else b["paths"]):
        for det in b["paths"]:
            if strs(a["paths"].get(det)) != strs(b["paths"][det]):
                d.append(f"paths {det}: model={a['paths'].get(det)} impl={b['paths'][det]}")
                break
    return d


def dispatch_paths(cfg, rng, maxn=5, maxlen=4):
    """root-to-block prefixes of the main graph (simple)"""
    nxt = {b["idx"]: b["next"] for b in cfg["blocks"]}
    main = set(cfg["main"]["blocks"])
    out = [[0]]
    frontier = [[0]]
    for _ in range(maxlen - 1):
        nf = []
        for p in frontier:
            for s in nxt.get(p[-1], []):
                if s in main and s not in p:
                    nf.append(p + [s])
        frontier = nf
        out += nf
    if len(out) > maxn:
        out = [out[0]] + rng.sample(out[1:], maxn - 1)
    return out


def c12_directed():
    """dispatchers whose rejected branch target is ALSO reached from a later block of the function body"""
    out = []
    for chk in (["global GroupSize", "int 2", "=="], ["txn Fee", "int 1000", "<="], ["txn RekeyTo", "global ZeroAddress", "=="], ["txn GroupIndex", "int 0", "=="]):
        for br in ("bnz", "bz"):
            neg = [] if br == "bnz" else ["!"]
            out.append("\n".join(["#pragma version 6", "txn NumAppArgs", "int 0", "=="] + neg + [f"{br} done"] + chk + neg + [f"{br} done", "int 0", "return", "done:", "int 1", "return"]))
            out.append("\n".join(["#pragma version 6", "txn NumAppArgs", "int 0", "=="] + neg + [f"{br} done", "txn NumAppArgs", "int 1", "=="] + neg + [f"{br} second", "err", "second:"] + chk + ["assert", "b done", "done:", "int 1", "return"]))
            # a path block with an edge to a LATER path block that is not its direct successor (if-without-else skip edge), and a
            # back edge onto a path block
            out.append("\n".join(["#pragma version 6", "txn NumAppArgs", "int 0", "=="] + neg + [f"{br} skip", "int 7", "pop", "skip:"] + chk + ["pop", "int 1", "return"]))
            out.append("\n".join(["#pragma version 6", "top:", "txn NumAppArgs", "int 0", "=="] + neg + [f"{br} body", "int 1", "return", "body:"] + chk + [f"{br} top", "int 1", "return"]))
            # shortcut over a then-block inside the function body
            out.append("\n".join(["#pragma version 6", "txn NumAppArgs", "int 0", "=="] + neg + [f"{br} other", "txn NumAppArgs", "int 1", "=="] + neg + [f"{br} skip"] + chk + ["assert", "skip:", "int 1", "return", "other:", "int 1", "return"]))
    # a router with more than two successors (switch / match), unchecked handlers
    for router in (["txn NumAppArgs", "switch h0 h1 h2"], ["int 0", "int 1", "int 2", "txn NumAppArgs", "match h0 h1 h2"]):
        out.append("\n".join(["#pragma version 8"] + router + ["err", "h0:", "int 1", "return", "h1:", "txn Fee", "int 1000", "<=", "assert", "int 1", "return", "h2:", "int 1", "return"]))
        out.append("\n".join(["#pragma version 8", "int 1", "pop"] + router + ["int 1", "return", "h0:", "int 1", "return", "h1:", "int 1", "return", "h2:", "txn RekeyTo", "global ZeroAddress", "==", "return"]))
    return out


def run_c12(ctx):
    cov = ctx["cov"]
    rng = ctx["rng"]
    nprog = 120 if ctx["tier"] == "quick" else 1200
    progs = [(n, t) for n, t in gen.adversarial_programs()]
    for k in range(nprog):
        t, _ = gen.random_program(rng)
        progs.append((f"rand{k}", t))
    # kf-free random programs and directed dispatchers (a join block shared by a rejected dispatcher branch and the function
    # body; a shortcut edge over a then-block): on these the semantic clause of C12 is decided by the interpreter oracle
    oracle_ok = set()
    for k in range(nprog // 2):
        t, _ = gen.random_program(rng, kf_free=True)
        progs.append((f"kf{k}", t))
        oracle_ok.add(f"kf{k}")
    for k, t in enumerate(c12_directed()):
        progs.append((f"dir{k}", t))
        oracle_ok.add(f"dir{k}")
    creqs = [("cfg", f"c{n}", t, []) for n, (_, t) in enumerate(progs)]
    cm, _ci = corr.run_both(creqs)
    ci_by_text = {t: _ci[f"c{n}"] for n, (_, t) in enumerate(progs)}
    reqs = []
    meta = {}
    for n, (name, t) in enumerate(progs):
        c = cm[f"c{n}"]
        if "blocks" not in c or c.get("structured") is False:
            continue
        for path in dispatch_paths(c, rng):
            rid = f"f{len(reqs)}"
            reqs.append(("function", rid, t, path))
            meta[rid] = (name, t, path)
    m, i = corr.run_both(reqs)
    _, i2 = corr.run_both(reqs, impl_env={"VERIF_OTHER_FUNCTIONS_FIRST": "1"})
    nd = 0
    long_paths = 0
    c12_facts = {"on_path": 0, "facts": 0}
    for kind, rid, t, path in reqs:
        a, b = m[rid], i[rid]
        if len(path) > 1:
            long_paths += 1
        d = cmp_function(a, b)
        if not d and "ctx" in b:
            if b.get("contract_graph_unchanged") is not True:
                ctx["violations"].append((f"{meta[rid][0]} path {path}: building the function altered the contract's own graph", {"kind": "graph-altered", "program": t, "dispatch_path": path}))
            b2 = i2[rid]
            if b2.get("ctx") != b.get("ctx") or b2.get("paths") != b.get("paths") or b2.get("edges") != b.get("edges"):
                ctx["violations"].append((f"{meta[rid][0]} path {path}: result depends on which other functions were built first", {"kind": "function-interference", "program": t, "dispatch_path": path}))
        if d:
            nd += 1
            if nd <= 3:
                ctx["broken"].append(f"correspondence (function for dispatch path {path}) on {meta[rid][0]}: {d[0][:300]} || program: {t!r}")
        # independent reading of the function the implementation built: (i) successor and predecessor lists mirror each other,
        # (ii) its contexts admit every approved execution of the contract whose block sequence starts with the dispatch path
        if isinstance(b, dict) and "edges" in b and len(ctx["violations"]) < 3:
            ed = b["edges"]
            real = lambda z: int(z) < 65536   # error blocks (id = (k<<16)+k of the block they replace) can share an id when two path blocks are cut from the same successor: the dump by id is not injective on them
            dup_ids = len(set(b.get("fn_blocks", []))) != len(b.get("fn_blocks", []))   # e.g. the error block replacing block 0 has id 0
            for x, e in ([] if dup_ids else ed.items()):
                if not real(x):
                    continue
                bad = [y for y in e["next"] if real(y) and y in ed and x not in ed[y]["prev"]] + [y for y in e["prev"] if real(y) and y in ed and x not in ed[y]["next"]]
                if bad:
                    ctx["violations"].append((f"{meta[rid][0]} path {path}: in the function's graph block {x} and block {bad[0]} disagree about the edge between them (next {e['next']} / prev {e['prev']}; {bad[0]}: next {ed[bad[0]]['next']} / prev {ed[bad[0]]['prev']})",
                                              {"kind": "function-graph-mirror", "program": t, "dispatch_path": path}))
                    break
            # (iii) every path a detector reports for the function starts with the dispatch path: every departure before Bk
            #       leads to an error block, which rejects
            cib = ci_by_text.get(t) or {}
            sub_blocks = {str(x) for sb in cib.get("subs", []) for x in sb["blocks"]}
            for det, ps in (b.get("paths") or {}).items():
                # the dispatch path is a walk in the MAIN graph (a callsub block is followed by its return point); a reported path
                # also lists the blocks of the subroutines it passes through: those are dropped before comparing
                main_part = lambda pp: [str(x) for x in pp if str(x) not in sub_blocks]
                # (a path may end inside a subroutine that terminates the program before the walk reaches Bk: then its main part
                # is a proper prefix of the dispatch path)
                off = [pp for pp in ps if isinstance(pp, list) and main_part(pp)[:len(path)] != [str(x) for x in path][:len(main_part(pp))]] if isinstance(ps, list) else []
                if off:
                    ctx["violations"].append((f"{meta[rid][0]} path {path}: {det} reports the path {off[0]} for this function, which does not start with the dispatch path",
                                              {"kind": "function-path-off-dispatch", "program": t, "dispatch_path": path, "detector": det}))
                    break
            ci = ci_by_text.get(t)
            if meta[rid][0] in oracle_ok and "ctx" in b and isinstance(ci, dict) and "blocks" in ci:
                envs = oracle.make_envs(t, rng, 16 if ctx["tier"] == "quick" else 60)
                v, st = oracle.check_program(t, {"blocks": ci["blocks"], "ctx": b["ctx"]}, envs, path_prefix=[int(x) for x in path])
                c12_facts["on_path"] += st.get("on_path", 0)
                c12_facts["facts"] += st["facts"]
                v = [x for x in v if x["property"] in ("C06", "C07", "C08", "C09", "C10")]
                if v:
                    ctx["violations"].append((f"{meta[rid][0]} path {path}: {v[0]['what']} (an approved execution of the contract that starts with the dispatch path)",
                                              {"kind": "function-context-unsound", "program": t, "dispatch_path": path, "env": v[0]["env"], "trace_blocks": v[0]["trace_blocks"]}))
    cov["function_oracle"] = c12_facts
    cov["traces_validated_against_impl"] = len(reqs)
    cov["evaluations"] = len(reqs)
    cov["distinct_nontrivial"] = long_paths
    # known findings of the function construction are replayed on the implementation
    for f in ctx["known"].get("findings", []):
        if "C12" in f["properties"] and "dispatch_path" in f:
            _, ii = corr.run_both([("function", "k", f["program"], f["dispatch_path"])], shards=1)
            got = ii["k"].get("paths", {}).get(f["detector"])
            if f.get("expect_reported") and got == []:
                ctx["known_lines"].append(f"KNOWN-FINDING: property=C12 {f['id']}: {f['title']} (path {f['dispatch_path']}: {f['detector']} reports nothing although the execution 0 1 3 1 2 of the contract starts with the path and approves any RekeyTo)")
            else:
                cov.setdefault("known_findings_no_longer_reproduced", []).append(f["id"])
    cov["rule"] = "(program, dispatch path) pairs: every root-to-block prefix (length <= 4, sampled to 5 per program) of the main graph of adversarial + random programs; non-trivial = path longer than [B0]"
    cov["disagreements"] = nd


def gen_group(rng):
    """a group configuration in the driver's text format"""
    ncon = rng.choice([1, 1, 2])
    lines = []
    funcs = []  # (global index, stateful?)
    for c in range(ncon):
        t, _ = gen.random_program(rng, kf_free=True)
        stateful = rng.random() < 0.5
        if stateful:
            tl = t.split("\n")
            tl.insert(1 if tl[0].startswith("#pragma") else 0, "int 0\nbalance\npop")
            t = "\n".join(tl)
        tl = t.split("\n")
        nf = rng.choice([1, 1, 2])
        lines.append(f"C {nf} {len(tl)}")
        lines += tl
        for _ in range(nf):
            lines.append("P 0")
            funcs.append((len(funcs), stateful))
    ntx = rng.choice([1, 2, 2, 3])
    ids = [f"T{k}" for k in range(ntx)]
    absidx = rng.sample(range(0, 4), ntx)
    for k in range(ntx):
        ty = rng.choice(["Pay", "Axfer", "Appl", "Any", "KeyReg"])
        ls = app = "-"
        hl = "0"
        cand_ls = [g for g, st in funcs if not st]
        cand_app = [g for g, st in funcs if st]
        if cand_ls and rng.random() < 0.6:
            ls = str(rng.choice(cand_ls))
            hl = "1"
        elif rng.random() < 0.2:
            hl = "1"
        if cand_app and rng.random() < 0.5:
            app = str(rng.choice(cand_app))
        ab = str(absidx[k]) if rng.random() < 0.6 else "-"
        rel = []
        for o in range(ntx):
            if o != k and rng.random() < 0.4:
                rel.append(f"{rng.choice([-2, -1, 1, 2, 3])}={ids[o]}")
        if rel and rng.random() < 0.3:
            # the file format allows one id to be listed twice (the later offset wins) and one offset twice (the later id wins)
            rel.append(f"{rng.choice([-2, -1, 1, 2, 3])}={rng.choice(rel).split('=')[1]}")
        lines.append(f"T {ids[k]} {ty} {hl} {ls} {app} {ab} {','.join(rel) if rel else '-'}")
    return "\n".join(lines)


def gen_group_directed(rng):
    """group configurations in which members really read each other: every transaction runs its own small logic-sig
    that is trivial, checks its own field, or checks ANOTHER member's field through the configured absolute index or
    relative offset (consistent with one hidden assignment of positions); absolute indices are often omitted"""
    ntx = rng.choice([2, 2, 3, 3, 4])
    pos = rng.sample(range(0, 6), ntx)
    ids = [f"T{k}" for k in range(ntx)]
    fld, ty = rng.choice([("RekeyTo", "Any"), ("RekeyTo", "Pay"), ("CloseRemainderTo", "Pay"), ("AssetCloseTo", "Axfer"), ("Fee", "Any"), ("Fee", "Pay")])
    check = ["int 1000", "<="] if fld == "Fee" else ["global ZeroAddress", "=="]
    lines, tl, progs = [], [], []
    routes = []      # (target member, "self" | "rel" | ("abs", reader)) : an unconditional check of the target's field on the
                     # reader's only accepting exit, through a route that the configuration lists ("abs": iff the target's
                     # absolute index is configured -- decided after the loop)
    has_abs = {}
    for k in range(ntx):
        kind = rng.choice(["trivial", "trivial", "self", "rel", "rel", "abs", "random", "self-sub", "rel-sub", "abs-sub"])
        others = [o for o in range(ntx) if o != k]
        o = rng.choice(others)
        rel = []
        if kind == "self":
            routes.append((k, "self"))
        if kind == "trivial":
            prog = ["#pragma version 6", "int 1", "return"]
        elif kind == "self":
            prog = ["#pragma version 6", f"txn {fld}"] + check + ["assert", "int 1", "return"]
        elif kind == "rel":
            off = pos[o] - pos[k]
            prog = ["#pragma version 6", "txn GroupIndex", f"int {abs(off)}", "+" if off >= 0 else "-", f"gtxns {fld}"] + check + ["assert", "int 1", "return"]
            if rng.random() < 0.85:
                rel.append(f"{off}={ids[o]}")
                routes.append((o, "rel"))
        elif kind == "abs":
            prog = ["#pragma version 6", f"gtxn {pos[o]} {fld}"] + check + ["assert", "int 1", "return"]
            routes.append((o, "abs"))
        elif kind in ("self-sub", "rel-sub", "abs-sub"):
            # the check sits on the main exit, but a subroutine entered when Amount == 5 approves without any check
            if kind == "self-sub":
                read = [f"txn {fld}"]
            elif kind == "rel-sub":
                off = pos[o] - pos[k]
                read = ["txn GroupIndex", f"int {abs(off)}", "+" if off >= 0 else "-", f"gtxns {fld}"]
                if rng.random() < 0.85:
                    rel.append(f"{off}={ids[o]}")
            else:
                read = [f"gtxn {pos[o]} {fld}"]
            prog = ["#pragma version 6", "txn Amount", "int 5", "==", "bz checked", "callsub approve", "err", "checked:"] + read + check + ["assert", "int 1", "return", "approve:", "int 1", "return"]
        else:
            prog = gen.random_program(rng, kf_free=True)[0].split("\n")
        for o2 in others:
            if rng.random() < 0.15:
                rel.append(f"{pos[o2] - pos[k]}={ids[o2]}")
        lines.append(f"C 1 {len(prog)}")
        lines += prog
        lines.append("P 0")
        ab = str(pos[k]) if rng.random() < 0.5 else "-"
        has_abs[k] = ab != "-"
        tl.append(f"T {ids[k]} {rng.choice([ty, ty, 'Any'])} 1 {k} - {ab} {','.join(rel) if rel else '-'}")
        progs.append("\n".join(prog))
    order = list(range(ntx))
    rng.shuffle(order)
    cleared = sorted({ids[t] for t, r in routes if r != "abs" or has_abs[t]})
    DIRECTED_META["\n".join(lines + [tl[k] for k in order])] = {"pos": pos, "ids": ids, "field": fld, "type": ty, "programs": progs, "cleared": cleared}
    return "\n".join(lines + [tl[k] for k in order])


DIRECTED_META = {}
FIELD_DETECTOR = {"RekeyTo": "rekey-to", "CloseRemainderTo": "can-close-account", "AssetCloseTo": "can-close-asset", "Fee": "missing-fee-check"}


def group_semantics_oracle(meta, verdict):
    """first half of C13 on a directed configuration: enumerate which members carry the dangerous value, run every
    member's logic-sig with the independent interpreter on the concrete group (positions = the hidden assignment, which
    satisfies every configured absolute index and offset); if all approve, every member carrying the dangerous value
    must be in the detector's verdict.  Returns a list of (message, concrete group)"""
    import itertools
    import avm
    pos, ids, fld, ty, progs = meta["pos"], meta["ids"], meta["field"], meta["type"], meta["programs"]
    det = FIELD_DETECTOR[fld]
    # known finding D16 (flat kind-label set): a comparison of TypeEnum / OnCompletion / ApplicationID can drop the Pay / Axfer
    # label, which silences the two type-dependent detectors; such member programs are outside this oracle
    if fld in ("CloseRemainderTo", "AssetCloseTo") and any(re.search(r"\b(TypeEnum|OnCompletion|ApplicationID)\b", t) for t in progs):
        return []
    size = max(pos) + 1
    tenum = {"CloseRemainderTo": 1, "AssetCloseTo": 4}.get(fld, 1 if ty in ("Pay", "Any") else 4)
    out = []
    # second half of C13 (by construction of the directed configuration): a member whose field is checked unconditionally on
    # the only accepting exit of its own logic-sig, or of another member's logic-sig that reads it through a CONFIGURED
    # offset / absolute index, is cleared
    for tid in meta.get("cleared", []):
        if tid in verdict.get(det, []):
            out.append((f"{tid} is reported by {det} although its {fld} is checked at every accepting exit by its own logic-sig or by a member reading it through the configured offset / absolute index (reported: {verdict.get(det)})",
                        {"positions": dict(zip(ids, pos)), "cleared_by_construction": meta.get("cleared"), "field": fld}))
            return out
    try:
        parsed = [avm.Program(t) for t in progs]
    except Exception:  # pylint: disable=broad-except
        return out
    amounts = [tuple(0 for _ in pos)]
    if any("txn Amount" in t for t in progs):
        amounts = list(itertools.product([0, 5], repeat=len(pos)))
    for mask, amt in itertools.product(itertools.product([False, True], repeat=len(pos)), amounts):
        if not any(mask):
            continue
        group = []
        for i in range(size):
            txn = {"_index": i, "Fee": 1000, "TypeEnum": tenum, "OnCompletion": 0, "ApplicationID": 0, "Amount": 0, "NumAppArgs": 0,
                   "FirstValid": 1, "LastValid": 10, "Sender": ("addr", "S"), "Receiver": ("addr", "R")}
            for f in ("RekeyTo", "CloseRemainderTo", "AssetCloseTo"):
                txn[f] = ("addr", avm.ZERO)
            group.append(txn)
        for k, dangerous in enumerate(mask):
            if dangerous:
                group[pos[k]][fld] = 272001 if fld == "Fee" else ("addr", "FRESHADDR")
            group[pos[k]]["Amount"] = amt[k]
        ok = True
        for k, prog in enumerate(parsed):
            try:
                approved, _ = avm.run(prog, {"group": group, "index": pos[k], "creator": "CREATOR"})
            except avm.Unsupported:
                ok = False
                break
            if not approved:
                ok = False
                break
        if not ok:
            continue
        for k, dangerous in enumerate(mask):
            if dangerous and ids[k] not in verdict.get(det, []):
                out.append((f"group approved by every member's logic-sig while {ids[k]} (position {pos[k]}) carries the dangerous {fld}, but {det} does not report {ids[k]} (reported: {verdict.get(det)})",
                            {"positions": dict(zip(ids, pos)), "dangerous": [ids[j] for j, d in enumerate(mask) if d], "field": fld}))
                return out
    return out


def directed_group_fixed():
    """deterministic directed configurations (independent of the PRNG): for each governed field, the shapes that matter --
    two members referring to the same target through offsets (validating one listed first / last), a chain, an absolute
    reader, a reader whose approving exit sits in a subroutine -- each in every listing order"""
    import itertools
    out = []

    def emit(fld, ty, members, order):
        # members: list of (program lines, abs or None, [(off, target index)]); positions are 0..n-1 in member order
        check = ["int 1000", "<="] if fld == "Fee" else ["global ZeroAddress", "=="]
        lines, tl, progs = [], [], []
        ids = [f"T{k}" for k in range(len(members))]
        for k, (kind, ab, rels) in enumerate(members):
            if kind == "trivial":
                prog = ["#pragma version 6", "int 1", "return"]
            elif kind[0] == "rel":
                off = kind[1]
                prog = ["#pragma version 6", "txn GroupIndex", f"int {abs(off)}", "+" if off >= 0 else "-", f"gtxns {fld}"] + check + ["assert", "int 1", "return"]
            elif kind[0] == "relnocheck":
                off = kind[1]
                prog = ["#pragma version 6", "txn GroupIndex", f"int {abs(off)}", "+" if off >= 0 else "-", f"gtxns {fld}", "pop", "int 1", "return"]
            elif kind[0] == "abs":
                prog = ["#pragma version 6", f"gtxn {kind[1]} {fld}"] + check + ["assert", "int 1", "return"]
            elif kind[0] == "relsub":
                off = kind[1]
                prog = ["#pragma version 6", "txn Amount", "int 5", "==", "bz checked", "callsub approve", "err", "checked:", "txn GroupIndex", f"int {abs(off)}", "+" if off >= 0 else "-", f"gtxns {fld}"] + check + ["assert", "int 1", "return", "approve:", "int 1", "return"]
            else:
                prog = ["#pragma version 6", f"txn {fld}"] + check + ["assert", "int 1", "return"]
            lines.append(f"C 1 {len(prog)}")
            lines += prog
            lines.append("P 0")
            progs.append("\n".join(prog))
            rel = ",".join(f"{off}={ids[t]}" for off, t in rels) if rels else "-"
            tl.append(f"T {ids[k]} {ty} 1 {k} - {ab if ab is not None else '-'} {rel}")
        text = "\n".join(lines + [tl[k] for k in order])
        cleared = set()
        for k, (kind, ab, rels) in enumerate(members):
            if kind == "trivial" or kind[0] in ("relnocheck", "relsub"):
                continue
            if kind[0] == "rel":
                cleared |= {ids[t] for off, t in rels if off == kind[1]}
            elif kind[0] == "abs":
                cleared |= {ids[t] for t, (_k2, ab2, _r2) in enumerate(members) if ab2 == kind[1]}
            else:
                cleared.add(ids[k])
        DIRECTED_META[text] = {"pos": list(range(len(members))), "ids": ids, "field": fld, "type": ty, "programs": progs, "cleared": sorted(cleared)}
        out.append(text)

    for fld, ty in (("RekeyTo", "Any"), ("CloseRemainderTo", "Pay"), ("AssetCloseTo", "Axfer"), ("Fee", "Any")):
        shapes = [
            # T0 target; T1 validates T0 at offset -1; T2 also refers to T0 (offset -2) without validating
            [("trivial", None, []), (("rel", -1), None, [(-1, 0)]), (("relnocheck", -2), None, [(-2, 0)])],
            # chain: T1 validates T0, T2 validates T1
            [("trivial", None, []), (("rel", -1), None, [(-1, 0)]), (("rel", -1), None, [(-1, 1)])],
            # absolute reader of T0 (configured index), T2 unguarded
            [("trivial", 0, []), (("abs", 0), 1, []), ("trivial", None, [])],
            # reader that approves inside a subroutine without checking
            [("trivial", None, []), (("relsub", -1), None, [(-1, 0)])],
            # T1 guards T2 at +1, T0 unguarded, nobody has an absolute index
            [("trivial", None, []), (("rel", 1), None, [(1, 2)]), ("trivial", None, [])],
            # target and reader BOTH carry an absolute index and the offset between them is configured as well
            [("trivial", 0, []), (("rel", -1), 1, [(-1, 0)])],
            [("trivial", 0, []), ("trivial", 1, []), (("rel", -2), 2, [(-2, 0)])],
        ]
        for members in shapes:
            for order in itertools.permutations(range(len(members))):
                emit(fld, ty, members, list(order))
    return out


def run_c13(ctx):
    cov = ctx["cov"]
    rng = ctx["rng"]
    n = 150 if ctx["tier"] == "quick" else 1500
    reqs = [("group", f"g{k}", gen_group(rng) if k % 3 == 0 else gen_group_directed(rng), []) for k in range(n)]
    rp = replay_payload(ctx)
    if rp.get("config"):
        reqs.insert(0, ("group", "replay", rp["config"], []))
        if rp.get("meta"):
            DIRECTED_META[rp["config"]] = rp["meta"]
    fixed = directed_group_fixed()
    if ctx["tier"] == "quick":
        fixed = fixed[::2] + fixed[1::8]     # every second configuration (all shapes, both kinds of order) in the quick tier
    reqs += [("group", f"f{k}", t, []) for k, t in enumerate(fixed)]
    m, i = corr.run_both(reqs)
    nd = 0
    nvuln = 0
    nsem = 0
    for kind, rid, t, _ in reqs:
        a, b = m[rid], i[rid]
        if "err" in a or "err" in b:
            if ("err" in a) != ("err" in b):
                nd += 1
                if nd <= 3:
                    ctx["broken"].append(f"correspondence (group verdict): model={str(a)[:200]} impl={str(b)[:200]} config={t!r}")
            continue
        if any(b[d] for d in b):
            nvuln += 1
        if t in DIRECTED_META:
            nsem += 1
            for msg, grp in group_semantics_oracle(DIRECTED_META[t], b)[:1]:
                ctx["violations"].append((msg, {"kind": "group-semantics", "config": t, "concrete_group": grp, "meta": DIRECTED_META[t]}))
        for d in b:
            if sorted(a.get(d, [])) != sorted(b[d]):
                nd += 1
                if nd <= 3:
                    ctx["broken"].append(f"correspondence (group verdict) detector {d}: model={a.get(d)} impl={b[d]} config={t!r}")
                break
    # last sentence of C13, the direction that is a theorem (C13_single_contract_path_reported): in a group of ONE transaction
    # running ONE logic-sig, a path reported by the single-contract detector makes the group report the transaction
    # (the converse fails on the implementation: known finding D32)
    singles = []
    for k in range(160 if ctx["tier"] == "quick" else 1600):
        t = gen.random_program(rng, kf_free=True)[0]
        if any(w in t for w in ("app_", "OnCompletion", "ApplicationID")):
            continue
        tl_ = t.split("\n")
        singles.append((t, "\n".join([f"C 1 {len(tl_)}"] + tl_ + ["P 0", "T T Any 1 0 - - -"])))
    sreqs = []
    for k, (t, c) in enumerate(singles):
        sreqs += [("analyze", f"s{k}", t, []), ("group", f"g{k}", c, [])]
    _, si = corr.run_both(sreqs)
    nsingle = 0
    for k, (t, c) in enumerate(singles):
        a, g = si.get(f"s{k}"), si.get(f"g{k}")
        if not isinstance(a, dict) or not isinstance(g, dict) or "paths" not in a or "err" in g:
            continue
        nsingle += 1
        for det in ("rekey-to", "can-close-account", "can-close-asset", "missing-fee-check"):
            if a["paths"].get(det) and isinstance(a["paths"][det], list) and "T" not in g.get(det, []):
                ctx["violations"].append((f"single contract: {det} reports the path {a['paths'][det][0]} but in the group of one transaction running this contract as its logic-sig {det} reports {g.get(det)}",
                                          {"kind": "single-vs-group", "program": t, "config": c, "detector": det}))
                break
    cov["single_contract_vs_one_member_group"] = nsingle
    # known findings about the group verdict: replayed on the implementation
    for f in ctx["known"].get("findings", []):
        if "C13" not in f["properties"] or "group_config" not in f:
            continue
        _, ki = corr.run_both([("group", "k", f["group_config"], []), ("analyze", "s", f["program"], [])], shards=1)
        got_g = ki["k"].get(f["detector"]) if isinstance(ki["k"], dict) else None
        got_s = ki["s"].get("paths", {}).get(f["detector"]) if isinstance(ki["s"], dict) else None
        if got_g == f["expect_group_reported"] and got_s == f["expect_single_paths"]:
            ctx["known_lines"].append(f"KNOWN-FINDING: property=C13 {f['id']}: {f['title']} (one-transaction group: {f['detector']} reports {got_g}; the single-contract detector reports paths {got_s})")
        else:
            cov.setdefault("known_findings_no_longer_reproduced", []).append(f["id"])
    cov["traces_validated_against_impl"] = len(reqs)
    cov["evaluations"] = len(reqs)
    cov["distinct_nontrivial"] = nvuln
    cov["group_semantics_oracle_configs"] = nsem
    cov["rule"] = "group configurations: (a) 1-2 contracts (random fragment programs, stateful or stateless), 1-3 transactions with random types / logic-sig / application / absolute index / relative offsets; (b) directed: 2-4 transactions each with its own logic-sig that is trivial / checks its own field / checks another member through the configured offset or absolute index, absolute indices often omitted, listing order shuffled, checked by the concrete group-semantics oracle; non-trivial = some transaction reported vulnerable"
    cov["disagreements"] = nd


def cli_programs(ctx, n_random):
    rng = ctx["rng"]
    progs = [(n, t) for n, t in gen.adversarial_programs() if n not in ("only-pragma",)]
    for k in range(n_random):
        t, _ = gen.random_program(rng)
        progs.append((f"rand{k}", t))
    return progs


def par_map(fn, items, workers=16):
    from concurrent.futures import ThreadPoolExecutor
    with ThreadPoolExecutor(max_workers=workers) as ex:
        return list(ex.map(fn, items))


def run_c17(ctx):
    """every subcommand / printer / output format finishes without an internal error wherever the model says Ok"""
    import cli
    cov = ctx["cov"]
    progs = cli_programs(ctx, 14 if ctx["tier"] == "quick" else 200)
    reqs = [("analyze", f"p{n}", t, []) for n, (_, t) in enumerate(progs)]
    m, _i = corr.run_both(reqs)
    runs = par_map(lambda nt: cli.full_run(nt[1]), progs)
    ncmd = 0
    nstruct = 0
    for n, ((name, text), r) in enumerate(zip(progs, runs)):
        mm = m[f"p{n}"]
        model_ok = "err" not in mm and "analysis_err" not in mm and mm.get("structured") is not False
        paths_ok = all(isinstance(v, list) for v in mm.get("paths", {}).values()) if model_ok else False
        if not (model_ok and paths_ok):
            continue   # outside the quantifier (not assembler-valid / unstructured / retsub outside a subroutine)
        nstruct += 1
        for cmd, st in r["commands"].items():
            ncmd += 1
            if st["traceback"] or st["rc"] not in (0,):
                ctx["violations"].append((f"{name}: `tealer {cmd}` ended with rc={st['rc']} {'with a traceback' if st['traceback'] else ''}: {st['stderr_tail'][-200:]!r}",
                                          {"kind": "cli-internal-error", "program": text, "command": cmd}))
    cov["traces_validated_against_impl"] = ncmd
    cov["evaluations"] = ncmd
    cov["distinct_nontrivial"] = nstruct
    cov["rule"] = "CLI invocations (detect text/JSON/filter, 5 printers) x programs (adversarial layouts + random) for which the model completes without exception; non-trivial = structured program"


# ----------------------------------------------------------------------------- C18: row texts of the node labels
# independent reading of Model/Rows.v (esc, mark, strip of the source line, comments_between); NOT html.escape
ROWS_DIRECTED = (
    '#pragma version 6\n// call <the> "routine" & more\n  callsub sub1\nint 1  // <ok> & \'fine\'\nbyte "a<b>&c"\npop\n'
    "// two comment\n\n// lines > one\ntxn ApplicationID\npop\nreturn\nsub1:\n  retsub"
)


def rows_esc(s):
    table = {"&": "&amp;", "<": "&lt;", ">": "&gt;", '"': "&quot;", "'": "&#x27;"}
    return "".join(table.get(c, c) for c in s)


def expected_label_rows(text, blocks):
    """per block idx: [(line, raw text html, raw html of the source comments before)] as Model/Rows.block_rows renders"""
    src = text.split("\n")
    order = sorted((ln, b["idx"], k) for b in blocks for k, ln in enumerate(b["lines"]))
    all_lines = sorted(ln for b in blocks for ln in b["lines"])
    out = {}
    for b in blocks:
        rows = []
        for ln, ins in zip(b["lines"], b["ins"]):
            t = rows_esc(src[ln - 1].strip())
            if ins.split()[0] in ("callsub", "retsub"):
                t = "<B><I>" + t + "</I></B>"
            rows.append((ln, t))
        out[b["idx"]] = rows
    del order, all_lines
    return out


def check_label_rows(what, dot_text, text, blocks, bad, only=None):
    import cli
    cells = cli.parse_dot_cells(dot_text)
    exp = expected_label_rows(text, blocks)
    src = text.split("\n")
    n = 0
    for b in blocks:
        if only is not None and b["idx"] not in only:
            continue
        node = cells.get(b["idx"])
        n += 1
        if node is None:
            bad(f"{what}: no label for block {b['idx']}")
            return n
        if node["junk"] or node["head"] is None:
            bad(f"{what}: block {b['idx']}: label is not header cell + instruction rows: {node['junk'][:2]}")
            return n
        got = [(ln, t) for _, _, ln, t in node["rows"]]
        if got != exp[b["idx"]]:
            bad(f"{what}: block {b['idx']} shows rows {got}, Model/Rows.block_rows gives {exp[b['idx']]}")
            return n
        if node["head"][0] != b["lines"][0] or not node["head"][2].startswith(f"// block_id = {b['idx']}; cost = "):
            bad(f"{what}: block {b['idx']}: header {node['head']}, expected PORT {b['lines'][0]} and the block_id comment first")
            return n
        for (colour, pre, ln, _), ins in zip(node["rows"], b["ins"]):
            # source comments shown in the row: exactly the comment lines directly accumulated before this instruction
            k = ln - 2
            cs = []
            while k >= 0 and (src[k].strip().startswith("//") or not src[k].strip()):
                if src[k].strip().startswith("//"):
                    cs.insert(0, rows_esc(src[k].strip()))
                k -= 1
            before = "<BR/>".join(cs) + "<BR/>" if cs else ""
            tealer = "<B>// ApplicationID is 0 in Creation Txn</B><BR/>" if ins == "txn ApplicationID" else None
            ok = pre.endswith(before) and (pre[: len(pre) - len(before)] == tealer if tealer is not None else
                                           (pre[: len(pre) - len(before)] == "" or ins.split()[0] == "method"))
            if not ok or colour != "BLACK":
                bad(f"{what}: block {b['idx']} line {ln}: comments part {pre!r} (colour {colour}), expected {tealer or ''!r} + {before!r}")
                return n
    return n


def run_c18(ctx):
    """exported DOT files / JSON read back and compared with the model's graph and paths"""
    import cli
    cov = ctx["cov"]
    rng = ctx["rng"]
    progs = cli_programs(ctx, 14 if ctx["tier"] == "quick" else 200)
    progs = list(progs) + [("rows-directed", ROWS_DIRECTED)]   # characters html.escape rewrites, comments, callsub / retsub
    reqs = [("analyze", f"p{n}", t, []) for n, (_, t) in enumerate(progs)]
    m, _i = corr.run_both(reqs)
    # the filter pattern is derived from the internal result (model) so that every kind of outcome is exercised
    # deterministically: all paths match / two ADJACENT listed paths match / exactly one matches / none matches
    def choose_filter(n):
        mm = m.get(f"p{n}", {})
        lists = [v for v in mm.get("paths", {}).values() if isinstance(v, list) and v] if isinstance(mm.get("paths"), dict) else []
        longest = max(lists, key=len) if lists else []
        shorts = [" -> ".join(map(str, p)) for p in longest]
        mode = n % 5
        if mode == 0 or not shorts:
            return "^0"                                   # every path starts at block 0
        if mode == 1 and len(shorts) >= 2:
            a, b = shorts[0].split(" -> "), shorts[1].split(" -> ")
            k = 0
            while k < min(len(a), len(b)) and a[k] == b[k]:
                k += 1
            return "^" + " -> ".join(a[:max(1, k)]) + "( |$)"   # common prefix of the first two listed paths
        if mode == 2:
            return re.escape(shorts[-1]) + "$"             # exactly the last path
        if mode == 3:
            return " -> " + shorts[0].split(" -> ")[-1] + "$"   # paths ending in the first path's last block
        return "-> 9999"                                    # nothing matches
    filt = [choose_filter(n) for n in range(len(progs))]
    runs = par_map(lambda k: cli.full_run(progs[k][1], filter_regex=filt[k]), list(range(len(progs))))
    nfacts = 0
    nprog = 0
    for n, ((name, text), r) in enumerate(zip(progs, runs)):
        mm = m[f"p{n}"]
        if "err" in mm or "analysis_err" in mm or mm.get("structured") is False or not all(isinstance(v, list) for v in mm.get("paths", {}).values()):
            continue
        nprog += 1

        def bad(msg, **kw):
            ctx["violations"].append((f"{name}: {msg}", dict({"kind": "export-mismatch", "program": text}, **kw)))

        js = r.get("json")
        if js is None:
            bad("JSON output could not be parsed")
            continue
        if js.get("success") is not True or js.get("error") is not None:
            bad(f"JSON success={js.get('success')} error={js.get('error')} on a run without error")
        for res in js["result"]:
            det = res["check"]
            if res.get("type") != "ExecutionPaths" or det not in mm["paths"]:
                continue
            exp = [" -> ".join(map(str, p)) for p in mm["paths"].get(det, [])]
            got = [p["short"] for p in res["paths"]]
            nfacts += 3
            if res["count"] != len(res["paths"]):
                bad(f"JSON count {res['count']} != number of listed paths {len(res['paths'])} for {det}")
            if got != exp:
                bad(f"JSON paths of {det} = {got}, internal result = {exp}")
            blocks = {b["idx"]: b for b in mm["blocks"]}
            for p, pj in zip(mm["paths"].get(det, []), res["paths"]):
                expb = [[f"{ln}: {ins}" for ln, ins in zip(blocks[b]["lines"], blocks[b]["ins"])] for b in p if b in blocks]
                if pj["blocks"] != expb:
                    bad(f"JSON per-block instruction lists of path {pj['short']} ({det}) differ from the blocks")
                    break
            jf = r.get("json_filtered")
            if jf is not None:
                rf = [x for x in jf["result"] if x["check"] == det]
                keep = [s for s in exp if re.search(filt[n], s) is None]
                gotf = [p["short"] for p in rf[0]["paths"]] if rf else None
                nfacts += 1
                if gotf != keep:
                    bad(f"--filter-paths {filt[n]!r} on {det}: got {gotf}, expected {keep}")
        # text mode lists the same paths; path DOT files mark exactly the path
        for key, dot in r.get("path_dots", {}).items():
            det, fn = key.split("/")
            k = int(re.search(r"-(\d+)\.dot$", fn).group(1))
            ps = mm["paths"].get(det, [])
            if k - 1 >= len(ps):
                bad(f"{key}: no such path in the internal result")
                continue
            red = sorted(nid for nid, v in dot["nodes"].items() if v["color"] == "RED")
            nfacts += 2
            if red != sorted(set(ps[k - 1])):
                bad(f"{key}: marked blocks {red}, path blocks {sorted(set(ps[k - 1]))}")
            if sorted(dot["nodes"]) != sorted(b["idx"] for b in mm["blocks"]):
                bad(f"{key}: nodes {sorted(dot['nodes'])} differ from the blocks")
            if dot["edges"] != sorted(set(tuple(e) for e in mm["dot_path_edges"])):
                bad(f"{key}: edges {dot['edges']} differ from the global graph {sorted(set(tuple(e) for e in mm['dot_path_edges']))}")
        # cfg printer
        cfgdot = [v for k, v in r.get("printer_files", {}).items() if k.endswith("full_cfg.dot")]
        if cfgdot:
            d = cli.parse_dot(cfgdot[0])
            nfacts += 3
            if sorted(d["nodes"]) != sorted(b["idx"] for b in mm["blocks"]):
                bad(f"cfg DOT nodes {sorted(d['nodes'])} differ from blocks {sorted(b['idx'] for b in mm['blocks'])}")
            exp_edges = sorted(set(tuple(e) for e in mm["dot_edges"]))   # Model/Output.full_cfg_edges (= cfg_edge, OutputLemmas)
            if d["edges"] != exp_edges:
                bad(f"cfg DOT edges {d['edges']} differ from the global graph {exp_edges}")
            for b in mm["blocks"]:
                src = text.split("\n")
                exp_rows = [(ln, src[ln - 1].strip()) for ln in b["lines"]]   # the printer shows the source line of each instruction
                if b["idx"] in d["nodes"] and d["nodes"][b["idx"]]["rows"] != exp_rows:
                    bad(f"cfg DOT node {b['idx']} shows {d['nodes'][b['idx']]['rows']}, block has {exp_rows}")
                    break
            # RAW row texts (escaping and markup kept) against Model/Rows.block_rows / render_row (RowsGenLemmas)
            nfacts += check_label_rows("cfg DOT", cfgdot[0], text, mm["blocks"], bad)
        else:
            bad("cfg printer wrote no full_cfg.dot")
        # transaction-context printer: block annotations show the computed contexts (and block id / cost)
        def short_list(vals):
            vals = sorted(vals)
            seqs = []
            for v in vals:
                if seqs and seqs[-1][-1] == v - 1:
                    seqs[-1].append(v)
                else:
                    seqs.append([v])
            return " ".join(f"{q[0]}..{q[-1]}" if len(q) >= 4 else " ".join(map(str, q)) for q in seqs)
        tcd = [v for k, v in r.get("printer_files", {}).items() if k.endswith("print-transaction-context/transaction-context.dot")]
        if tcd:
            d = cli.parse_dot(tcd[0])
            nfacts += 1
            for b in mm["blocks"]:
                c = mm["ctx"].get(str(b["idx"]))
                node = d["nodes"].get(b["idx"])
                if c is None or node is None:
                    continue   # block outside the function (subroutine only called from dead code): no annotation
                gi = [int(x) for x in c.get("self:GroupIndex", "").split(",") if x != ""]
                gs = [int(x) for x in c.get("self:GroupSize", "").split(",") if x != ""]
                exp_c = [f"block_id = {b['idx']}; cost = {mm['costs'].get(str(b['idx']))}", f"GroupIndex: {short_list(gi)}", f"GroupSize: {short_list(gs)}"]
                # the node also shows "Subroutine <name>" (entry blocks) and the source comments of its instructions
                got_c = [x.strip() for x in node["comments"] if x.strip().startswith(("block_id = ", "GroupIndex:", "GroupSize:"))][:3]
                if got_c != [x.strip() for x in exp_c]:
                    bad(f"transaction-context DOT node {b['idx']} is annotated {node['comments']}, computed contexts give {exp_c}")
                    break
        else:
            bad("transaction-context printer wrote no transaction-context.dot")
        # subroutine-cfg: one file per subroutine, one call box per call site
        for s in mm["subs"]:
            fs = [v for k, v in r.get("printer_files", {}).items() if k.endswith(f"print-subroutine-cfg/subroutine_{s['name']}_cfg.dot")]
            nfacts += 1
            if not fs:
                bad(f"subroutine-cfg wrote no file for subroutine {s['name']}")
                continue
            d = cli.parse_dot(fs[0])
            nfacts += check_label_rows(f"subroutine-cfg {s['name']}", fs[0], text, mm["blocks"], bad, only=set(s["blocks"]))
            blocks = {b["idx"]: b for b in mm["blocks"]}
            sites = [b for b in s["blocks"] if b in blocks and blocks[b]["ins"][-1].startswith("callsub ")]
            if sorted(d["nodes"]) != sorted(s["blocks"]):
                bad(f"subroutine-cfg {s['name']}: nodes {sorted(d['nodes'])} differ from its blocks {sorted(s['blocks'])}")
            if len(d["boxes"]) != len(sites):
                bad(f"subroutine-cfg {s['name']}: {len(d['boxes'])} call boxes for {len(sites)} call sites")
            ms = [x for x in mm["dot_subs"] if x["name"] == s["name"]]
            if ms:
                exp_boxes = sorted(f"x{c}_{'none' if rp is None else rp}" for c, rp, _ in ms[0]["boxes"])
                if sorted(d["boxes"]) != exp_boxes:
                    bad(f"subroutine-cfg {s['name']}: call boxes {sorted(d['boxes'])}, call sites/return points give {exp_boxes}")
                if d["edges"] != sorted(set(tuple(e) for e in ms[0]["edges"])):
                    bad(f"subroutine-cfg {s['name']}: local edges {d['edges']} differ from {sorted(set(tuple(e) for e in ms[0]['edges']))}")
                exp_be = sorted([(str(c), f"x{c}_{'none' if rp is None else rp}") for c, rp, _ in ms[0]["boxes"]] +
                                [(f"x{c}_{rp}", str(rp)) for c, rp, _ in ms[0]["boxes"] if rp is not None])
                if sorted(d["box_edges"]) != exp_be:
                    bad(f"subroutine-cfg {s['name']}: box edges {sorted(d['box_edges'])} differ from {exp_be}")
        # call graph
        cg = [v for k, v in r.get("printer_files", {}).items() if k.endswith("call-graph.dot")]
        if cg:
            got_edges = sorted(set(re.findall(r"^\s*\"?([A-Za-z_][\w.]*)\"?\s*->\s*\"?([A-Za-z_][\w.]*)\"?", cg[0], re.M)))
            blocks = {b["idx"]: b for b in mm["blocks"]}
            exp = set()
            for rn in [mm["main"]] + mm["subs"]:
                for b in rn["blocks"]:
                    if b in blocks and blocks[b]["ins"][-1].startswith("callsub "):
                        exp.add((rn["name"], blocks[b]["ins"][-1].split()[1]))
            nfacts += 1
            if got_edges != sorted(exp):
                bad(f"call-graph edges {got_edges} differ from retained call sites {sorted(exp)}")
            if mm.get("callgraph") is not None and got_edges != sorted(set(tuple(e) for e in mm["callgraph"])):
                bad(f"call-graph edges {got_edges} differ from Model/Output.callgraph_edges {sorted(set(tuple(e) for e in mm['callgraph']))}")
        elif mm.get("callgraph"):
            bad("call-graph printer wrote no file although the contract has call sites")
    cov["traces_validated_against_impl"] = nfacts
    cov["evaluations"] = nfacts
    cov["distinct_nontrivial"] = nprog
    cov["rule"] = "artefacts (JSON envelope, per-path DOT files, cfg / subroutine-cfg / call-graph DOT files, --filter-paths) of real CLI runs read back and compared with the model's graph and paths; non-trivial = structured program"


def run_c14(ctx):
    """same input => same contexts, ordered paths and JSON bytes whatever the history, detector order or hash seed"""
    import cli
    cov = ctx["cov"]
    rng = ctx["rng"]
    n = 60 if ctx["tier"] == "quick" else 600
    progs = []
    for k in range(n):
        t, _ = gen.random_program(rng)
        progs.append(t)
    progs += [t for _, t in gen.adversarial_programs()]
    progs += [t for n_, t in corpus_programs() if "regress" in n_]
    reqs = [("analyze", f"p{k}", t, []) for k, t in enumerate(progs)]
    # baseline: model (pure function) and implementation, stream order, seed 0
    m, base = corr.run_both(reqs, shards=8)
    variants = {
        "reversed history, hash seed 1": (list(reversed(reqs)), {"PYTHONHASHSEED": "1"}),
        "shuffled history, hash seed 4242": (rng.sample(reqs, len(reqs)), {"PYTHONHASHSEED": "4242"}),
        "detectors reversed and re-run, hash seed 7": (reqs, {"PYTHONHASHSEED": "7", "VERIF_DETECTOR_ORDER": "reversed_twice"}),
        "single long-lived process": (reqs, {"PYTHONHASHSEED": "99", "VERIF_SINGLE": "1"}),
        "perturbed allocation history, hash seed 3": (reqs, {"PYTHONHASHSEED": "3", "VERIF_ALLOC_NOISE": "1"}),
        "perturbed allocation history, hash seed 5": (list(reversed(reqs)), {"PYTHONHASHSEED": "5", "VERIF_ALLOC_NOISE": "2"}),
    }
    ncmp = 0
    for vname, (rq, env) in variants.items():
        shards = 1 if env.get("VERIF_SINGLE") else 8
        _, got = corr.run_both(rq, shards=shards, impl_env=env)
        for kind, rid, text, _ in reqs:
            ncmp += 1
            a, b = dict(base[rid]), dict(got[rid])
            # the ORDER of function.blocks is internal (it follows set iteration); the block set is compared
            for x in (a, b):
                if "fn_blocks" in x:
                    x["fn_blocks"] = sorted(x["fn_blocks"])
                if "err" in x:
                    x["err"] = corr.norm_err(x)["err"]   # exception texts contain object addresses
            if json.dumps(a, sort_keys=True) != json.dumps(b, sort_keys=True):
                diff = [k for k in set(a) | set(b) if a.get(k) != b.get(k)]
                ctx["violations"].append((f"result of analysing one contract differs under '{vname}' (fields {diff[:4]})",
                                          {"kind": "history-dependence", "program": text, "variant": vname, "env": env}))
                break
    # several contracts inside ONE Tealer object (as in group mode), in two orders, detectors run twice: every contract's
    # paths must equal the paths of the contract analysed alone
    ok_ids = [rid for kind, rid, text, _ in reqs if isinstance(base[rid].get("paths"), dict) and all(isinstance(v, list) for v in base[rid]["paths"].values())]
    text_of = {rid: text for kind, rid, text, _ in reqs}
    multi = []
    adv_ids = [rid for rid in ok_ids if int(rid[1:]) >= n][:80]   # adversarial + regression programs: same shapes, different reads
    groups_ = [adv_ids[k:k + 2] for k in range(0, len(adv_ids) - 1)] + [adv_ids[k:k + 3] for k in range(0, len(adv_ids) - 2, 5)]
    for k in range(12 if ctx["tier"] == "quick" else 120):
        groups_.append(rng.sample(ok_ids, min(len(ok_ids), rng.choice([2, 2, 3]))))
    for ids in groups_:
        for order in (ids, list(reversed(ids))):
            multi.append((order, ("multi", f"m{len(multi)}", "\n@@----\n".join(text_of[r] for r in order), [])))
    got, _, _ = corr.run_cmd([corr.PY, corr.IMPL], corr.make_stream([r for _, r in multi]), env={"PYTHONHASHSEED": "11"})
    nmulti_err = 0
    for order, (_, mid, _, _) in multi:
        ncmp += 1
        res = got.get(mid, {})
        if "err" in res or not res:
            nmulti_err += 1
            continue
        for det, runs in res.items():
            bad = None
            for run in runs:
                for rid, ps in zip(order, run):
                    if ps != base[rid]["paths"].get(det):
                        bad = (rid, ps, base[rid]["paths"].get(det))
                        break
                if bad:
                    break
            if bad:
                ctx["violations"].append((f"{det}: a contract analysed together with {len(order) - 1} other contract(s) in one Tealer object reports paths {bad[1]}, analysed alone {bad[2]}",
                                          {"kind": "cross-contract-state", "programs": [text_of[r] for r in order], "detector": det, "differing_program": text_of[bad[0]]}))
                break
        if ctx["violations"]:
            break
    cov["multi_contract_groups"] = len(multi)
    cov["multi_contract_groups_skipped_on_error"] = nmulti_err
    if multi and nmulti_err > len(multi) // 2:
        ctx["broken"].append(f"multi-contract harness: {nmulti_err} of {len(multi)} groups could not be analysed ({str(next(iter(got.values()), ''))[:200]})")
    # JSON bytes of the CLI under different hash seeds
    sample = rng.sample(progs, 6 if ctx["tier"] == "quick" else 40)
    outs = par_map(lambda t: [cli.full_run(t, hashseed=hs, printers=False)["json_raw"] for hs in ("0", "1", "31337")], sample)
    for t, o in zip(sample, outs):
        ncmp += 2
        if not (o[0] == o[1] == o[2]):
            ctx["violations"].append(("JSON output bytes differ between PYTHONHASHSEED values", {"kind": "hash-seed-dependence", "program": t}))
    # correspondence with the (history-free) model
    nd = 0
    for kind, rid, text, _ in reqs:
        d = corr.cmp_ctx(m[rid], base[rid]) + corr.cmp_paths(m[rid], base[rid])
        if d:
            nd += 1
            if nd <= 2:
                ctx["broken"].append(f"correspondence model/implementation: {d[0][:200]} || program {text!r}")
    cov["traces_validated_against_impl"] = ncmp
    cov["evaluations"] = ncmp
    cov["distinct_nontrivial"] = len(progs)
    cov["rule"] = "per contract: result under 4 history / detector-order / hash-seed variants compared field by field with the baseline; CLI JSON bytes under 3 hash seeds; distinct = programs"
    cov["disagreements"] = nd


def rewrite_program(rng, text, kind):
    """meaning-preserving rewrites (C15). returns (new text, line map old->new or None)"""
    lines = text.split("\n")
    if kind == "labels":
        labs = sorted({l.strip()[:-1] for l in lines if l.strip().endswith(":") and " " not in l.strip()}, key=len, reverse=True)
        ren = {l: f"L_{k}_{l[::-1]}" for k, l in enumerate(labs)}
        out = []
        for l in lines:
            t = l.split()
            if t and t[0].endswith(":") and t[0][:-1] in ren and len(t) == 1:
                out.append(ren[t[0][:-1]] + ":")
            elif t and t[0] in ("b", "bz", "bnz", "callsub") and len(t) == 2 and t[1] in ren:
                out.append(f"{t[0]} {ren[t[1]]}")
            elif t and t[0] in ("switch", "match"):
                out.append(" ".join([t[0]] + [ren.get(x, x) for x in t[1:]]))
            else:
                out.append(l)
        return "\n".join(out), "same"
    if kind == "comments":
        out, mp, k = [], {}, 0
        for n, l in enumerate(lines, 1):
            if rng.random() < 0.25 and n > 1:
                out.append(rng.choice(["// note", "", "   ", "\t// x // y"]))
            out.append((rng.choice(["", "  ", "\t"]) + l + rng.choice(["", "  ", " // c", "\t//"])) if not l.startswith("#pragma") else l)
            mp[n] = len(out)
        return "\n".join(out), mp
    if kind == "ints":
        out = []
        for l in lines:
            t = l.split()
            if len(t) == 2 and t[0] in ("int", "pushint") and t[1].isdigit():
                import avm
                v = avm.parse_int(t[1])
                sp = rng.choice([str(v), hex(v), ("0" + oct(v)[2:]) if v > 0 else "0"])
                op = rng.choice(["int", "pushint"])
                out.append(f"{op} {sp}")
            elif len(t) == 2 and t[0] in ("int", "pushint") and t[1] in avm_names():
                # a named constant: by word or by number, pushed with int or with pushint
                out.append(rng.choice([f"int {t[1]}", f"pushint {t[1]}", f"int {avm_names()[t[1]]}", f"pushint {avm_names()[t[1]]}"]))
            else:
                out.append(l)
        return "\n".join(out), "same"
    if kind == "beforelabel":
        # padding or an extra unused label directly before a label: separates a branch from a label on the next line;
        # block numbering changes, so only the verdicts are compared
        out, k = [], 0
        for l in lines:
            t = l.split()
            # (a label directly after a callsub is the shape of known finding D3: separating the two removes the defect, so
            #  the verdict legitimately changes there -- left to the D3 replay)
            if len(t) == 1 and t[0].endswith(":") and out and not out[-1].startswith("#pragma") and not out[-1].split()[:1] == ["callsub"] and rng.random() < 0.6:
                k += 1
                out += rng.choice([["int 0", "pop"], [f"unused_lbl_{k}:"], ['byte "p"', "pop"]])
            out.append(l)
        return "\n".join(out), None
    if kind == "padding":
        out, mp = [], {}
        for n, l in enumerate(lines, 1):
            out.append(l)
            mp[n] = len(out)
            t = l.split()
            if t and t[0] in ("assert", "pop", "store") and rng.random() < 0.5:
                out += rng.choice([["int 1", "pop"], ['byte "z"', "pop"], ["load 9", "store 9"]])
        return "\n".join(out), mp
    return text, "same"


def avm_names():
    import avm
    d = dict(avm.TYPE_NAMES)
    d.update(avm.OC_NAMES)
    return d


NO_FALL = ("retsub", "return", "err", "b ")


def move_subroutines(rng, text):
    """the rewrite 'moving whole subroutine bodies': the program is cut at the labels that are callsub targets; when the
    part before the first such label and every body end in an instruction that never falls through (retsub / return / err / b),
    the bodies are permuted (a random permutation different from the identity).  Returns the new text or None."""
    lines = text.split("\n")
    targets = {l.split()[1] for l in lines if l.strip().startswith("callsub ") and len(l.split()) >= 2}
    cuts = [k for k, l in enumerate(lines) if l.strip().endswith(":") and l.strip()[:-1] in targets and "//" not in l]
    if len(cuts) < 2:
        return None
    segs = [lines[:cuts[0]]] + [lines[a:b] for a, b in zip(cuts, cuts[1:] + [len(lines)])]

    def last_ins(seg):
        for l in reversed(seg):
            t = l.split("//")[0].strip()
            if t and not t.endswith(":"):
                return t
        return ""
    if not all(last_ins(sg).startswith(NO_FALL) or last_ins(sg) in ("retsub", "return", "err") for sg in segs):
        return None
    bodies = segs[1:]
    perm = list(range(len(bodies)))
    for _ in range(6):
        rng.shuffle(perm)
        if perm != sorted(perm):
            break
    else:
        return None
    return "\n".join(segs[0] + [l for k in perm for l in bodies[k]])


def nested_call_program(rng):
    """a contract with 3-5 levels of call nesting (main -> A -> B -> C ..), each level checking or passing, bodies in
    random textual order, main first or behind a `b main` -- the layouts that 'moving subroutine bodies' ranges over"""
    depth = rng.randrange(3, 6)
    names = [f"lvl{k}" for k in range(depth)]
    bodies = []
    for k, nm in enumerate(names):
        body = [f"{nm}:"]
        if rng.random() < 0.5:
            body += rng.choice([["txn RekeyTo", "global ZeroAddress", "==", "assert"], ["txn Fee", "int 1000", "<=", "assert"],
                                ["txn OnCompletion", "int UpdateApplication", "!=", "assert"], ["global GroupSize", "int 2", "==", "assert"]])
        if k + 1 < depth:
            body += [f"callsub {names[k + 1]}"]
        body += ["retsub"]
        bodies.append(body)
    rng.shuffle(bodies)
    main = ["txn CloseRemainderTo", "global ZeroAddress", "==", "assert", f"callsub {names[0]}", "int 1", "return"]
    if rng.random() < 0.5:
        return "\n".join(["#pragma version 6"] + main + [l for b in bodies for l in b])
    return "\n".join(["#pragma version 6", "b main"] + [l for b in bodies for l in b] + ["main:"] + main)


def by_text(res):
    """the observables of an `analyze` answer in a form that does not mention block numbers: every block is named by the
    printed text of its instructions"""
    name = {str(b["idx"]): tuple(b["ins"]) for b in res.get("blocks", [])}
    ctxs = sorted((name.get(str(b), (str(b),)), tuple(sorted(c.items()))) for b, c in res["ctx"].items())
    paths = {d: ([tuple(name.get(str(b), (str(b),)) for b in p) for p in ps] if isinstance(ps, list) else ps) for d, ps in res["paths"].items()}
    return ctxs, paths


def run_c15(ctx):
    cov = ctx["cov"]
    rng = ctx["rng"]
    n = 80 if ctx["tier"] == "quick" else 800
    reqs, meta = [], {}
    srcs = [gen.random_program(rng)[0] for _ in range(n)] + [t for _, t in gen.adversarial_programs()]
    # moving whole subroutine bodies (block numbers change: compared with blocks named by their text)
    movers = [nested_call_program(rng) for _ in range(12 if ctx["tier"] == "quick" else 120)] + srcs
    nmove = 0
    for k, t in enumerate(movers):
        t2 = move_subroutines(rng, t)
        if t2 is None or (nmove >= (50 if ctx["tier"] == "quick" else 500)):
            continue
        nmove += 1
        reqs.append(("analyze", f"mo{k}", t, []))
        reqs.append(("analyze", f"mr{k}", t2, []))
        meta[f"mr{k}"] = (f"mo{k}", "move", t, t2)
    cov["moved_subroutine_cases"] = nmove
    for k, t in enumerate(srcs):
        reqs.append(("analyze", f"o{k}", t, []))
        for kind in ("labels", "comments", "ints", "padding", "beforelabel"):
            t2, mp = rewrite_program(rng, t, kind)
            reqs.append(("analyze", f"r{k}_{kind}", t2, []))
            meta[f"r{k}_{kind}"] = (f"o{k}", kind, t, t2)
    m, i = corr.run_both(reqs)
    ncmp = 0
    nd = 0
    for rid, (orig, kind, t, t2) in meta.items():
        for side, res in (("implementation", i), ("model", m)):
            a, b = res[orig], res[rid]
            if "ctx" not in a or "ctx" not in b:
                if ("ctx" in a) != ("ctx" in b) and a.get("structured") is not False:
                    ctx["violations"].append((f"rewrite '{kind}' changes whether the {side} completes", {"kind": "rewrite-variance", "program": t, "rewritten": t2, "rewrite": kind}))
                continue
            ncmp += 1
            if kind == "move":
                if a.get("structured") is False or b.get("structured") is False:
                    continue
                if by_text(a) != by_text(b):
                    ca, pa = by_text(a)
                    cb, pb = by_text(b)
                    what = "contexts" if ca != cb else "reported paths"
                    if side == "implementation":
                        ctx["violations"].append((f"moving whole subroutine bodies changes the {what}", {"kind": "rewrite-variance", "program": t, "rewritten": t2, "rewrite": kind}))
                    else:
                        ctx["broken"].append(f"model is not invariant under moving subroutine bodies ({what}) on {t!r} vs {t2!r}")
                    break
                continue
            if kind == "beforelabel":
                va = {d: bool(p) for d, p in a["paths"].items() if isinstance(p, list)}
                vb = {d: bool(p) for d, p in b["paths"].items() if isinstance(p, list)}
                if va != vb:
                    dd = sorted(d for d in va if va.get(d) != vb.get(d))
                    if side == "implementation":
                        ctx["violations"].append((f"padding / an unused label inserted before a label changes the verdict of {dd}", {"kind": "rewrite-variance", "program": t, "rewritten": t2, "rewrite": kind}))
                    else:
                        ctx["broken"].append(f"model is not invariant under rewrite '{kind}' (verdicts {dd}) on {t!r}")
                    break
                continue
            if a["ctx"] != b["ctx"] or a["paths"] != b["paths"]:
                what = "contexts" if a["ctx"] != b["ctx"] else "reported paths"
                if side == "implementation":
                    ctx["violations"].append((f"rewrite '{kind}' changes the {what}", {"kind": "rewrite-variance", "program": t, "rewritten": t2, "rewrite": kind}))
                else:
                    ctx["broken"].append(f"model is not invariant under rewrite '{kind}' ({what}) on {t!r}")
                break
        d = corr.cmp_ctx(m[rid], i[rid]) + corr.cmp_paths(m[rid], i[rid])
        if d:
            nd += 1
            if nd <= 2:
                ctx["broken"].append(f"correspondence model/implementation on rewritten program: {d[0][:200]} || {t2!r}")
    cov["traces_validated_against_impl"] = ncmp
    cov["evaluations"] = ncmp
    cov["distinct_nontrivial"] = len(srcs)
    cov["rule"] = "random + adversarial programs x rewrites (padding or an unused label before a label: verdicts compared; label renaming; comments/blank lines/indentation; decimal/hex/octal + int/pushint + named/numeric constants; stack-neutral padding): contexts per block and ordered paths of original vs rewritten program must be identical (block ids are preserved by these rewrites), on the implementation and on the model"
    cov["disagreements"] = nd


PROPS = {
    "C01": {"run": run_c01},
    "C02": {"run": run_c02},
    "C03": {"run": run_c03},
    "C04": {"run": run_c04},
    "C05": {"run": run_c05},
    "C06": {"run": run_ctx(key_is("GroupSize", "GroupIndex"), {"C06"}, ["gsize", "gindex", "bool", "spell"], known=("D2", "D12"))},
    "C07": {"run": run_ctx(key_is("TransactionType"), {"C07"}, ["type", "oc", "appid"], known=("D16",))},
    "C08": {"run": run_ctx(key_is("RekeyTo", "CloseRemainderTo", "AssetCloseTo", "Sender"), {"C08"}, ["addr", "bool"], known=("D19",))},
    "C09": {"run": run_ctx(key_is("Fee"), {"C09"}, ["fee", "spell", "bool"])},
    "C10": {"run": run_ctx(key_is("RekeyTo", "CloseRemainderTo", "AssetCloseTo", "Sender", "Fee", "TransactionType", fams=("at", "abs", "rel")), {"C10"}, ["idx"])},
    "C11": {"run": run_lines(("pop", "push", "cls"))},
    "C12": {"run": run_c12},
    "C13": {"run": run_c13},
    "C14": {"run": run_c14},
    "C15": {"run": run_c15},
    "C16": {"run": run_lines(("cls", "str"))},
    "C17": {"run": run_c17},
    "C18": {"run": run_c18},
    "C19": {"run": run_lines(("version", "mode", "cost"))},
    "C20": {"run": run_c20},
}
