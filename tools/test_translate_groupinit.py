#!/venv/bin/python
"""Self-test of tools/translate_groupinit.py (the regenerated reading of a group configuration, Gen/GroupInitGen.v).

(a) runs the translator on the clean source ($VERIF_REPO, default /repo; only a scratch COPY is ever modified) and checks
    that the output is the current coq/Gen/GroupInitGen.v, compiles, and that the lemma files about it compile against
    it, in dependency order: Lemmas/GroupInitGenLemmas.v, Lemmas/YamlRelLemmas.v (if present),
    Lemmas/GroupConfigGenLemmas.v, Lemmas/GroupCfgOk.v, Lemmas/FromYamlLemmas.v, Lemmas/AbsIndexLemmas.v,
    Lemmas/CfgRawVerdict.v, Lemmas/ConfigFromYamlLemmas.v;
(b) applies small mutations to a scratch copy of the source (utils/command_line/common.py, group_config.py,
    execution_context/transactions.py and fingerprinted helpers) and shows that, for each, either the translator stops
    (TranslateError) or the generated Gallina differs AND one of the lemma files no longer compiles against it;
    one semantically neutral mutant (e1: a local variable renamed) is a control: its Gallina differs and the lemmas
    must still compile.

Precondition: coq/ has been built (`make`).  Every coqc runs under `timeout`.  Exit status 0 iff every row has the
expected verdict.

usage: /venv/bin/python tools/test_translate_groupinit.py [-v]
"""
import ast
import os
import re
import shutil
import subprocess
import sys
import tempfile

HERE = os.path.dirname(os.path.abspath(__file__))
ROOT = os.path.dirname(HERE)
COQ = os.path.join(ROOT, "coq")
PY = "/venv/bin/python"
REPO = os.environ.get("VERIF_REPO", "/repo")

COMMON = "tealer/utils/command_line/common.py"
CFG = "tealer/utils/command_line/group_config.py"
TX = "tealer/execution_context/transactions.py"
FN = "tealer/teal/functions.py"
ENUM = "tealer/utils/teal_enums.py"
TEAL = "tealer/teal/teal.py"
# the lemma files about Gen/GroupInitGen.v, in dependency order (compiled in the scratch directory)
LEMMA_FILES = ("GroupInitGenLemmas.v", "YamlRelLemmas.v", "GroupConfigGenLemmas.v", "GroupCfgOk.v", "FromYamlLemmas.v", "AbsIndexLemmas.v", "CfgRawVerdict.v", "ConfigFromYamlLemmas.v")


def sh(cmd, cwd=None, env=None):
    e = dict(os.environ)
    if env:
        e.update(env)
    p = subprocess.run(cmd, shell=True, cwd=cwd, stdout=subprocess.PIPE, stderr=subprocess.STDOUT, env=e, check=False)
    return p.returncode, p.stdout.decode(errors="replace")


def rep(old, new, n=1):
    def f(src):
        if src.count(old) != n:
            raise RuntimeError(f"mutation anchor found {src.count(old)} times, expected {n}: " + old[:70])
        return src.replace(old, new)

    return f


def chain(*fs):
    def f(src):
        for g in fs:
            src = g(src)
        return src

    return f


FORCE = "                txn_obj.logic_sig = logic_sig_function\n                txn_obj.has_logic_sig = True\n"
DUP = "            if txn.txn_id in txn_id_to_obj:\n                raise TealerException(f\"{txn.txn_id} is repeated in the same group.\")\n"
INS = "            txn_id_to_obj[txn.txn_id] = txn_obj\n"
ABS_IF = "                if txn_obj.absoulte_index in group_obj.absolute_indexes:\n"
ABS_RAISE = (
    "                if txn_obj.absoulte_index in group_obj.absolute_indexes:\n                    raise TealerException(\n"
    "                        f\"Two transactions have same absolute index {txn_obj.transacton_id}, {group_obj.absolute_indexes[txn_obj.absoulte_index].transacton_id}\"\n"
    "                    )\n"
)
FILL = "        fill_group_relative_indexes(group_obj)\n"
LOOP2 = "        for txn in txn_config.transactions:\n            txn_obj = txn_id_to_obj[txn.txn_id]\n"
REL_STORE = "                    txn_obj.relative_indexes[offset] = txn_id_to_obj[other_txn_id]\n"
FOREIGN = (
    "                    if other_txn_id not in txn_id_to_obj:\n                        raise TealerException(\n"
    "                            f\"other_txn_id: {other_txn_id} is not present in the same group\"\n                        )\n"
)

BLOCK_IF = '            if not block_id.startswith("B") or not block_id[1:].isdigit():\n'
FN_STORE = "            contract_functions[function_config.name] = func\n"
TRY_BLOCK = (
    "            try:\n                parsed_functions.append(GroupConfigFunction.from_yaml(function))\n            except InvalidGroupConfiguration as err:\n"
    "                # pylint: disable=raise-missing-from\n                raise InvalidGroupConfiguration(f\"Contract name: {name}\\n{err}\")\n"
)

MUTATIONS = [
    ("(1) has_logic_sig not forced when a logic_sig is given", COMMON, rep(FORCE, "                txn_obj.logic_sig = logic_sig_function\n")),
    ("(2) application stored as logic_sig and vice versa", COMMON, chain(rep("                txn_obj.application = app_function\n", "                txn_obj.logic_sig = app_function\n"), rep("                txn_obj.logic_sig = logic_sig_function\n", "                txn_obj.application = logic_sig_function\n"))),
    ("(3) relative_indexes keyed by id-object instead of offset (fail: type)", COMMON, rep(REL_STORE, "                    txn_obj.relative_indexes[other_txn_id] = txn_id_to_obj[other_txn_id]\n")),
    ("(4) absolute-index clash check dropped", COMMON, rep(ABS_RAISE, "")),
    ("(5) absolute-index check looks into the wrong dict", COMMON, rep(ABS_IF, "                if txn_obj.absoulte_index in txn_obj.relative_indexes:\n")),
    ("(6) type table: pay <-> axfer swapped", CFG, chain(rep('    "pay": TransactionType.Pay,\n', '    "pay": TransactionType.Axfer,\n'), rep('    "axfer": TransactionType.Axfer,\n', '    "axfer": TransactionType.Pay,\n'))),
    ("(7) duplicate-id check after the insertion", COMMON, rep(DUP + INS, INS + DUP)),
    ("(8) fill_group_relative_indexes called before the second loop", COMMON, chain(rep(FILL, ""), rep(LOOP2, FILL + LOOP2))),
    ("(9) fill_group_relative_indexes not called", COMMON, rep(FILL, "")),
    ("(10) application check inverted (!=)", COMMON, rep("                if app_function.contract.contract_type == ContractType.LogicSig:\n", "                if app_function.contract.contract_type != ContractType.LogicSig:\n")),
    ("(11) logic-sig kind check dropped", COMMON, rep('                if logic_sig_function.contract.contract_type != ContractType.LogicSig:\n                    raise TealerException(\n                        f"{txn.logic_sig.contract} is an application but is given as a logic-sig."\n                    )\n', "")),
    ("(12) has_logic_sig of the configuration ignored", COMMON, rep("            if txn.has_logic_sig is not None:\n                txn_obj.has_logic_sig = txn.has_logic_sig\n", "")),
    ("(13) absolute index not copied", COMMON, rep("            txn_obj.absoulte_index = txn.absolute_index\n", "")),
    ("(14) relative index stores the referrer itself", COMMON, rep(REL_STORE, "                    txn_obj.relative_indexes[offset] = txn_obj\n")),
    ("(15) foreign-id check dropped (KeyError instead)", COMMON, rep(FOREIGN, "")),
    ("(16) absolute_indexes records under the wrong key", COMMON, rep("                group_obj.absolute_indexes[txn_obj.absoulte_index] = txn_obj\n", "                group_obj.absolute_indexes[0] = txn_obj\n")),
    ("(17) group.transactions = [] (objects not listed)", COMMON, rep("        group_obj.transactions = list(txn_id_to_obj.values())\n", "        group_obj.transactions = []\n")),
    ("(18) group_transaction back pointer not set", COMMON, rep("            txn_obj.group_transaction = group_obj\n", "")),
    ("(19) _get_function_from_config: unknown function not refused", COMMON, rep('    if function_call_config.function not in contract_obj.functions:\n        raise TealerException(\n            f"{function_call_config.function} not found in {contract_obj.contract_name} functions."\n        )\n', "")),
    ("(20) _get_function_from_config looks the contract up by function name", COMMON, rep("    contract_obj = contracts[function_call_config.contract]\n", "    contract_obj = contracts[function_call_config.function]\n")),
    ("(21) Transaction(): has_logic_sig defaults to True", TX, rep("        self.has_logic_sig: bool = False\n", "        self.has_logic_sig: bool = True\n")),
    ("(22) Transaction(): type defaults to Pay", TX, rep("        self.type: TransactionType = TransactionType.Any\n", "        self.type: TransactionType = TransactionType.Pay\n")),
    ("(23) Transaction defines __eq__ (identity of objects)", TX, rep('        self.transacton_id: str = ""\n', '        self.transacton_id: str = ""\n\n    def __eq__(self, other):\n        return True\n')),
    ("(24) single contract: logic-sig stored as application", COMMON, rep("        txn_obj.logic_sig = contract_functions[contract_name]\n", "        txn_obj.application = contract_functions[contract_name]\n")),
    ("(25) single contract: test on the contract type inverted", COMMON, rep("    if teal.contract_type == ContractType.LogicSig:\n", "    if teal.contract_type != ContractType.LogicSig:\n")),
    ("(26) single contract: has_logic_sig not set", COMMON, rep("        txn_obj.has_logic_sig = True\n        txn_obj.logic_sig = contract_functions[contract_name]\n", "        txn_obj.logic_sig = contract_functions[contract_name]\n")),
    ("(27) from_yaml: relative_indexes keyed by offset", CFG, rep('                parsed_relative_indexes[relative_index["other_txn_id"]] = relative_index["offset"]\n', '                parsed_relative_indexes[relative_index["offset"]] = relative_index["other_txn_id"]\n')),
    ("(28) from_yaml: constructor arguments application / logic_sig swapped", CFG, rep("            application,\n            has_logic_sig,\n            logic_sig,\n", "            logic_sig,\n            has_logic_sig,\n            application,\n")),
    ("(29) from_yaml: unknown transaction type accepted", CFG, rep('        if txn_type not in USER_CONFIG_TRANSACTION_TYPES:\n            raise InvalidGroupConfiguration(\n                f"Transaction: Unknown transaction type {txn_type} of transaction {txn_id}"\n            )\n', "")),
    ("(30) from_yaml: absolute_index read from another key", CFG, rep('        absolute_index = transaction.get("absolute_index")\n', '        absolute_index = transaction.get("absolute_indexes")\n')),
    ("(31) dataclass: has_logic_sig defaults to False", CFG, rep("    has_logic_sig: Optional[bool] = None\n", "    has_logic_sig: Optional[bool] = False\n")),
    ("(32) contracts loop no longer sets teal.contract_type", COMMON, rep("        teal.contract_type = given_contract_type\n", "")),
    ("(33) Function.contract no longer the constructor argument (fingerprint)", FN, rep('        self.contract: "Teal" = contract\n', '        self.contract: "Teal" = None\n')),
    ("(34) ContractType values collide (fingerprint)", ENUM, rep("    ApprovalProgram = 1\n", "    ApprovalProgram = 0\n")),
    ("(35) while statement", COMMON, rep(LOOP2, "        while False:\n            pass\n" + LOOP2)),
    ("(36) second loop iterates the objects, not the configuration", COMMON, rep("        for txn in txn_config.transactions:\n            txn_obj = txn_id_to_obj[txn.txn_id]\n", "        for txn in reversed(txn_config.transactions):\n            txn_obj = txn_id_to_obj[txn.txn_id]\n")),
    ("(37) exception messages swapped (repeated <-> foreign)", COMMON, chain(rep('f"{txn.txn_id} is repeated in the same group."', 'f"other_txn_id: {txn.txn_id} is not present in the same group"'), rep('f"other_txn_id: {other_txn_id} is not present in the same group"', 'f"{other_txn_id} is repeated in the same group."'))),
    # ---- the contracts part (GroupConfigFunction / GroupConfigContract / GroupConfig, contract_type_from_txt, contracts loop)
    ("(38) block id: prefix test uses \"b\"", CFG, rep('block_id.startswith("B")', 'block_id.startswith("b")')),
    ("(39) block id: isdigit test dropped", CFG, rep(BLOCK_IF, '            if not block_id.startswith("B"):\n')),
    ("(40) block id: [1:] -> [2:]", CFG, rep("block_id[1:].isdigit()", "block_id[2:].isdigit()")),
    ("(41) block id: or -> and", CFG, rep(BLOCK_IF, '            if not block_id.startswith("B") and not block_id[1:].isdigit():\n')),
    ("(42) contract: required field list loses subroutines", CFG, rep('        required_fields = ["file_path", "type", "version", "subroutines", "functions"]\n', '        required_fields = ["file_path", "type", "version", "functions"]\n')),
    ("(43) GROUP_CONFIG_CONTRACT_TYPES gains Unknown", CFG, rep('    "ClearStateProgram",\n]\n', '    "ClearStateProgram",\n    "Unknown",\n]\n')),
    ("(44) contract_type_from_txt loses ClearStateProgram", ENUM, rep('        "ClearStateProgram": ContractType.ClearStateProgram,\n', "")),
    ("(45) contract_type_from_txt: LogicSig read as ApprovalProgram", ENUM, rep('        "LogicSig": ContractType.LogicSig,\n', '        "LogicSig": ContractType.ApprovalProgram,\n')),
    ("(46) contracts loop: functions stored under the dispatch path (fail: type)", COMMON, rep(FN_STORE, "            contract_functions[function_config.dispatch_path] = func\n")),
    ("(47) contracts loop: functions stored under the contract's name", COMMON, rep(FN_STORE, "            contract_functions[contract_config.name] = func\n")),
    ("(48) contracts loop: construct_function arguments swapped (fail: type)", COMMON, rep("construct_function(teal, function_config.dispatch_path, function_config.name)", "construct_function(teal, function_config.name, function_config.dispatch_path)")),
    ("(49) contracts loop: contracts keyed by file path", COMMON, rep("        contracts[contract_config.name] = teal\n", "        contracts[contract_config.file_path] = teal\n")),
    ("(50) contract: try / except around the function reader dropped", CFG, rep(TRY_BLOCK, "            parsed_functions.append(GroupConfigFunction.from_yaml(function))\n")),
    ("(51) contract: re-raised message without the caught one", CFG, rep('raise InvalidGroupConfiguration(f"Contract name: {name}\\n{err}")', 'raise InvalidGroupConfiguration(f"Contract name: {name}")')),
    ("(52) function: check that name is given dropped", CFG, rep('        if "name" not in function:\n            raise InvalidGroupConfiguration("function name is not given")\n', "")),
    ("(53) dataclass GroupConfigContract: file_path / contract_type swapped", CFG, rep("    file_path: Path\n    contract_type: str\n", "    contract_type: str\n    file_path: Path\n")),
    ("(54) contracts loop: teal.functions store dropped", COMMON, rep("        teal.functions = contract_functions\n", "")),
    ("(55) contracts loop: parse_teal named by the file path", COMMON, rep("            teal = parse_teal(f.read(), contract_config.name)\n", "            teal = parse_teal(f.read(), contract_config.file_path)\n")),
    ("(56) contracts loop: teal stored in the table before its functions are set (alias)", COMMON, rep("        teal.functions = contract_functions\n        contracts[contract_config.name] = teal\n", "        contracts[contract_config.name] = teal\n        teal.functions = contract_functions\n")),
    ("(57) config: groups read from the contracts key", CFG, rep('        for group in config["groups"]:\n', '        for group in config["contracts"]:\n')),
    ("(58) contract: type check inverted", CFG, rep("        if contract_type not in GROUP_CONFIG_CONTRACT_TYPES:\n", "        if contract_type in GROUP_CONFIG_CONTRACT_TYPES:\n")),
    ("(59) contracts loop: inner loop over the reversed functions", COMMON, rep("        for function_config in contract_config.functions:\n", "        for function_config in reversed(contract_config.functions):\n")),
    ("(60) contracts loop: contract_functions not reset per contract", COMMON, chain(rep('        contract_functions: Dict[str, "Function"] = {}\n', ""), rep('    contracts: Dict[str, "Teal"] = {}\n', '    contracts: Dict[str, "Teal"] = {}\n    contract_functions: Dict[str, "Function"] = {}\n'))),
    ("(61) InvalidGroupConfiguration defines __str__", CFG, rep("class InvalidGroupConfiguration(Exception):\n    pass\n", "class InvalidGroupConfiguration(Exception):\n    def __str__(self):\n        return \"\"\n")),
    ("(62) Teal.functions setter copies the dict (fingerprint)", TEAL, rep("        self._functions = functions\n", "        self._functions = dict(functions)\n")),
    # ---- the group readers, for every YAML map (Lemmas/FromYamlLemmas.v) / the view of the absolute index
    ("(y1) from_yaml: txn_type no longer a required field (KeyError instead)", CFG, rep('check_fields_are_present(["txn_id", "txn_type"], transaction)', 'check_fields_are_present(["txn_id"], transaction)')),
    ("(y2) from_yaml: offset no longer required in a relative index", CFG, rep('check_fields_are_present(["other_txn_id", "offset"], relative_index)', 'check_fields_are_present(["other_txn_id"], relative_index)')),
    ("(y3) from_yaml: function of a call read from the key contract", CFG, rep('        function = function_call["function"]\n', '        function = function_call["contract"]\n')),
    ("(y4) from_yaml: operation no longer a required field of a group", CFG, rep('check_fields_are_present(["operation", "transactions"], group)', 'check_fields_are_present(["transactions"], group)')),
    ("(y5) from_yaml: logic_sig only parsed when no application is given", CFG, rep("        if logic_sig is not None:\n            logic_sig = GroupConfigFunctionCall.from_yaml(logic_sig)\n", "        if logic_sig is not None and application is None:\n            logic_sig = GroupConfigFunctionCall.from_yaml(logic_sig)\n")),
    ("(y6) from_yaml: has_logic_sig read from the key logic_sig", CFG, rep('        has_logic_sig = transaction.get("has_logic_sig")\n', '        has_logic_sig = transaction.get("logic_sig")\n')),
    ("(y7) from_yaml: transactions of a group collected in reverse", CFG, rep("            parsed_transactions.append(GroupConfigTransaction.from_yaml(transaction))\n", "            parsed_transactions.insert(0, GroupConfigTransaction.from_yaml(transaction))\n")),
    ("(y8) dataclass: absolute_index declared Optional[str]", CFG, rep("    absolute_index: Optional[int] = None\n", "    absolute_index: Optional[str] = None\n")),
    ("(e1) EQUIVALENT: local variable app_function renamed", COMMON, rep("app_function", "the_app_function", 3)),
]
EQUIVALENT = {"(e1) EQUIVALENT: local variable app_function renamed"}

GEN_DEPS = ("Tables.vo", "Leaves.vo", "KeysGen.vo", "SingleGen.vo", "AssertedGen.vo", "GraphGen.vo", "SearchGen.vo", "GroupGen.vo")


def enclosing(vfile, line):
    name = "?"
    with open(vfile, encoding="utf-8") as f:
        for i, l in enumerate(f, 1):
            m = re.match(r"\s*(Lemma|Theorem|Corollary|Definition|Example)\s+(\w+)", l)
            if m and i <= line:
                name = m.group(2)
            if i > line:
                break
    return name


def run_case(work, scratch, rel=None, mutate=None):
    gen = os.path.join(work, "Gen")
    lem = os.path.join(work, "Lemmas")
    os.makedirs(gen)
    os.makedirs(lem)
    path, orig = None, None
    if mutate:
        path = os.path.join(scratch, rel)
        with open(path, encoding="utf-8") as fh:
            orig = fh.read()
        new = mutate(orig)
        if new == orig:
            raise RuntimeError("mutation did not change the source")
        ast.parse(new)
        with open(path, "w", encoding="utf-8") as fh:
            fh.write(new)
    try:
        rc, out = sh(f"{PY} {HERE}/translate_groupinit.py {gen}", env={"VERIF_REPO": scratch})
    finally:
        if path:
            with open(path, "w", encoding="utf-8") as fh:
                fh.write(orig)
    res = {"translator": "ok" if rc == 0 else "STOPPED", "log": out.strip().replace(scratch + "/", ""), "text": None, "gen_ok": None, "lemmas_ok": None, "where": None}
    if rc != 0:
        if rc != 2 or ("translator:" not in out and "non printable" not in out):
            res["translator"] = "CRASHED"
        return res
    with open(os.path.join(gen, "GroupInitGen.v"), encoding="utf-8") as fh:
        res["text"] = fh.read()
    for f in GEN_DEPS:
        os.symlink(os.path.join(COQ, "Gen", f), os.path.join(gen, f))
    # the scratch Lemmas directory: the compiled lemma files that do not depend on Gen/GroupInitGen.v are linked, the
    # ones that do are copied and compiled here, in dependency order, against the scratch Gen
    present = [f for f in LEMMA_FILES if os.path.exists(os.path.join(COQ, "Lemmas", f))]
    for f in os.listdir(os.path.join(COQ, "Lemmas")):
        if f.endswith(".vo") and f[:-1] not in LEMMA_FILES:
            os.symlink(os.path.join(COQ, "Lemmas", f), os.path.join(lem, f))
    q = f"-Q {COQ}/Model Tealer -Q {gen} Tealer -Q {COQ}/Spec Tealer -Q {lem} Tealer"
    rc, out = sh(f"timeout 300 coqc {q} {gen}/GroupInitGen.v 2>&1")
    res["gen_ok"] = rc == 0
    res["log"] += "\n" + out[-1500:]
    if rc == 0:
        res["lemmas_ok"] = True
        for f in present:
            lemv = os.path.join(lem, f)
            shutil.copy(os.path.join(COQ, "Lemmas", f), lemv)
            rc, out = sh(f"timeout 900 coqc {q} {lemv} 2>&1")
            res["log"] += "\n" + out[-1500:]
            if rc != 0:
                res["lemmas_ok"] = False
                m = re.search(r"line (\d+), characters", out)
                res["where"] = f"{f[:-2]}.{enclosing(lemv, int(m.group(1)))} (line {m.group(1)})" if m else f"{f} ?"
                break
    return res


def main():
    verbose = "-v" in sys.argv
    if not os.path.exists(os.path.join(COQ, "Lemmas", "GroupConfigGenLemmas.v")):
        print("precondition: coq/Lemmas/GroupConfigGenLemmas.v missing")
        sys.exit(3)
    for f in ("Model/Group.vo", "Gen/GroupGen.vo", "Lemmas/GroupGenLemmas.vo", "Lemmas/GroupLemmas.vo"):
        if not os.path.exists(os.path.join(COQ, f)):
            print(f"precondition: {COQ}/{f} missing -- build coq/ first (make)")
            sys.exit(3)
    top = tempfile.mkdtemp(prefix="tginit_")
    scratch = os.path.join(top, "repo")
    shutil.copytree(os.path.join(REPO, "tealer"), os.path.join(scratch, "tealer"), ignore=shutil.ignore_patterns("__pycache__"))
    rows = []
    ok = True
    try:
        base = run_case(os.path.join(top, "base"), scratch)
        same = None
        cur = os.path.join(COQ, "Gen", "GroupInitGen.v")
        if base["text"] is not None and os.path.exists(cur):
            with open(cur, encoding="utf-8") as fh:
                same = fh.read() == base["text"]
        good = base["translator"] == "ok" and base["gen_ok"] and base["lemmas_ok"] and same is True
        ok &= bool(good)
        rows.append(("(a) clean source", base["translator"], "= coq/Gen/GroupInitGen.v" if same else ("DIFFERS from coq/Gen" if same is False else "-"), base["gen_ok"], base["lemmas_ok"], "PASS" if good else "FAIL"))
        if verbose or not good:
            print(base["log"])
        for i, (name, rel, fn) in enumerate(MUTATIONS):
            r = run_case(os.path.join(top, f"m{i}"), scratch, rel, fn)
            if r["translator"] == "STOPPED":
                verdict, good, diff = "caught: translator stops", True, "-"
            elif r["translator"] == "CRASHED":
                verdict, good, diff = "FAIL: translator crashed", False, "-"
            else:
                differs = r["text"] != base["text"]
                diff = "differs" if differs else "IDENTICAL"
                if name in EQUIVALENT:
                    good = differs and bool(r["gen_ok"]) and r["lemmas_ok"] is True
                    verdict = "equivalent mutant: lemmas still hold (expected)" if good else "FAIL: equivalent mutant rejected"
                elif differs and r["gen_ok"] and r["lemmas_ok"] is False:
                    verdict, good = f"caught: lemmas break in {r['where']}", True
                elif differs and not r["gen_ok"]:
                    verdict, good = "caught: GroupInitGen.v ill-typed", True
                else:
                    verdict, good = "FAIL: NOT DETECTED", False
            ok &= good
            rows.append((name, r["translator"], diff, r["gen_ok"], r["lemmas_ok"], verdict))
            if verbose or not good:
                print(f"--- {name}\n{r['log']}\n")
            elif r["translator"] == "STOPPED":
                print(f"--- {name}: {r['log'].splitlines()[0][:300]}")
            sys.stdout.flush()
    finally:
        shutil.rmtree(top, ignore_errors=True)
    hdr = ("case", "translator", "generated Gallina", "GroupInitGen.v compiles", "lemma files compile", "verdict")
    fmt = lambda x: "-" if x is None else ("yes" if x is True else ("NO" if x is False else str(x)))  # noqa: E731
    table = [hdr] + [tuple(fmt(c) for c in r) for r in rows]
    widths = [max(len(r[i]) for r in table) for i in range(len(hdr))]
    print()
    for k, r in enumerate(table):
        print(" | ".join(c.ljust(w) for c, w in zip(r, widths)))
        if k == 0:
            print("-+-".join("-" * w for w in widths))
    print("\nRESULT:", "all mutations caught, clean source accepted" if ok else "FAILURE")
    sys.exit(0 if ok else 1)


if __name__ == "__main__":
    main()
