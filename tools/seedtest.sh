#!/bin/bash
# usage: seedtest.sh <seed-dir-name> <check-id> [more check ids]   (seed-dir under /verif/seeded)
# applies the seeded patch to /repo, runs the checks, undoes it.
set -u
name=$1; shift
d=/verif/seeded/$name
cd /repo || exit 2
if ! git diff --quiet; then echo "/repo is dirty"; exit 2; fi
git apply "$d/patch.diff" || { echo "patch does not apply"; exit 2; }
for c in "$@"; do
  echo "--- check $c with seeded change $name"
  (cd /verif && timeout 1500 ./check "$c" 2>&1 | grep -v "^KNOWN-FINDING" | tail -6)
  echo "exit=$?"
done
git -C /repo checkout -- .
(cd /verif && git checkout -- evidence 2>/dev/null; true)
