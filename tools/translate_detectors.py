#!/venv/bin/python
"""Statement-by-statement translation of the nine detectors' `detect()` methods into Gallina (Gen/DetectorsGen.v).

Translated (read with `ast` only, never imported), for each of
    detectors/rekeyto.py can_close_account.py can_close_asset.py fee_check.py is_updatable.py is_deletable.py
    anyone_can_update.py anyone_can_delete.py groupsize.py
  class attributes NAME, TYPE                                  -> <id>_NAME, <id>_TYPE : string
  detect.<locals>.checks_field / checks_group_size             -> <id>_checks_field_genE : bctx -> py bool
                                                                  <id>_checks_field_gen  : bctx -> bool (total version)
  detect.<locals>.satisfies_report_condition (groupsize)       -> <id>_satisfies_report_condition_gen
  MissingGroupSize._accessed_using_absolute_index (groupsize)  -> <id>_accessed_using_absolute_index_gen
  detect (the statements after the nested defs)                -> <id>_detect_gen
and the tables detectors_gen (name, total predicate), detector_calls_gen (name, detect_gen), and the registration
lists of detectors/all_detectors.py.  The hand-written counterpart is Model/Detect.v: the table `detectors`,
`accessed_using_absolute_index`, the dispatch on the name in `run_detector`, and Model/Driver.v: `group_checks`;
Lemmas/DetectorsGenLemmas.v relates the generated text to them.

(The closures `checks_field` are ALSO translated, independently and without the exception monad / type discipline, by
tools/translate_leaves.py into Gen/Leaves.v: checks_<name>; Model/Detect.v's table refers to those.  The lemma file proves
the two translations equal on every context.)

Reading of Python in Gallina.  The exception monad (`py A := option A`, ret, bind, ifE, notE, andE, orE) is the one of
the fixed prelude of Gen/KeysGen.v, imported, not repeated.  Pure sub-expressions stay pure, every translated function
returns in `py`.  In addition:
  * a BlockTransactionContext is the record LeafPrelude.bctx, an AddrFieldValue the record LeafPrelude.addrval; the
    attribute reads go through GLUE TABLE 1 (attr_*), which is FIXED text and fingerprinted: BlockTransactionContext.__init__
    and the dataclass AddrFieldValue must have exactly the expected source, and the class must not define a method /
    property named like one of the attributes, nor __getattr__ / __getattribute__ / __setattr__ / __slots__.
  * a python int is Z; the constants of utils/algorand_constants.py are those of Gen/Tables.v (regenerated from the same
    file); an enum member TealerTransactionType.X / TransactionType.X / DetectorType.X is the string "X" (the model's
    transaction-type sets are lists of member names), X must be a member of the enum in the source.
  * `x in l` / `x not in l` on enum members / ints: in_types / in_ints (existsb with String.eqb / Z.eqb).
  * `self.tealer` is a record `tealer_obj` (GLUE TABLE 2) holding `.output_group` and the two driver functions of
    detectors/utils.py the detect() methods call with `self.tealer` as first argument; `self` passed to a driver or to
    ExecutionPaths is the detector's identity (<id>_NAME, <id>_TYPE).  The default values of the drivers' optional
    parameters (`lambda _x: True`, `None`) are read from the signatures in detectors/utils.py (fingerprinted).
  * a BasicBlock is its id (nat) relative to the function f : func it belongs to, hence a report condition
    Callable[[List[BasicBlock]], bool] is `func -> list nat -> py bool`; an Instruction object of bb.instructions is its
    position in fn_prog f (as in Gen/StackGen.v), its class is that of `op_at`; `.instruction` of a stack value is the
    Syntax.instr (as in Gen/KeysGen.v).  isinstance(ins, (A, B)) is an explicit constructor test isa_A / isa_B of the
    model's representation of the class (dedicated constructor or `IOther "A" _`); the translator checks in
    instructions.py that none of the classes has a subclass.
  * `construct_stack_ast(bb)` is Gen/StackGen.v's construct_stack_ast_gen (translated from the tool's source);
    `construct_stack_ast.cache_clear()` is a no-op (lru_cache is read as the identity there; fingerprinted there).
  * locals: `x = e` is let / bind; a list created by `[]` in the function and only extended by `.append` is threaded
    as state; `for x in e:` is a fold over the list (evaluated once) whose state is the tuple of the variables (re)assigned
    in the body and bound before the loop; a `return v` inside the body adds a first component `option R` to the state:
    once it is `Some v` the remaining iterations do nothing and the loop is followed by `return v`; `continue` ends the
    iteration; `for a, b in e` destructures a pair.  An `if` whose branches may fall through and that is followed by more
    statements is translated with a join point when the continuation is needed more than once.

What is NOT translated (stays a parameter of the generated text = field of `tealer_obj`):
  detect_missing_tx_field_validations_group (the loop over tealer.groups / txn.logic_sig / txn.application around
  detect_missing_tx_field_validations; the model has no notion of `Teal` contract objects) and
  detect_missing_tx_field_validations_group_complete (translated in Gen/GroupGen.v).  The lemma file instantiates the first
  with the regenerated single-function search (Gen/SearchGen.v).

Fail-closed: every statement kind, expression kind, attribute name, call name, annotation and variable type that is not
whitelisted below raises TranslateError.
"""
import ast
import os
import sys

from tcommon import TranslateError, fail, parse, strip_doc, coq_str, T
from translate_keys import indent
from translate_search import unify, determined, seq, as_monadic, tlist, topt, tprod, bound_names, count_bindings, unparse_nodoc, find_def, projections, tuple_term, is_name

DET_DIR = "detectors"
UTILS_REL = "detectors/utils.py"
ALL_REL = "detectors/all_detectors.py"
ABS_REL = "detectors/abstract_detector.py"
CTX_REL = "teal/context/block_transaction_context.py"
ENUMS_REL = "utils/teal_enums.py"
CONST_REL = "utils/algorand_constants.py"
TEALER_REL = "tealer.py"
OUT_REL = "utils/output.py"
INS_REL = "teal/instructions/instructions.py"
SB_REL = "analyses/utils/stack_ast_builder.py"
BB_REL = "teal/basic_blocks.py"

# (file, class, Coq identifier prefix) in the order of the model's table Detect.detectors
DETECTORS = [
    ("rekeyto.py", "MissingRekeyTo", "rekey_to"),
    ("can_close_account.py", "CanCloseAccount", "can_close_account"),
    ("can_close_asset.py", "CanCloseAsset", "can_close_asset"),
    ("fee_check.py", "MissingFeeCheck", "missing_fee_check"),
    ("is_updatable.py", "IsUpdatable", "is_updatable"),
    ("is_deletable.py", "IsDeletable", "is_deletable"),
    ("anyone_can_update.py", "AnyoneCanUpdate", "unprotected_updatable"),
    ("anyone_can_delete.py", "AnyoneCanDelete", "unprotected_deletable"),
    ("groupsize.py", "MissingGroupSize", "group_size_check"),
]
# detector classes registered in all_detectors.py that are outside the model (optimization hints, no security property)
UNMODELLED = {"ConstantGtxn": "tealer.detectors.optimizations.constant_gtxn", "SenderAccess": "tealer.detectors.optimizations.sender_access", "SelfAccess": "tealer.detectors.optimizations.self_access"}

# ----------------------------------------------------------------------------- types
BOOL, INT, STR = ("bool",), ("Z",), ("string",)
TT, TXT = ("ttype",), ("txtype",)  # TealerTransactionType / TransactionType member (its name)
CTX, ADDR = ("bctx",), ("addrval",)
BLK, POS, INSTR, SVAL, DICT = ("blockid",), ("pos",), ("instr",), ("sval",), ("ast_dict",)
INTRES = ("intres",)
CONTRACT, GOUT, OUT = ("Contract",), ("GOut",), ("Output",)
PATH = tlist(BLK)
PATHS = tlist(PATH)

COQ_ATOM = {
    "bool": "bool", "Z": "Z", "string": "string", "ttype": "string", "txtype": "string", "bctx": "bctx", "addrval": "addrval",
    "blockid": "nat", "pos": "nat", "instr": "instr", "sval": "sval", "ast_dict": "ast_dict", "intres": "intres",
    "Contract": "Contract", "GOut": "GOut", "Output": "(Output Contract GOut)",
}  # fmt: skip


def coqty(t, top=True):
    if t[0] in COQ_ATOM:
        return COQ_ATOM[t[0]]
    if t[0] in ("list", "option"):
        if t[1] is None:
            raise TranslateError("translator: a list/None literal whose type is not determined")
        s = f"{t[0]} {coqty(t[1], False)}"
        return s if top else f"({s})"
    if t[0] == "prod":
        return f"({coqty(t[1], False)} * {coqty(t[2], False)})"
    raise TranslateError(f"translator: type {t}")


# annotations of local variables / parameters -> type
ANNOTATIONS = {
    "'ListOutput'": tlist(OUT),
    "List['Instruction']": tlist(POS),
    "List[Tuple['Teal', List[List['BasicBlock']]]]": tlist(tprod(CONTRACT, PATHS)),
}

# ----------------------------------------------------------------------------- GLUE TABLE 1 (fixed)
CTX_ATTRS = {
    "rekeyto": ("attr_rekeyto", ADDR),
    "closeto": ("attr_closeto", ADDR),
    "assetcloseto": ("attr_assetcloseto", ADDR),
    "sender": ("attr_sender", ADDR),
    "transaction_types": ("attr_transaction_types", tlist(TT)),
    "max_fee": ("attr_max_fee", INT),
    "max_fee_unknown": ("attr_max_fee_unknown", BOOL),
    "group_sizes": ("attr_group_sizes", tlist(INT)),
    "group_indices": ("attr_group_indices", tlist(INT)),
    "is_gtxn_context": ("attr_is_gtxn_context", BOOL),
}
ADDR_ATTRS = {
    "any_addr": ("attr_any_addr", BOOL),
    "no_addr": ("attr_no_addr", BOOL),
    "possible_addr": ("attr_possible_addr", tlist(STR)),
}
CONSTANTS = {"MAX_GROUP_SIZE": "const_MAX_GROUP_SIZE", "MAX_TRANSACTION_COST": "const_MAX_TRANSACTION_COST", "MAX_UINT64": "const_MAX_UINT64", "MIN_ALGORAND_FEE": "const_MIN_ALGORAND_FEE"}
ENUMS = {"TealerTransactionType": TT, "TransactionType": TXT}

# instruction classes of the model with a dedicated constructor (Model/Syntax.v: cls_of); every other class C of
# instructions.py is `IOther "C" _`.  Only the classes with a pattern here can be used in isinstance.
DEDICATED = {
    "Pragma": None, "Label": None, "Int": None, "PushInt": None, "Intcblock": None, "Intc": None, "Intc0": None, "Intc1": None,
    "Intc2": None, "Intc3": None, "Addr": None, "Txn": None, "Gtxn": "IGtxn _ _", "Gtxns": "IGtxns _", "Global": None, "Eq": None,
    "Neq": None, "Less": None, "LessE": None, "Greater": None, "GreaterE": None, "And": None, "Or": None, "Not": None, "Add": None,
    "Sub": None, "Assert": None, "Err": None, "Return": None, "B": None, "BZ": None, "BNZ": None, "Switch": None, "Match": None,
    "Callsub": None, "Retsub": None, "TealerCustomErrInstruction": None,
}  # fmt: skip

CTX_INIT_TEXT = (
    "def __init__(self, tail: bool=False) -> None:\n"
    "    if not tail:\n"
    "        self._gtxn_at_index_context = [BlockTransactionContext(True) for _ in range(MAX_GROUP_SIZE)]\n"
    "        self._abs_context = [BlockTransactionContext(True) for _ in range(MAX_GROUP_SIZE)]\n"
    "        self._relative_context = {offset: BlockTransactionContext(True) for offset in range(-(MAX_GROUP_SIZE - 1), MAX_GROUP_SIZE) if offset != 0}\n"
    "    if tail:\n"
    "        self.group_indices = []\n"
    "        self.group_sizes = []\n"
    "        self.is_gtxn_context = True\n"
    "    else:\n"
    "        self.group_sizes = list(range(1, MAX_GROUP_SIZE + 1))\n"
    "        self.group_indices = list(range(0, MAX_GROUP_SIZE))\n"
    "        self.is_gtxn_context = False\n"
    "    self.transaction_types = list(ALL_TRANSACTION_TYPES)\n"
    "    self.rekeyto: AddrFieldValue = AddrFieldValue()\n"
    "    self.closeto: AddrFieldValue = AddrFieldValue()\n"
    "    self.assetcloseto: AddrFieldValue = AddrFieldValue()\n"
    "    self.sender: AddrFieldValue = AddrFieldValue()\n"
    "    self.max_fee: int = MAX_UINT64\n"
    "    self.max_fee_unknown: bool = False"
)
ADDR_CLASS_TEXT = "@dataclass\nclass AddrFieldValue:\n    any_addr: bool = True\n    no_addr: bool = False\n    possible_addr: List[str] = field(default_factory=list)"
OUTPUT_GROUP_TEXT = "@property\ndef output_group(self) -> bool:\n    return self._output_group"
EXECUTION_PATHS_SIG = [("self", None), ("teal", "'Teal'"), ("detector", "'AbstractDetector'"), ("paths", "List[List['BasicBlock']]")]
GROUP_SIG = (
    [("tealer", "'Tealer'"), ("checks_field", "Callable[['BlockTransactionContext'], bool]"), ("satisfies_report_condition", "Callable[[List['BasicBlock']], bool]")],
    ["lambda _x: True"],
    "List[Tuple['Teal', List[List['BasicBlock']]]]",
)
GROUP_COMPLETE_SIG = (
    [("tealer", "'Tealer'"), ("detector", "'AbstractDetector'"), ("checks_field", "Callable[['BlockTransactionContext'], bool]"), ("vulnerable_transaction_types", "Optional[List[TransactionType]]")],
    ["None"],
    "List[GroupTransactionOutput]",
)

PRELUDE = r"""(* GENERATED by tools/translate.py (translate_detectors) from /repo/tealer -- do not edit *)
(* detectors/{rekeyto,can_close_account,can_close_asset,fee_check,is_updatable,is_deletable,anyone_can_update,
   anyone_can_delete,groupsize}.py: class attributes NAME / TYPE, the method detect() with its nested closures, and
   MissingGroupSize._accessed_using_absolute_index, statement by statement.  See tools/translate_detectors.py. *)
From Coq Require Import String List NArith ZArith Bool Arith.
From Tealer Require Import Tables LeafPrelude Syntax Parse Cfg StackAst Keys KeysGen StackGen Analysis.
Import ListNotations.
Open Scope string_scope.
Open Scope list_scope.

(* ====================================================================== *)
(* PRELUDE (fixed text); the exception monad is that of Gen/KeysGen.v      *)
(* ====================================================================== *)
(* ---- GLUE TABLE 1: teal/context/block_transaction_context.py as the closures read it.
   BlockTransactionContext = LeafPrelude.bctx, AddrFieldValue = LeafPrelude.addrval; all are plain instance attributes
   assigned in __init__ / dataclass fields (source text fingerprinted), so a read never raises.
     block_ctx.rekeyto / .closeto / .assetcloseto / .sender   AddrFieldValue      ctx_rekeyto .. ctx_sender
     block_ctx.transaction_types     List[TealerTransactionType]                  ctx_transaction_types (member names)
     block_ctx.max_fee               int                                          ctx_max_fee
     block_ctx.max_fee_unknown       bool                                         ctx_max_fee_unknown
     block_ctx.group_sizes / .group_indices   List[int]                           ctx_group_sizes / ctx_group_indices
     block_ctx.is_gtxn_context       bool                                         ctx_is_gtxn_context
     v.any_addr / v.no_addr / v.possible_addr                                     av_any / av_no / av_possible *)
Definition attr_rekeyto (c : bctx) : addrval := ctx_rekeyto c.
Definition attr_closeto (c : bctx) : addrval := ctx_closeto c.
Definition attr_assetcloseto (c : bctx) : addrval := ctx_assetcloseto c.
Definition attr_sender (c : bctx) : addrval := ctx_sender c.
Definition attr_transaction_types (c : bctx) : list string := ctx_transaction_types c.
Definition attr_max_fee (c : bctx) : Z := ctx_max_fee c.
Definition attr_max_fee_unknown (c : bctx) : bool := ctx_max_fee_unknown c.
Definition attr_group_sizes (c : bctx) : list Z := ctx_group_sizes c.
Definition attr_group_indices (c : bctx) : list Z := ctx_group_indices c.
Definition attr_is_gtxn_context (c : bctx) : bool := ctx_is_gtxn_context c.
Definition attr_any_addr (a : addrval) : bool := av_any a.
Definition attr_no_addr (a : addrval) : bool := av_no a.
Definition attr_possible_addr (a : addrval) : list string := av_possible a.
(* x in l / x not in l for enum members (their names) and ints *)
Definition in_types (x : string) (l : list string) : bool := existsb (String.eqb x) l.
Definition in_ints (x : Z) (l : list Z) : bool := existsb (Z.eqb x) l.
(* utils/algorand_constants.py: the values are those of Gen/Tables.v (regenerated from the same file) *)
Definition const_MAX_GROUP_SIZE : Z := Z.of_N MAX_GROUP_SIZE.
Definition const_MAX_TRANSACTION_COST : Z := Z.of_N MAX_TRANSACTION_COST.
Definition const_MAX_UINT64 : Z := Z.of_N MAX_UINT64.
Definition const_MIN_ALGORAND_FEE : Z := Z.of_N MIN_ALGORAND_FEE.
(* `not xs` for a list *)
Definition list_is_empty {A : Type} (xs : list A) : bool := match xs with [] => true | _ :: _ => false end.

(* ---- GLUE TABLE 2: the detector's environment.
   utils/output.py: Output objects.  ExecutionPaths(teal, detector, paths): detector = the NAME of the detector object
   passed (`self`); a GroupTransactionOutput is opaque (built by the group driver). *)
Inductive Output (Contract GOut : Type) : Type :=
| ExecutionPaths (teal : Contract) (detector : string) (paths : list (list nat))
| GroupTransactionOutput (g : GOut).
Arguments ExecutionPaths {Contract GOut} teal detector paths.
Arguments GroupTransactionOutput {Contract GOut} g.
(* self.tealer: Tealer.output_group (property returning self._output_group, fingerprinted) and the two functions of
   detectors/utils.py that take `self.tealer` as first argument:
     detect_missing_tx_field_validations_group(tealer, checks_field, satisfies_report_condition = lambda _x: True)
         -> List[Tuple[Teal, List[List[BasicBlock]]]]
     detect_missing_tx_field_validations_group_complete(tealer, detector, checks_field, vulnerable_transaction_types = None)
         -> List[GroupTransactionOutput]     (detector = NAME and TYPE of `self`)
   (signatures and defaults fingerprinted).  A report condition takes the function f the path's blocks belong to. *)
Record tealer_obj (Contract GOut : Type) : Type := mkTealer {
  tealer_output_group : bool;
  call_detect_missing_tx_field_validations_group :
    (bctx -> py bool) -> (func -> list nat -> py bool) -> py (list (Contract * list (list nat)));
  call_detect_missing_tx_field_validations_group_complete :
    string -> string -> (bctx -> py bool) -> option (list string) -> py (list GOut) }.
Arguments tealer_output_group {Contract GOut} t.
Arguments call_detect_missing_tx_field_validations_group {Contract GOut} t checks_field satisfies_report_condition.
Arguments call_detect_missing_tx_field_validations_group_complete {Contract GOut} t detector_name detector_type checks_field vulnerable_transaction_types.
(* the default of satisfies_report_condition: `lambda _x: True` *)
Definition default_satisfies_report_condition (_ : func) (_x : list nat) : py bool := ret true.
(* list(xs) of a list of GroupTransactionOutput returned as ListOutput *)
Definition as_outputs {Contract GOut : Type} (xs : list GOut) : list (Output Contract GOut) := map GroupTransactionOutput xs.
(* total version of a closure: an exception of the closure is "not validated" *)
Definition total_checks (c : bctx -> py bool) (x : bctx) : bool := match c x with Some b => b | None => false end.

(* ---- GLUE TABLE 3: basic blocks and instructions as _accessed_using_absolute_index reads them (f : func is the
   function the block belongs to; BasicBlock = block id, a dangling id is an exception).
     bb.instructions                 positions of the block's instructions in fn_prog f
     isinstance(ins, C)              constructor test isa_C on op_at (fn_prog f) ins (a dangling position is an exception)
     construct_stack_ast(bb)         Gen/StackGen.v construct_stack_ast_gen
     d[ins]                          ast_dict_get (KeyError)
     is_int_push_ins(i)              Model/Keys.v is_int_push_ins with the function's constant block (as Gen/KeysGen.v) *)
Definition bb_instructions (f : func) (bb : nat) : py (list nat) := bind (fblock f bb) (fun b => ret (b_ins b)).
Definition ins_isinstance (f : func) (ins : nat) (isa : instr -> bool) : py bool := bind (op_at (fn_prog f) ins) (fun i => ret (isa i)).
Definition call_construct_stack_ast (f : func) (bb : nat) : py ast_dict := bind (fblock f bb) (fun b => construct_stack_ast_gen (fn_prog f) b).
Fixpoint ast_dict_get (d : ast_dict) (k : nat) : py sval :=
  match d with [] => None | (k', v) :: t => if Nat.eqb k' k then Some v else ast_dict_get t k end.
Definition call_is_int_push_ins (f : func) (i : instr) : intres := is_int_push_ins (fn_intcs f) i.
"""

RESERVED = {
    "f", "tealer", "acc", "st", "ret", "bind", "py", "ifE", "notE", "andE", "orE", "fold_left", "map", "rev", "fst", "snd", "negb", "andb", "orb",
    "true", "false", "nil", "cons", "app", "Some", "None", "O", "S", "nat", "string", "bool", "list", "option", "Z", "bctx", "addrval", "func",
    "in", "at", "as", "fun", "let", "match", "end", "if", "then", "else", "return", "with", "forall", "exists", "fix", "cofix", "for",
    "where", "using", "Type", "Prop", "Set", "SProp", "struct", "left", "right", "inl", "inr", "pair", "tt", "eq_refl",
    "Output", "ExecutionPaths", "GroupTransactionOutput", "tealer_obj", "mkTealer", "tealer_output_group", "Contract", "GOut",
    "in_types", "in_ints", "list_is_empty", "as_outputs", "total_checks", "default_satisfies_report_condition", "bb_instructions",
    "ins_isinstance", "call_construct_stack_ast", "ast_dict_get", "call_is_int_push_ins", "intres_pushes", "attr_args", "attr_instruction",
    "subscript", "isinstance_UnknownStackValue", "is_int_push_ins", "construct_stack_ast_gen", "ast_dict", "sval", "instr", "intres",
    "self", "_",
}  # fmt: skip


# ----------------------------------------------------------------------------- environment
class Env:
    def __init__(self, path, imports, vars_, ret, kind, ident, nested=None, enums=None, classes=None):
        self.path = path
        self.imports = imports  # module-level bindings of the file
        self.vars = dict(vars_)  # python local -> type
        self.ret = ret  # return type
        self.kind = kind  # "checks" | "report" | "accessed" | "detect"
        self.ident = ident  # Coq identifier prefix of the detector
        self.nested = nested or {}  # nested closure name -> ("checks"|"report", coq ident)
        self.enums = enums or {}
        self.classes = classes or {}  # static methods available through self.: name -> coq ident
        self.counter = [0, 0]
        self.loop = None
        self.on_return = None
        self.fresh_lists = set()  # locals created by `[]` (may be .append-ed)
        self.isa_used = None  # shared list of instruction classes used in isinstance

    def child(self, **new):
        e = Env(self.path, self.imports, self.vars, self.ret, self.kind, self.ident, self.nested, self.enums, self.classes)
        e.counter = self.counter
        e.loop = self.loop
        e.on_return = self.on_return
        e.fresh_lists = self.fresh_lists
        e.isa_used = self.isa_used
        e.vars.update(new)
        return e

    def fresh(self):
        self.counter[0] += 1
        return f"tmp{self.counter[0]}"

    def fresh_join(self):
        self.counter[1] += 1
        return f"k{self.counter[1]}"


def need_import(env, node, name, origin):
    if name in env.vars:
        fail(env.path, node, f"{name} is shadowed by a local variable")
    if env.imports.get(name) != origin:
        fail(env.path, node, f"name {name} is bound to {env.imports.get(name)}, expected {origin}")


def check_name(env, name, node):
    if name in RESERVED or name.startswith("tmp") or (name.startswith("k") and name[1:].isdigit()) or name.startswith(("attr_", "const_", "isa_", "call_")) or name.endswith(("_gen", "_genE", "_NAME", "_TYPE")):
        fail(env.path, node, f"variable name {name} is reserved by the translator")
    if not name.isidentifier() or not name.isascii():
        fail(env.path, node, f"variable name {name}")


def coerce(env, node, t, ty, want):
    if want is None:
        return t, ty
    u = unify(ty, want)
    if u is not None:
        return t, u
    fail(env.path, node, f"value of type {ty} where {want} is expected")


def expr(env, e, want=None):
    """-> (term, type, pure)"""
    t, ty, pure = expr0(env, e, want)
    if pure:
        t, ty = coerce(env, e, t, ty, want)
    else:
        u = unify(ty, want)
        if u is None:
            fail(env.path, e, f"value of type {ty} where {want} is expected")
        ty = u
    return t, ty, pure


CMP = {ast.LtE: "Z.leb", ast.Lt: "Z.ltb", ast.GtE: "Z.geb", ast.Gt: "Z.gtb", ast.Eq: "Z.eqb"}


def enum_member(env, e):
    """TealerTransactionType.X / TransactionType.X -> (term, type) or None"""
    if isinstance(e, ast.Attribute) and isinstance(e.value, ast.Name) and e.value.id in ENUMS and e.value.id not in env.vars:
        en = e.value.id
        need_import(env, e, en, "tealer.utils.teal_enums." + en)
        if e.attr not in env.enums[en]:
            fail(env.path, e, f"{e.attr} is not a member of {en}")
        return coq_str(e.attr), ENUMS[en]
    return None


def expr0(env, e, want):
    p = env.path
    if isinstance(e, ast.Constant):
        if e.value is True:
            return "true", BOOL, True
        if e.value is False:
            return "false", BOOL, True
        if e.value is None:
            return "None", (want if want and want[0] == "option" else topt(None)), True
        if isinstance(e.value, int):
            return f"({e.value})%Z", INT, True
        fail(p, e, "constant " + ast.unparse(e))
    if isinstance(e, ast.Name):
        if e.id in env.vars:
            return e.id, env.vars[e.id], True
        if e.id in CONSTANTS:
            need_import(env, e, e.id, "tealer.utils.algorand_constants." + e.id)
            return CONSTANTS[e.id], INT, True
        fail(p, e, f"unknown name {e.id}")
    if isinstance(e, ast.List):
        ew = want[1] if want and want[0] == "list" else None
        if not e.elts:
            return "[]", tlist(ew), True
        parts = [expr(env, x, ew) for x in e.elts]
        ty = None
        for (_, t1, _), x in zip(parts, e.elts):
            ty2 = unify(ty, t1) if ty is not None else t1
            if ty2 is None:
                fail(p, x, "list literal with elements of different types")
            ty = ty2
        out, pure = seq(env, [(t, pu) for t, _, pu in parts], lambda *a: "[" + "; ".join(a) + "]")
        return out, tlist(ty), pure
    if isinstance(e, ast.Attribute):
        m = enum_member(env, e)
        if m is not None:
            return m[0], m[1], True
        if env.kind == "detect" and ast.unparse(e) == "self.tealer.output_group" and "self" not in env.vars:
            return "(tealer_output_group tealer)", BOOL, True
        if e.attr == "instructions" and env.kind == "accessed":
            v, vty, vp = expr(env, e.value, BLK)
            out, _ = seq(env, [(v, vp)], lambda a: f"(bb_instructions f {a})", monadic_result=True)
            return out, tlist(POS), False
        if e.attr in ("args", "instruction") and env.kind == "accessed":
            v, vty, vp = expr(env, e.value, SVAL)
            fn, rty = {"args": ("attr_args", tlist(SVAL)), "instruction": ("attr_instruction", INSTR)}[e.attr]
            out, _ = seq(env, [(v, vp)], lambda a: f"({fn} {a})", monadic_result=True)
            return out, rty, False
        if env.kind == "checks":
            v, vty, vp = expr(env, e.value)
            table = {CTX: CTX_ATTRS, ADDR: ADDR_ATTRS}.get(vty)
            if table is None or e.attr not in table:
                fail(p, e, f"attribute .{e.attr} of a value of type {vty}")
            fn, rty = table[e.attr]
            out, pure = seq(env, [(v, vp)], lambda a: f"({fn} {a})")
            return out, rty, pure
        fail(p, e, "attribute " + ast.unparse(e))
    if isinstance(e, ast.Subscript):
        v, vty, vp = expr(env, e.value)
        if vty == DICT and env.kind == "accessed":
            k, _, kp = expr(env, e.slice, POS)
            out, _ = seq(env, [(v, vp), (k, kp)], lambda a, b: f"(ast_dict_get {a} {b})", monadic_result=True)
            return out, SVAL, False
        if vty[0] == "list" and determined(vty) and isinstance(e.slice, ast.Constant) and isinstance(e.slice.value, int) and not isinstance(e.slice.value, bool) and e.slice.value >= 0:
            out, _ = seq(env, [(v, vp)], lambda a: f"(subscript {a} {e.slice.value})", monadic_result=True)
            return out, vty[1], False
        fail(p, e, "subscript " + ast.unparse(e))
    if isinstance(e, ast.UnaryOp):
        if isinstance(e.op, ast.Not):
            # `not xs` on a list: emptiness
            if isinstance(e.operand, ast.Name) and e.operand.id in env.vars and env.vars[e.operand.id][0] == "list":
                return f"(list_is_empty {e.operand.id})", BOOL, True
            t, ty, pure = expr(env, e.operand, BOOL)
            return (f"(negb {t})" if pure else f"(notE {t})"), BOOL, pure
        fail(p, e, "unary operator " + ast.unparse(e))
    if isinstance(e, ast.BoolOp):
        parts = [expr(env, v, BOOL) for v in e.values]
        isand = isinstance(e.op, ast.And)
        if all(pu for _, _, pu in parts):
            fn = "andb" if isand else "orb"
            out = parts[-1][0]
            for t, _, _ in reversed(parts[:-1]):
                out = f"({fn} {t} {out})"
            return out, BOOL, True
        fn = "andE" if isand else "orE"
        out = as_monadic(parts[-1][0], parts[-1][2])
        for t, _, pu in reversed(parts[:-1]):
            out = f"({fn} {as_monadic(t, pu)} {out})"
        return out, BOOL, False
    if isinstance(e, ast.Compare):
        if len(e.ops) != 1:
            fail(p, e, "chained comparison")
        op = e.ops[0]
        if isinstance(op, (ast.In, ast.NotIn)):
            x, xty, xp = expr(env, e.left)
            l, lty, lp = expr(env, e.comparators[0], tlist(xty))
            fn = {TT: "in_types", TXT: "in_types", INT: "in_ints"}.get(xty)
            if fn is None or lty != tlist(xty):
                fail(p, e, f"`in` on values of types {xty}, {lty}")
            neg = isinstance(op, ast.NotIn)
            out, pure = seq(env, [(x, xp), (l, lp)], lambda a, b: f"(negb ({fn} {a} {b}))" if neg else f"({fn} {a} {b})")
            return out, BOOL, pure
        if type(op) in CMP or isinstance(op, ast.NotEq):
            l, _, lp = expr(env, e.left, INT)
            r, _, rp = expr(env, e.comparators[0], INT)
            if isinstance(op, ast.NotEq):
                out, pure = seq(env, [(l, lp), (r, rp)], lambda a, b: f"(negb (Z.eqb {a} {b}))")
            else:
                out, pure = seq(env, [(l, lp), (r, rp)], lambda a, b: f"({CMP[type(op)]} {a} {b})")
            return out, BOOL, pure
        fail(p, e, "comparison " + ast.unparse(e))
    if isinstance(e, ast.Call):
        return call(env, e)
    fail(p, e, "expression " + ast.unparse(e)[:60])


def isinstance_classes(env, node):
    """second argument of isinstance on an instruction -> list of class names (each with a constructor test)"""
    cs = node.elts if isinstance(node, ast.Tuple) else [node]
    out = []
    for c in cs:
        if not isinstance(c, ast.Name):
            fail(env.path, c, "class in isinstance")
        need_import(env, c, c.id, "tealer.teal.instructions.instructions." + c.id)
        if c.id in DEDICATED and DEDICATED[c.id] is None:
            fail(env.path, c, f"no constructor pattern for the instruction class {c.id}")
        if c.id not in env.isa_used:
            env.isa_used.append(c.id)
        out.append(c.id)
    if not out:
        fail(env.path, node, "isinstance against an empty tuple")
    return out


def call(env, e):
    p = env.path
    if e.keywords:
        fail(p, e, "call with keyword arguments " + ast.unparse(e)[:60])
    fu = ast.unparse(e.func)
    if fu == "isinstance" and "isinstance" not in env.vars and len(e.args) == 2 and env.kind == "accessed":
        v, vty, vp = expr(env, e.args[0])
        if vty == SVAL and is_name(e.args[1], "UnknownStackValue"):
            need_import(env, e, "UnknownStackValue", "tealer.analyses.utils.stack_ast_builder.UnknownStackValue")
            out, pure = seq(env, [(v, vp)], lambda a: f"(isinstance_UnknownStackValue {a})")
            return out, BOOL, pure
        if vty == POS:
            cs = isinstance_classes(env, e.args[1])
            test = f"isa_{cs[-1]} i"
            for c in reversed(cs[:-1]):
                test = f"orb (isa_{c} i) ({test})"
            out, _ = seq(env, [(v, vp)], lambda a: f"(ins_isinstance f {a} (fun i => {test}))", monadic_result=True)
            return out, BOOL, False
        fail(p, e, f"isinstance of a value of type {vty}")
    if fu == "construct_stack_ast" and env.kind == "accessed" and len(e.args) == 1:
        need_import(env, e, fu, "tealer.analyses.utils.stack_ast_builder.construct_stack_ast")
        v, _, vp = expr(env, e.args[0], BLK)
        out, _ = seq(env, [(v, vp)], lambda a: f"(call_construct_stack_ast f {a})", monadic_result=True)
        return out, DICT, False
    if fu == "is_int_push_ins" and env.kind == "accessed" and len(e.args) == 1:
        need_import(env, e, fu, "tealer.utils.analyses.is_int_push_ins")
        v, _, vp = expr(env, e.args[0], INSTR)
        out, pure = seq(env, [(v, vp)], lambda a: f"(call_is_int_push_ins f {a})")
        return out, INTRES, pure
    if isinstance(e.func, ast.Attribute) and is_name(e.func.value, "self") and "self" not in env.vars and env.kind == "report" and len(e.args) == 1:
        if e.func.attr not in env.classes:
            fail(p, e, f"self.{e.func.attr} is not a translated static method")
        v, _, vp = expr(env, e.args[0], BLK)
        out, _ = seq(env, [(v, vp)], lambda a: f"({env.classes[e.func.attr]} f {a})", monadic_result=True)
        return out, BOOL, False
    if env.kind == "detect":
        return driver_call(env, e)
    fail(p, e, "call " + ast.unparse(e)[:60])


def closure_arg(env, node, role):
    if not isinstance(node, ast.Name) or node.id in env.vars or node.id not in env.nested or env.nested[node.id][0] != role:
        fail(env.path, node, f"argument {ast.unparse(node)[:40]}: expected the nested function of role {role}")
    return env.nested[node.id][1]


def driver_call(env, e):
    p = env.path
    fu = ast.unparse(e.func)
    if fu == "list" and "list" not in env.vars and len(e.args) == 1:
        v, vty, vp = expr(env, e.args[0])
        if vty != tlist(GOUT):
            fail(p, e, f"list() of a value of type {vty}")
        out, pure = seq(env, [(v, vp)], lambda a: f"(as_outputs {a})")
        return out, tlist(OUT), pure
    if fu == "detect_missing_tx_field_validations_group" and len(e.args) in (2, 3):
        need_import(env, e, fu, "tealer.detectors.utils." + fu)
        if ast.unparse(e.args[0]) != "self.tealer" or "self" in env.vars:
            fail(p, e, "first argument of the driver is not self.tealer")
        checks = closure_arg(env, e.args[1], "checks")
        report = closure_arg(env, e.args[2], "report") if len(e.args) == 3 else "default_satisfies_report_condition"
        return f"(call_detect_missing_tx_field_validations_group tealer {checks} {report})", tlist(tprod(CONTRACT, PATHS)), False
    if fu == "detect_missing_tx_field_validations_group_complete" and len(e.args) in (3, 4):
        need_import(env, e, fu, "tealer.detectors.utils." + fu)
        if ast.unparse(e.args[0]) != "self.tealer" or not is_name(e.args[1], "self") or "self" in env.vars:
            fail(p, e, "first arguments of the driver are not self.tealer, self")
        checks = closure_arg(env, e.args[2], "checks")
        vt = "None"
        if len(e.args) == 4:
            t, ty, pure = expr(env, e.args[3], tlist(TXT))
            if not pure or not isinstance(e.args[3], ast.List):
                fail(p, e, "vulnerable_transaction_types is not a list literal")
            vt = f"(Some {t})"
        return f"(call_detect_missing_tx_field_validations_group_complete tealer {env.ident}_NAME {env.ident}_TYPE {checks} {vt})", tlist(GOUT), False
    if fu == "ExecutionPaths" and len(e.args) == 3:
        need_import(env, e, fu, "tealer.utils.output.ExecutionPaths")
        if not is_name(e.args[1], "self") or "self" in env.vars:
            fail(p, e, "second argument of ExecutionPaths is not self")
        c, _, cp = expr(env, e.args[0], CONTRACT)
        ps, _, pp = expr(env, e.args[2], PATHS)
        out, pure = seq(env, [(c, cp), (ps, pp)], lambda a, b: f"(@ExecutionPaths Contract GOut {a} {env.ident}_NAME {b})")
        return out, OUT, pure
    fail(p, e, "call " + ast.unparse(e)[:60])


# ----------------------------------------------------------------------------- statements
FORBIDDEN = (ast.While, ast.Try, ast.With, ast.AsyncFunctionDef, ast.Lambda, ast.NamedExpr, ast.AugAssign, ast.Delete, ast.Global, ast.Nonlocal, ast.GeneratorExp, ast.SetComp, ast.DictComp, ast.ListComp, ast.Yield, ast.YieldFrom, ast.Raise, ast.Break, ast.Await, ast.ClassDef, ast.Import, ast.ImportFrom, ast.Starred, ast.Assert, ast.IfExp)


def is_append(st):
    v = st.value
    return isinstance(v, ast.Call) and isinstance(v.func, ast.Attribute) and v.func.attr == "append" and isinstance(v.func.value, ast.Name) and len(v.args) == 1 and not v.keywords


def assigned_in(env, stmts):
    out = []

    def add(n):
        if n not in out:
            out.append(n)

    for st in stmts:
        for node in ast.walk(st):
            if isinstance(node, FORBIDDEN) or isinstance(node, ast.FunctionDef):
                fail(env.path, node, "statement/expression not accepted: " + type(node).__name__)
            if isinstance(node, (ast.Assign, ast.AnnAssign)):
                for tg in node.targets if isinstance(node, ast.Assign) else [node.target]:
                    for n in ast.walk(tg):
                        if isinstance(n, ast.Name) and n.id != "_":
                            add(n.id)
            if isinstance(node, ast.For):
                for n in ast.walk(node.target):
                    if isinstance(n, ast.Name):
                        add(n.id)
            if isinstance(node, ast.Expr) and is_append(node):
                add(node.value.func.value.id)
    return out


def bind_var(env, name, node, t, ty, pure, rest_of):
    check_name(env, name, node)
    if name in env.nested:
        fail(env.path, node, f"{name} is a nested function")
    if name in env.vars:
        ty2 = unify(env.vars[name], ty)
        if ty2 is None:
            fail(env.path, node, f"re-assignment of {name} changes its type from {env.vars[name]} to {ty}")
        ty = ty2
    if not determined(ty):
        fail(env.path, node, f"the type of {name} is not determined: {ty}")
    rest = rest_of(env.child(**{name: ty}))
    if pure:
        if t == "[]":  # an empty list literal: its type is stated (nothing else may determine it)
            return f"(let {name} : {coqty(ty)} := {t} in\n{rest})"
        return f"(let {name} := {t} in\n{rest})"
    return f"(bind {t} (fun {name} =>\n{rest}))"


def do_return(env, st):
    if st.value is None:
        fail(env.path, st, "bare return")
    t, ty, pure = expr(env, st.value, env.ret)
    if env.on_return is not None:
        return env.on_return(t, pure)
    return as_monadic(t, pure)


def block(env, stmts, fall):
    """fall: env -> term for what follows (None: the function ends, which is an error: no implicit `return None`)"""
    p = env.path
    stmts = strip_doc(stmts)
    if not stmts:
        if fall is None:
            raise TranslateError(f"translator: {p}: control reaches the end of a function without return")
        return fall(env)
    st, rest = stmts[0], stmts[1:]
    rest_of = lambda env2: block(env2, rest, fall)  # noqa: E731
    if isinstance(st, ast.Return):
        if rest:
            fail(p, rest[0], "statement after return")
        return do_return(env, st)
    if isinstance(st, ast.Continue):
        if rest:
            fail(p, rest[0], "statement after continue")
        if env.loop is None:
            fail(p, st, "continue outside a loop")
        return env.loop["end"](env)
    if isinstance(st, ast.Pass):
        return rest_of(env)
    if isinstance(st, (ast.Assign, ast.AnnAssign)):
        want = None
        if isinstance(st, ast.Assign):
            if len(st.targets) != 1:
                fail(p, st, "chained assignment")
            tg, value = st.targets[0], st.value
        else:
            tg, value = st.target, st.value
            if value is None or not isinstance(tg, ast.Name):
                fail(p, st, "annotated assignment " + ast.unparse(st)[:60])
            an = ast.unparse(st.annotation)
            if an not in ANNOTATIONS:
                fail(p, st, f"annotation {an}")
            want = ANNOTATIONS[an]
        if isinstance(tg, ast.Name):
            if tg.id in env.vars and tg.id in env.fresh_lists:
                fail(p, st, f"re-assignment of the list object {tg.id}")
            t, ty, pure = expr(env, value, want or env.vars.get(tg.id))
            if isinstance(value, ast.List) and not value.elts and tg.id not in env.vars:
                env.fresh_lists.add(tg.id)
            elif isinstance(value, ast.Name):
                fail(p, st, "aliasing assignment " + ast.unparse(st)[:60])
            return bind_var(env, tg.id, st, t, ty, pure, rest_of)
        # is_int, _ = is_int_push_ins(x)
        if isinstance(tg, ast.Tuple) and len(tg.elts) == 2 and all(isinstance(x, ast.Name) for x in tg.elts) and tg.elts[1].id == "_" and tg.elts[0].id != "_":
            t, ty, pure = expr(env, value)
            if ty != INTRES:
                fail(p, st, f"destructuring of a value of type {ty}")
            out, pure2 = seq(env, [(t, pure)], lambda a: f"(intres_pushes {a})")
            return bind_var(env, tg.elts[0].id, st, out, BOOL, pure2, rest_of)
        fail(p, st, "assignment target " + ast.unparse(tg))
    if isinstance(st, ast.Expr):
        if is_append(st):
            x = st.value.func.value.id
            if x not in env.vars or x not in env.fresh_lists or env.vars[x][0] != "list":
                fail(p, st, f".append on {x}: only a list created by `[]` in this function may be mutated")
            t, ty, pure = expr(env, st.value.args[0], env.vars[x][1])
            out, pure2 = seq(env, [(t, pure)], lambda a: f"({x} ++ [{a}])")
            return bind_var(env, x, st, out, env.vars[x], pure2, rest_of)
        if ast.unparse(st.value) == "construct_stack_ast.cache_clear()" and env.kind == "detect":
            # lru_cache is read as the identity (Gen/StackGen.v, fingerprinted by translate_stack): clearing it is a no-op
            need_import(env, st, "construct_stack_ast", "tealer.analyses.utils.stack_ast_builder.construct_stack_ast")
            return rest_of(env)
        fail(p, st, "expression statement " + ast.unparse(st)[:60])
    if isinstance(st, ast.If):
        if not rest:
            return if_term(env, st, fall)
        uses = [0]

        def probe(_env):
            uses[0] += 1
            return "K"

        saved = list(env.counter)
        saved_lists = set(env.fresh_lists)
        if_term(env, st, probe)
        env.counter[:] = saved
        env.fresh_lists.clear()
        env.fresh_lists.update(saved_lists)
        if uses[0] == 0:
            fail(p, rest[0], "unreachable statement")
        if uses[0] == 1:
            return if_term(env, st, rest_of)
        join = [v for v in assigned_in(env, [st]) if v in env.vars]
        kn = env.fresh_join()
        body = block(env, rest, fall)
        params = " ".join(f"({v} : {coqty(env.vars[v])})" for v in join) or "(_ : unit)"

        def callk(env2):
            for v in join:
                if env2.vars[v] != env.vars[v]:
                    fail(p, st, f"the type of {v} differs at the join point")
            return f"({kn} {' '.join(join) or 'tt'})"

        return f"(let {kn} := (fun {params} =>\n{indent(body, 2)}) in\n{if_term(env, st, callk)})"
    if isinstance(st, ast.For):
        return for_term(env, st, rest_of)
    fail(p, st, "statement " + ast.unparse(st)[:60])


def if_term(env, st, k):
    """k: env -> term for what follows the if (None: the function ends here, every branch must return)"""

    def off_the_end(_env):
        raise TranslateError(f"translator: {env.path}:{st.lineno}: control reaches the end of a function without return")

    cont = k if k is not None else off_the_end
    t, ty, pure = expr(env, st.test, BOOL)
    then_t = block(env, st.body, cont)
    else_t = block(env, st.orelse, cont) if st.orelse else cont(env)
    if pure:
        return f"(if {t}\n then\n{indent(then_t)}\n else\n{else_t})"
    return f"(ifE {t}\n{indent(then_t)}\n{else_t})"


def for_term(env, st, rest_of):
    p = env.path
    if st.orelse or getattr(st, "type_comment", None) or env.loop is not None:
        fail(p, st, "for-else / nested loop")
    pair = None
    if isinstance(st.target, ast.Name):
        x = st.target.id
        check_name(env, x, st)
    elif isinstance(st.target, ast.Tuple) and len(st.target.elts) == 2 and all(isinstance(n, ast.Name) for n in st.target.elts):
        pair = [n.id for n in st.target.elts]
        if pair[0] == pair[1]:
            fail(p, st, "loop header " + ast.unparse(st)[:60])
        for n in pair:
            check_name(env, n, st)
        x = env.fresh()
    else:
        fail(p, st, "loop header " + ast.unparse(st)[:60])
    for n in pair or [x]:
        if n in env.vars or n in env.nested:
            fail(p, st, f"loop variable {n} shadows a variable")
    l, lty, lpure = expr(env, st.iter)
    if lty[0] != "list" or not determined(lty):
        fail(p, st, f"iteration over a value of type {lty}")
    if isinstance(st.iter, ast.Name) and st.iter.id in env.fresh_lists:
        # the iterated list object must not be mutated by the body
        for node in ast.walk(st):
            if isinstance(node, ast.Expr) and is_append(node) and node.value.func.value.id == st.iter.id:
                fail(p, node, "the loop body mutates the list it iterates over")
    body = strip_doc(st.body)
    assigned = assigned_in(env, body)
    if any(n in assigned for n in (pair or [x])):
        fail(p, st, "loop body assigns the loop variable")
    early = any(isinstance(n, ast.Return) for b in body for n in ast.walk(b))
    state = [n for n in assigned if n in env.vars]
    comps = (["early"] if early else []) + state
    if not comps:
        fail(p, st, "loop without carried variable")
    rty = coqty(env.ret)
    stv = "st"
    projs = projections(len(comps), stv)
    if pair:
        if lty[1][0] != "prod":
            fail(p, st, f"destructuring loop over a value of type {lty}")
        benv = env.child(**{pair[0]: lty[1][1], pair[1]: lty[1][2]})
    else:
        benv = env.child(**{x: lty[1]})

    def pack(first):
        return tuple_term(([first] if early else []) + state)

    def body_end(env2):
        for n in state:
            if env2.vars[n] != env.vars[n]:
                fail(p, st, f"loop body changes the type of {n}")
        return f"(ret {pack(f'(@None {rty})')})"

    def on_return(t, pure):
        if pure:
            return f"(ret {pack(f'(Some {t})')})"
        v = env.fresh()
        return f"(bind {t} (fun {v} => (ret {pack(f'(Some {v})')})))"

    benv.loop = {"state": state, "early": early, "end": body_end}
    benv.on_return = on_return if early else None
    body_t = block(benv, body, body_end)
    if pair:
        body_t = f"(let {pair[0]} := (fst {x}) in\n(let {pair[1]} := (snd {x}) in\n{body_t}))"
    if early:
        body_t = f"(match {projs[0]} with\n | Some _ => (ret {stv})\n | None =>\n{indent(body_t)}\n end)"
    for n, pr in reversed(list(zip(state, projs[1:] if early else projs))):
        body_t = f"(let {n} := {pr} in\n{body_t})"
    lv = env.fresh() if not lpure else None
    lterm = lv if lv else l
    loop = f"(fold_left (fun acc {x} => (bind acc (fun {stv} =>\n{indent(body_t, 2)})))\n  {lterm} (ret {pack(f'(@None {rty})')}))"
    tmp = env.fresh()
    after = rest_of(env)
    aprojs = projections(len(comps), tmp)
    if early:
        v = env.fresh()
        ret_t = env.on_return(v, True) if env.on_return else f"(ret {v})"
        after = f"(match {aprojs[0]} with\n | Some {v} => {ret_t}\n | None =>\n{indent(after)}\n end)"
    for n, pr in reversed(list(zip(state, aprojs[1:] if early else aprojs))):
        after = f"(let {n} := {pr} in\n{after})"
    out = f"(bind {loop} (fun {tmp} =>\n{after}))"
    if lv:
        out = f"(bind {l} (fun {lv} =>\n{out}))"
    return out


# ----------------------------------------------------------------------------- source checks
def signature(path, fn, expected, defaults=(), decorators=(), returns=None):
    a = fn.args
    if a.vararg or a.kwarg or a.kwonlyargs or a.posonlyargs or a.kw_defaults:
        fail(path, fn, "signature of " + fn.name)
    if [ast.unparse(d) for d in a.defaults] != list(defaults):
        fail(path, fn, f"defaults of {fn.name}: {[ast.unparse(d) for d in a.defaults]}")
    if [ast.unparse(d) for d in fn.decorator_list] != list(decorators):
        fail(path, fn, f"decorators of {fn.name}: {[ast.unparse(d) for d in fn.decorator_list]}")
    got = [(x.arg, ast.unparse(x.annotation) if x.annotation else None) for x in a.args]
    if got != expected:
        fail(path, fn, f"signature of {fn.name}: {got}")
    if returns is not None and (ast.unparse(fn.returns) if fn.returns else None) != returns:
        fail(path, fn, f"return annotation of {fn.name}")


def one_class(path, tree, name):
    cs = [n for n in tree.body if isinstance(n, ast.ClassDef) and n.name == name]
    if len(cs) != 1:
        raise TranslateError(f"translator: {path}: expected exactly one class {name}")
    return cs[0]


def enum_members(path, tree, name):
    c = one_class(path, tree, name)
    out = []
    for m in c.body:
        if isinstance(m, ast.Assign) and len(m.targets) == 1 and isinstance(m.targets[0], ast.Name):
            out.append(m.targets[0].id)
    if not out:
        raise TranslateError(f"translator: {path}: enum {name} has no members")
    return out


def check_glue():
    """fingerprints of the source the three glue tables stand for"""
    # --- GLUE TABLE 1
    path = os.path.join(T, CTX_REL)
    tree = parse(path)
    cls = one_class(path, tree, "BlockTransactionContext")
    if cls.bases or cls.keywords or cls.decorator_list:
        fail(path, cls, "class BlockTransactionContext has bases / decorators")
    init = find_def(path, tree, "BlockTransactionContext", "__init__")
    got = unparse_nodoc(init)
    if got != CTX_INIT_TEXT:
        fail(path, init, "BlockTransactionContext.__init__ is no longer the text the glue table stands for:\n" + got)
    for m in cls.body:
        names = []
        if isinstance(m, (ast.FunctionDef, ast.AsyncFunctionDef, ast.ClassDef)):
            names = [m.name]
        elif isinstance(m, ast.Assign):
            names = [n.id for t in m.targets for n in ast.walk(t) if isinstance(n, ast.Name)]
        elif isinstance(m, ast.AnnAssign) and isinstance(m.target, ast.Name):
            names = [m.target.id]
        for n in names:
            if n in CTX_ATTRS or n in ("__getattr__", "__getattribute__", "__setattr__", "__slots__", "__new__"):
                fail(path, m, f"class BlockTransactionContext defines {n}: the attribute read is no longer a plain read")
    acls = one_class(path, tree, "AddrFieldValue")
    if ast.unparse(acls) != ADDR_CLASS_TEXT:
        fail(path, acls, "class AddrFieldValue is no longer the dataclass the glue table stands for:\n" + ast.unparse(acls))
    b = bound_names(tree)
    for n, o in (("dataclass", "dataclasses.dataclass"), ("field", "dataclasses.field"), ("MAX_GROUP_SIZE", "tealer.utils.algorand_constants.MAX_GROUP_SIZE"), ("MAX_UINT64", "tealer.utils.algorand_constants.MAX_UINT64"), ("ALL_TRANSACTION_TYPES", "tealer.utils.teal_enums.ALL_TRANSACTION_TYPES")):
        if b.get(n) != o or count_bindings(tree, n) != 1:
            raise TranslateError(f"translator: {path}: name {n} is bound to {b.get(n)} ({count_bindings(tree, n)} bindings), expected {o}")
    # --- enums
    epath = os.path.join(T, ENUMS_REL)
    etree = parse(epath)
    enums = {en: enum_members(epath, etree, en) for en in ENUMS}
    apath = os.path.join(T, ABS_REL)
    atree = parse(apath)
    enums["DetectorType"] = enum_members(apath, atree, "DetectorType")
    # --- GLUE TABLE 2
    init = find_def(apath, atree, "AbstractDetector", "__init__")
    if [(x.arg) for x in init.args.args] != ["self", "tealer"] or sum(1 for s in init.body if ast.unparse(s) == "self.tealer = tealer") != 1:
        fail(apath, init, "AbstractDetector.__init__ no longer stores its argument in self.tealer")
    for n in ast.walk(one_class(apath, atree, "AbstractDetector")):
        if isinstance(n, ast.FunctionDef) and n.name in ("tealer", "__getattr__", "__getattribute__"):
            fail(apath, n, f"AbstractDetector.{n.name} is defined as a method/property")
    tpath = os.path.join(T, TEALER_REL)
    ttree = parse(tpath)
    og = find_def(tpath, ttree, "Tealer", "output_group")
    if unparse_nodoc(og) != OUTPUT_GROUP_TEXT:
        fail(tpath, og, "Tealer.output_group is no longer the property the glue table stands for")
    upath = os.path.join(T, UTILS_REL)
    utree = parse(upath)
    for name, (args, defaults, returns) in (("detect_missing_tx_field_validations_group", GROUP_SIG), ("detect_missing_tx_field_validations_group_complete", GROUP_COMPLETE_SIG)):
        fs = [n for n in utree.body if isinstance(n, ast.FunctionDef) and n.name == name]
        if len(fs) != 1 or count_bindings(utree, name) != 1:
            raise TranslateError(f"translator: {upath}: expected exactly one binding of {name}")
        signature(upath, fs[0], args, defaults=defaults, returns=returns)
    opath = os.path.join(T, OUT_REL)
    otree = parse(opath)
    ep = find_def(opath, otree, "ExecutionPaths", "__init__")
    signature(opath, ep, EXECUTION_PATHS_SIG)
    for want in ("self._teal = teal", "self._detector = detector", "self.paths: List[List['BasicBlock']] = paths"):
        if sum(1 for s in ep.body if ast.unparse(s) == want) != 1:
            fail(opath, ep, f"ExecutionPaths.__init__ no longer contains `{want}`")
    # --- GLUE TABLE 3
    bpath = os.path.join(T, BB_REL)
    btree = parse(bpath)
    ins = find_def(bpath, btree, "BasicBlock", "instructions")
    if unparse_nodoc(ins) != "@property\ndef instructions(self) -> List[Instruction]:\n    return self._instructions":
        fail(bpath, ins, "BasicBlock.instructions is no longer the property the glue table stands for:\n" + unparse_nodoc(ins))
    return enums


def check_no_subclasses(classes):
    path = os.path.join(T, INS_REL)
    tree = parse(path)
    seen = set()
    for node in tree.body:
        if isinstance(node, ast.ClassDef):
            seen.add(node.name)
            for b in node.bases:
                if ast.unparse(b) in classes:
                    fail(path, node, f"class {node.name} derives from {ast.unparse(b)}: isinstance is no longer a constructor test")
    for c in classes:
        if c not in seen:
            raise TranslateError(f"translator: {path}: class {c} not found")
    spath = os.path.join(T, SB_REL)
    stree = parse(spath)
    for node in stree.body:
        if isinstance(node, ast.ClassDef):
            for b in node.bases:
                if ast.unparse(b) in ("UnknownStackValue", "KnownStackValue"):
                    fail(spath, node, f"class {node.name} derives from {ast.unparse(b)}")


def free_names(fn):
    """names read in the body of a function that are not its parameters / locals (annotations are not evaluated:
    the detector modules are checked to use string annotations or typing names only there)"""
    params = {a.arg for a in fn.args.args}
    nodes = [n for st in fn.body for n in ast.walk(st)]
    for n in nodes:
        if isinstance(n, ast.AnnAssign):
            for m in ast.walk(n.annotation):
                m._is_annotation = True
    names = [n for n in nodes if isinstance(n, ast.Name) and not getattr(n, "_is_annotation", False)]
    stores = {n.id for n in names if isinstance(n.ctx, ast.Store)}
    return {n.id for n in names if isinstance(n.ctx, ast.Load)} - params - stores


# ----------------------------------------------------------------------------- one detector
def translate_detector(w, fname, cls_name, ident, enums, isa_used):
    path = os.path.join(T, DET_DIR, fname)
    tree = parse(path)
    imports = bound_names(tree)
    cls = one_class(path, tree, cls_name)
    if [ast.unparse(b) for b in cls.bases] != ["AbstractDetector"] or cls.keywords or cls.decorator_list:
        fail(path, cls, f"bases / decorators of {cls_name}")
    if imports.get("AbstractDetector") != "tealer.detectors.abstract_detector.AbstractDetector" or imports.get("DetectorType") != "tealer.detectors.abstract_detector.DetectorType":
        raise TranslateError(f"translator: {path}: AbstractDetector / DetectorType are not imported from tealer.detectors.abstract_detector")
    if sum(1 for n in tree.body if isinstance(n, ast.ClassDef)) != 1:
        raise TranslateError(f"translator: {path}: more than one class in the module")
    meta = {}
    methods = {}
    for m in cls.body:
        if isinstance(m, ast.Assign) and len(m.targets) == 1 and isinstance(m.targets[0], ast.Name):
            if m.targets[0].id in meta:
                fail(path, m, f"{m.targets[0].id} assigned twice")
            meta[m.targets[0].id] = m.value
        elif isinstance(m, ast.FunctionDef):
            if m.name in methods:
                fail(path, m, f"method {m.name} defined twice")
            methods[m.name] = m
        elif isinstance(m, ast.Expr) and isinstance(m.value, ast.Constant) and isinstance(m.value.value, str):
            pass
        else:
            fail(path, m, "class member " + ast.unparse(m)[:60])
    name = meta.get("NAME")
    if not (isinstance(name, ast.Constant) and isinstance(name.value, str)):
        fail(path, cls, "NAME is not a string literal")
    ty = meta.get("TYPE")
    if not (isinstance(ty, ast.Attribute) and is_name(ty.value, "DetectorType") and ty.attr in enums["DetectorType"]):
        fail(path, cls, "TYPE is not a member of DetectorType")
    allowed_methods = {"detect"} | ({"_accessed_using_absolute_index"} if "_accessed_using_absolute_index" in methods else set())
    if set(methods) != allowed_methods:
        fail(path, cls, f"methods of {cls_name}: {sorted(methods)}")
    w(f"(* ---------------------------------------------------------------- {DET_DIR}/{fname}: class {cls_name} *)")
    w(f"Definition {ident}_NAME : string := {coq_str(name.value)}.")
    w(f"Definition {ident}_TYPE : string := {coq_str(ty.attr)}.")
    n = 0
    classes = {}
    # --- static method (groupsize)
    if "_accessed_using_absolute_index" in methods:
        fn = methods["_accessed_using_absolute_index"]
        signature(path, fn, [("bb", "BasicBlock")], decorators=["staticmethod"], returns="bool")
        if imports.get("BasicBlock") != "tealer.teal.basic_blocks.BasicBlock":
            fail(path, fn, "BasicBlock is not tealer.teal.basic_blocks.BasicBlock")
        for nm in free_names(fn):
            if nm not in imports and nm not in ("isinstance",):
                fail(path, fn, f"free name {nm} in _accessed_using_absolute_index")
        env = Env(path, imports, {"bb": BLK}, BOOL, "accessed", ident, enums=enums)
        env.isa_used = isa_used
        body = block(env, fn.body, None)
        coq = f"{ident}_accessed_using_absolute_index_gen"
        w(f"(* {cls_name}._accessed_using_absolute_index (line {fn.lineno}); f = the function the block belongs to *)")
        w(f"Definition {coq} (f : func) (bb : nat) : py bool :=\n{indent(body, 2)}.")
        classes["_accessed_using_absolute_index"] = coq
        n += 1
    # --- detect
    det = methods["detect"]
    signature(path, det, [("self", None)], returns="'ListOutput'")
    body = strip_doc(det.body)
    nested = {}
    k = 0
    while k < len(body) and isinstance(body[k], ast.FunctionDef):
        fn = body[k]
        k += 1
        if fn.name in nested:
            fail(path, fn, f"nested function {fn.name} defined twice")
        a = [(x.arg, ast.unparse(x.annotation) if x.annotation else None) for x in fn.args.args]
        rt = ast.unparse(fn.returns) if fn.returns else None
        if fn.decorator_list or fn.args.defaults or fn.args.vararg or fn.args.kwarg or fn.args.kwonlyargs or fn.args.posonlyargs or len(a) != 1 or rt != "bool":
            fail(path, fn, f"signature of the nested function {fn.name}")
        pname = a[0][0]
        free = free_names(fn)
        if a[0][1] == "'BlockTransactionContext'":
            if any(v[0] == "checks" for v in nested.values()):
                fail(path, fn, "a second closure over BlockTransactionContext")
            bad = [x for x in free if x not in imports]
            if bad:
                fail(path, fn, f"free names {sorted(bad)} in {fn.name}")
            env = Env(path, imports, {pname: CTX}, BOOL, "checks", ident, enums=enums)
            check_name(env, pname, fn)
            t = block(env, fn.body, None)
            w(f"(* detect.<locals>.{fn.name} (line {fn.lineno}) *)")
            w(f"Definition {ident}_checks_field_genE ({pname} : bctx) : py bool :=\n{indent(t, 2)}.")
            w(f"Definition {ident}_checks_field_gen : bctx -> bool := total_checks {ident}_checks_field_genE.")
            nested[fn.name] = ("checks", f"{ident}_checks_field_genE")
        elif a[0][1] == "List['BasicBlock']":
            if any(v[0] == "report" for v in nested.values()):
                fail(path, fn, "a second closure over paths")
            bad = [x for x in free if x not in imports and x != "self"]
            if bad:
                fail(path, fn, f"free names {sorted(bad)} in {fn.name}")
            env = Env(path, imports, {pname: PATH}, BOOL, "report", ident, enums=enums, classes=classes)
            check_name(env, pname, fn)
            t = block(env, fn.body, None)
            w(f"(* detect.<locals>.{fn.name} (line {fn.lineno}); f = the function the path's blocks belong to *)")
            w(f"Definition {ident}_satisfies_report_condition_gen (f : func) ({pname} : list nat) : py bool :=\n{indent(t, 2)}.")
            nested[fn.name] = ("report", f"{ident}_satisfies_report_condition_gen")
        else:
            fail(path, fn, f"parameter annotation of the nested function {fn.name}: {a[0][1]}")
        n += 1
    if not any(v[0] == "checks" for v in nested.values()):
        fail(path, det, "detect() defines no closure over BlockTransactionContext")
    rest = body[k:]
    for st in rest:
        for node in ast.walk(st):
            if isinstance(node, (ast.FunctionDef, ast.Lambda)):
                fail(path, node, "function definition after the first statement of detect()")
            if isinstance(node, ast.Name) and isinstance(node.ctx, ast.Store) and (node.id in nested or node.id == "self"):
                fail(path, node, f"{node.id} is re-bound")
    env = Env(path, imports, {}, tlist(OUT), "detect", ident, nested=nested, enums=enums)
    t = block(env, rest, None)
    w(f"(* {cls_name}.detect (line {det.lineno}), the statements after the nested defs; self.tealer = tealer *)")
    w(f"Definition {ident}_detect_gen {{Contract GOut : Type}} (tealer : tealer_obj Contract GOut) : py (list (Output Contract GOut)) :=\n{indent(t, 2)}.")
    w("")
    n += 1
    return name.value, n, ("report" in [v[0] for v in nested.values()])


def registration(names_by_class):
    """detectors/all_detectors.py: the import list"""
    path = os.path.join(T, ALL_REL)
    tree = parse(path)
    order = []
    for node in strip_doc(tree.body):
        if not isinstance(node, ast.ImportFrom) or node.level != 0 or len(node.names) != 1 or node.names[0].asname:
            fail(path, node, "statement of all_detectors.py " + ast.unparse(node)[:60])
        c = node.names[0].name
        if c in order:
            fail(path, node, f"{c} imported twice")
        if c in names_by_class:
            fname = [f for f, cl, _ in DETECTORS if cl == c][0]
            if node.module != "tealer.detectors." + fname[:-3]:
                fail(path, node, f"{c} is imported from {node.module}")
        elif UNMODELLED.get(c) != node.module:
            fail(path, node, f"detector class {c} ({node.module}) is registered but unknown to the translation")
        order.append(c)
    for c in names_by_class:
        if c not in order:
            raise TranslateError(f"translator: {path}: detector class {c} is not registered")
    return order


def emit_detectors(outdir):
    enums = check_glue()
    L = []
    w = L.append
    body = []
    isa_used = []
    names = {}
    n = 0
    rows = []
    for fname, cls_name, ident in DETECTORS:
        nm, k, has_report = translate_detector(body.append, fname, cls_name, ident, enums, isa_used)
        if nm in names.values():
            raise TranslateError(f"translator: detector NAME {nm!r} used twice")
        names[cls_name] = nm
        n += k
        rows.append(ident)
    check_no_subclasses(isa_used)
    w(PRELUDE.rstrip("\n"))
    w("(* isinstance(ins, C): C has no subclass (checked by the translator); the model's constructor of the class *)")
    for c in isa_used:
        if c in DEDICATED:
            w(f"Definition isa_{c} (i : instr) : bool := match i with {DEDICATED[c]} => true | _ => false end.")
        else:
            w(f"Definition isa_{c} (i : instr) : bool := match i with IOther c _ => String.eqb c {coq_str(c)} | _ => false end.")
    w("")
    w("(* ====================================================================== *)")
    w("(* TRANSLATED                                                              *)")
    w("(* ====================================================================== *)")
    L.extend(body)
    w("(* ---------------------------------------------------------------- tables (order of Model/Detect.v: detectors) *)")
    w("Definition detectors_genE : list (string * (bctx -> py bool)) :=\n  [" + ";\n   ".join(f"({i}_NAME, {i}_checks_field_genE)" for i in rows) + "].")
    w("Definition detectors_gen : list (string * (bctx -> bool)) :=\n  [" + ";\n   ".join(f"({i}_NAME, {i}_checks_field_gen)" for i in rows) + "].")
    w("Definition detector_types_gen : list (string * string) :=\n  [" + ";\n   ".join(f"({i}_NAME, {i}_TYPE)" for i in rows) + "].")
    w("Definition detector_calls_gen {Contract GOut : Type} : list (string * (tealer_obj Contract GOut -> py (list (Output Contract GOut)))) :=\n  [" + ";\n   ".join(f"({i}_NAME, {i}_detect_gen)" for i in rows) + "].")
    order = registration(names)
    w(f"(* {ALL_REL}: the import list (classes outside the model: {', '.join(sorted(UNMODELLED))}), as NAMEs of the modelled classes *)")
    w("Definition all_detectors_import_order_gen : list string :=\n  [" + "; ".join(coq_str(names[c]) for c in order if c in names) + "].")
    w("(* utils/command_line/common.py get_detectors_and_printers: `for name in dir(all_detectors)` = sorted by class name *)")
    w("Definition all_detectors_dir_order_gen : list string :=\n  [" + "; ".join(coq_str(names[c]) for c in sorted(order) if c in names) + "].")
    os.makedirs(outdir, exist_ok=True)
    with open(os.path.join(outdir, "DetectorsGen.v"), "w") as fh:
        fh.write("\n".join(L) + "\n")
    return n


def main():
    outdir = sys.argv[1] if len(sys.argv) > 1 else os.path.join(os.path.dirname(os.path.abspath(__file__)), "..", "coq", "Gen")
    try:
        n = emit_detectors(outdir)
    except TranslateError as e:
        print(str(e))
        sys.exit(2)
    print(f"translate_detectors: {n} detector functions -> {outdir}/DetectorsGen.v")


if __name__ == "__main__":
    main()
