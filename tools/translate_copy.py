#!/venv/bin/python
"""Statement-by-statement translation of tealer's copy_main_cfg into Gallina (Gen/CopyGen.v).

Translated (read with `ast` only, never imported):
  teal/parse_functions.py : copy_main_cfg                                       -> copy_main_cfg_gen
Where the Python calls first_pass / second_pass / create_bb / fourth_pass (teal/parse_teal.py) the generated text calls
the ALREADY regenerated Gen/CfgGen.v functions (first_pass_gen, second_pass_gen, create_bb_gen, fourth_pass_gen) through
the fixed glue functions call_first_pass .. call_fourth_pass of the prelude; where first_pass calls parse_line the glue
calls the regenerated Gen/LineGen.parse_line_top.  Fixed text emitted after the translated function:
  copy_state            how the objects copy_main_cfg returns are READ as the pair (function_blocks, heap) of
                        Gen/FunctionGen.v (the renaming of object identities, with checks; see the prelude)
  copy_main_cfg_state   copy_main_cfg_gen on the empty copy heap, read through copy_state
  construct_function_from_copy_gen   `function_blocks = copy_main_cfg(teal)` followed by the rest of construct_function
                        (Gen/FunctionGen.construct_function_gen)
Lemmas/CopyGenLemmas.v proves copy_main_cfg_state = the model's initial function state (function_blocks0, heap0), which
Gen/FunctionGen.v only ASSUMED.

Reading of Python in Gallina (same conventions as tools/translate_cfg.py / translate_function.py, which see):
  * two object graphs.
      - the ORIGINAL objects of the contract (read only): a BasicBlock is its _idx (cell: Cfg.tblock t), an Instruction
        its position in t_prog t; teal.main is the record t_main t.  Their attributes source_code / comments_before_ins
        are not part of the model's teal: they are the parameter `attrs` (one entry per position of t_prog t).
      - the COPY: the Instruction objects parse_line creates inside first_pass and the BasicBlock objects create_bb
        allocates live in the copy heap `heap : cheap` (ch_prog: line and class of the Instruction objects, by position;
        ch_iheap / ch_bheap: the instruction / block heaps of Gen/CfgGen.v; ch_csub: Callsub._called_subroutine;
        ch_idx: BasicBlock._idx (absent = 0, BasicBlock.__init__)).
    Every attribute read / store is ONE function of the fixed glue table of the prelude; the Python text of each
    property / setter is fingerprinted (FINGERPRINTS): any edit stops the translator.  A dangling reference is None.
  * mutable state is threaded: the copy heap (variable `heap`), list / dict / str variables (`.append`, `+=`).
  * `for x in e:` / `for a, b in zip(e1, e2):` is a fold_left over e / combine e1 e2 (evaluated once, before the loop);
    loops nest (acc2/st2).  break / continue / return in a loop: rejected.
  * `sorted(e, key=lambda x: <attribute chain of x>)` is sorted_by_key (stable insertion sort on the keys, keys
    evaluated first, left to right).
  * `"\n".join(e)`, `a + b` on str, `e.splitlines()` are str_join nl, String.append, Cfg.splitlines (only \n, \r\n, \r are
    line boundaries in the model).
  * `f(args)` for f in first_pass, second_pass, create_bb, fourth_pass (imported from tealer.teal.parse_teal: checked)
    mutates its list / dict arguments in place: the arguments must be variables, which are re-bound to the final values.
  * `assert e` is assertC; `if isinstance(x, Callsub):` reads the class of the object (ci_class / oi_class).
  * statements that only touch what the model does not represent (back pointers, output comments) are fingerprinted
    and skipped (SKIP), each with its reason.

Fail-closed: every statement kind, expression kind, attribute name, call name and variable type that is not
whitelisted below raises TranslateError.
"""
import ast
import os
import sys

from tcommon import TranslateError, fail, parse, strip_doc, coq_str, T
from translate_keys import indent, same_text
from translate_cfg import seq, as_monadic, is_name, tuple_term, projections, find_class, find_member, member_text, bound_names, count_bindings, find_toplevel, check_no_subclasses
from translate_cfg import slice_first_pass, signature as cfg_signature, SPECS as CFG_SPECS

PF_REL = "teal/parse_functions.py"
PT_REL = "teal/parse_teal.py"
BB_REL = "teal/basic_blocks.py"
INS_REL = "teal/instructions/instructions.py"
SUB_REL = "teal/subroutine.py"
TEAL_REL = "teal/teal.py"

# ----------------------------------------------------------------------------- types of the little typed language
TEAL, MSUB, OBLK, OINS, CINS, CBLK, NAT, BOOL, STR, SUB, LABELS, SUBS, HEAP = "teal", "msub", "oblk", "oins", "cins", "cblk", "nat", "bool", "str", "sub", "labels", "subs", "heap"
LIST_ANY = "list ?"
BASE_COQ = {TEAL: "teal", MSUB: "subroutine", OBLK: "nat", OINS: "nat", CINS: "nat", CBLK: "nat", NAT: "nat", BOOL: "bool", STR: "string", SUB: "subref", LABELS: "labels_dict", SUBS: "subs_dict", HEAP: "cheap"}


def L(ty):
    return "list " + ty


def coq_of(ty):
    if ty.startswith("pair "):
        a, b = ty[5:].split(" * ")
        return f"{par(coq_of(a))} * {par(coq_of(b))}"
    if ty.startswith("list "):
        return "list " + par(coq_of(ty[5:]))
    return BASE_COQ[ty]


def par(t):
    return t if " " not in t else f"({t})"


def coqty(ty):
    return par(coq_of(ty))


# annotated declarations: (variable, annotation text) -> type.  The annotation List['Instruction'] / List['BasicBlock'] does
# not say whether the objects are the originals or the copies: the variable name does (a wrong use is a type error below)
DECLS = {
    ("original_instructions", "List['Instruction']"): L(OINS),
    ("original_blocks", "List['BasicBlock']"): L(OBLK),
    ("instructions", "List['Instruction']"): L(CINS),
    ("all_bbs", "List['BasicBlock']"): L(CBLK),
    ("labels", "Dict[str, 'Label']"): LABELS,
    ("subroutine_callsubs", "Dict[str, List[Callsub]]"): SUBS,
}

# ----------------------------------------------------------------------------- the glue table
# (attribute, type of the object) -> (glue function, context arguments, type of the result, pure)
ATTRS = {
    ("main", TEAL): ("t_main", [], MSUB, True),
    ("blocks", MSUB): ("s_blocks", [], L(OBLK), True),
    ("idx", OBLK): ("ob_idx", ["teal"], NAT, False),
    ("instructions", OBLK): ("ob_instructions", ["teal"], L(OINS), False),
    ("comments_before_ins", OINS): ("oi_comments_before_ins", ["attrs"], L(STR), False),
    ("source_code", OINS): ("oi_source_code", ["attrs"], STR, False),
    ("line", OINS): ("oi_line", ["teal"], NAT, False),
    ("called_subroutine", OINS): ("oi_called_subroutine", ["teal"], SUB, False),
    ("entry_instr", CBLK): ("cb_entry_instr", ["heap"], CINS, False),
    ("line", CINS): ("ci_line", ["heap"], NAT, False),
}
# attribute stores: (attribute, type of the object) -> (glue function, type of the stored value)
STORES = {("line", CINS): ("set_ci_line", NAT), ("called_subroutine", CINS): ("set_ci_called_subroutine", SUB), ("idx", CBLK): ("set_cb_idx", NAT)}
# isinstance(x, Callsub): type of x -> glue function that reads the class, context arguments
CLASS_OF = {OINS: ("oi_class", ["teal"]), CINS: ("ci_class", ["heap"])}
CLASS_PATTERNS = {"Callsub": "ICallsub _"}
# calls of the regenerated passes: name -> (glue, [(argument type, re-bound after the call)])
CALLS = {
    "first_pass": ("call_first_pass", [(L(STR), False), (LABELS, True), (SUBS, True), (L(CINS), True)]),
    "second_pass": ("call_second_pass", [(L(CINS), False), (LABELS, False)]),
    "create_bb": ("call_create_bb", [(L(CINS), False), (L(CBLK), True)]),
    "fourth_pass": ("call_fourth_pass", [(L(CBLK), False)]),
}
COQ_NAME = {"teal": "t"}

FINGERPRINTS = [
    (TEAL_REL, "Teal", "main", None, "@property\ndef main(self) -> 'Subroutine':\n    return self._main"),
    (SUB_REL, "Subroutine", "blocks", None, "@property\ndef blocks(self) -> List['BasicBlock']:\n    return self._blocks"),
    (
        BB_REL, "BasicBlock", "__init__", None,
        "def __init__(self) -> None:\n    self._instructions: List[Instruction] = []\n    self._prev: List[BasicBlock] = []\n"
        "    self._next: List[BasicBlock] = []\n    self._idx: int = 0\n    self._teal: Optional['Teal'] = None\n"
        "    self._tealer_comments: List[str] = []\n    self._subroutine: Optional['Subroutine'] = None",
    ),
    (BB_REL, "BasicBlock", "instructions", None, "@property\ndef instructions(self) -> List[Instruction]:\n    return self._instructions"),
    (BB_REL, "BasicBlock", "entry_instr", None, "@property\ndef entry_instr(self) -> Instruction:\n    return self._instructions[0]"),
    (BB_REL, "BasicBlock", "idx", None, "@property\ndef idx(self) -> int:\n    return self._idx"),
    (BB_REL, "BasicBlock", "idx", "idx.setter", "@idx.setter\ndef idx(self, i: int) -> None:\n    self._idx = i"),
    (
        INS_REL, "Instruction", "__init__", None,
        "def __init__(self) -> None:\n    self._prev: List[Instruction] = []\n    self._next: List[Instruction] = []\n    self._line_num = 0\n"
        "    self._source_code_line: str = ''\n    self._comment = ''\n    self._comments_before_ins: List[str] = []\n"
        "    self._tealer_comments: List[str] = []\n    self._bb: Optional['BasicBlock'] = None\n    self._version: int = 1\n"
        "    self._mode: ExecutionMode = ExecutionMode.ANY",
    ),
    (INS_REL, "Instruction", "line", None, "@property\ndef line(self) -> int:\n    return self._line_num"),
    (INS_REL, "Instruction", "line", "line.setter", "@line.setter\ndef line(self, l: int) -> None:\n    self._line_num = l"),
    (INS_REL, "Instruction", "source_code", None, "@property\ndef source_code(self) -> str:\n    return self._source_code_line"),
    (INS_REL, "Instruction", "source_code", "source_code.setter", "@source_code.setter\ndef source_code(self, line: str) -> None:\n    self._source_code_line = line"),
    (INS_REL, "Instruction", "comments_before_ins", None, "@property\ndef comments_before_ins(self) -> List[str]:\n    return self._comments_before_ins"),
    (
        INS_REL, "Instruction", "comments_before_ins", "comments_before_ins.setter",
        "@comments_before_ins.setter\ndef comments_before_ins(self, comments: List[str]) -> None:\n    self._comments_before_ins = comments",
    ),
    (INS_REL, "Callsub", "__init__", None, "def __init__(self, label: str):\n    super().__init__(label)\n    self._version: int = 4\n    self._called_subroutine: Optional['Subroutine'] = None"),
    (
        INS_REL, "Callsub", "called_subroutine", None,
        "@property\ndef called_subroutine(self) -> 'Subroutine':\n    if self._called_subroutine is None:\n"
        "        raise TealerException(f'callsub.called_subroutine is accessed before assignment: {str(self)}')\n    return self._called_subroutine",
    ),
    (INS_REL, "Callsub", "called_subroutine", "called_subroutine.setter", "@called_subroutine.setter\ndef called_subroutine(self, subroutine: 'Subroutine') -> None:\n    self._called_subroutine = subroutine"),
]
FORBIDDEN_DUNDERS = ("__eq__", "__ne__", "__hash__", "__bool__", "__len__", "__contains__", "__getattr__", "__getattribute__", "__setattr__", "__setitem__", "__getitem__", "__lt__", "__le__", "__gt__", "__ge__")
# where parse_line stores the attributes the first loop reads back (teal/instructions/parse_instruction.py)
PARSE_LINE_STORES = ("source_code_line = line", "ins.source_code = source_code_line")

# statements of copy_main_cfg that are NOT translated, with the reason (exact text, up to layout)
SKIP = {
    "back": (
        "for bb in all_bbs:\n    bb.teal = teal\n    bb.tealer_comments.insert(0, f'block_id = {bb.idx}; cost = {bb.cost}')",
        "back pointer to the contract and output comment of every copied block: not represented",
    ),
}

RESERVED = {
    "p", "t", "attrs", "fuel", "acc", "st", "acc2", "st2", "acc3", "st3", "ret", "bind", "py", "ifE", "notE", "andE", "orE", "assertC",
    "fold_left", "map", "rev", "fst", "snd", "negb", "andb", "orb", "true", "false", "nil", "cons", "app", "length", "combine", "Some", "None",
    "O", "S", "nat", "bool", "string", "list", "option", "block", "prog", "op_at", "teal", "subroutine", "cheap", "mkCH", "ch_prog", "ch_iheap", "ch_bheap",
    "ch_csub", "ch_idx", "ch_empty", "nl", "str_join", "str_splitlines", "sorted_by_key", "insert_by", "first_pass_lines", "ins_attrs", "subref", "TealSub",
    "FunctionMain", "labels_dict", "subs_dict", "copy_state", "copy_main_cfg_state", "tab_get", "tab_set", "t_main", "s_blocks", "append", "Nat", "String",
    "in", "at", "as", "fun", "let", "match", "end", "if", "then", "else", "return", "with", "forall", "exists", "fix", "cofix", "for",
    "where", "using", "Type", "Prop", "Set", "SProp", "struct", "_",
}  # fmt: skip
RESERVED |= {v[0] for v in ATTRS.values()} | {v[0] for v in STORES.values()} | {v[0] for v in CLASS_OF.values()} | {v[0] for v in CALLS.values()}

PRELUDE = r"""
(* ====================================================================== *)
(* PRELUDE (fixed text): the glue table.  The exception monad is the one of Gen/KeysGen.v.                  *)
(* ====================================================================== *)
(* How the Python object graph of copy_main_cfg is read.
     ORIGINAL objects (the contract parse_teal returned; read only):
     - a BasicBlock of teal.main.blocks is its _idx; its cell is Cfg.tblock t idx (b_ins = _instructions as positions of
       t_prog t).  teal.main is t_main t, Subroutine.blocks its s_blocks (the DFS order parse_teal stored).
     - an Instruction is its position k in t_prog t: class / immediates op_at (t_prog t) k, line i_line.  Its attributes
       _source_code_line / _comments_before_ins (stored by parse_line / first_pass when the contract was parsed) are
       not part of the model's teal record: they are the k-th entry of the parameter `attrs`.
     - Callsub.called_subroutine of an original is teal.subroutines[label] (parse_teal stores it for every callsub):
       TealSub label, an exception when the contract has no such subroutine (same reading as Gen/FunctionGen.v).
     COPY objects (created by this call):
     - the Instruction objects parse_line creates inside first_pass are the positions of ch_prog (cell: the line
       first_pass stores, 1-based, and the class / immediates parse_line_top returns); `ins.line = v` replaces the line
       of the cell.  Their _next / _prev / _bb are the cells of ch_iheap (Gen/CfgGen.v).
     - the BasicBlock objects create_bb allocates are the addresses of ch_bheap (Gen/CfgGen.v); BasicBlock._idx is the
       table ch_idx (absent = 0: BasicBlock.__init__); Callsub._called_subroutine is the table ch_csub (absent = None).
   The Python text of every property / setter named below is fingerprinted by tools/translate_copy.py. *)
Definition ins_attrs : Type := list (string * list string).   (* (source_code, comments_before_ins) by position *)
Record cheap := mkCH {
  ch_prog : prog;
  ch_iheap : CfgGen.ins_heap;
  ch_bheap : CfgGen.block_heap;
  ch_csub : list (nat * subref);
  ch_idx : list (nat * nat) }.
Definition ch_empty : cheap := mkCH [] [] [] [] [].

(* ---- strings and lists *)
Definition nl : string := String (Ascii.ascii_of_nat 10) EmptyString.
(* s.splitlines() *)
Definition str_splitlines (s : string) : list string := splitlines s.
(* sorted(l, key=..): stable; the keys are evaluated first, in order *)
Fixpoint insert_by {A : Type} (k : nat) (x : A) (l : list (nat * A)) : list (nat * A) :=
  match l with
  | [] => [(k, x)]
  | (k', y) :: r => if Nat.ltb k k' then (k, x) :: (k', y) :: r else (k', y) :: insert_by k x r
  end.
Definition sorted_by_key {A : Type} (key : A -> py nat) (l : list A) : py (list A) :=
  bind (map_opt key l) (fun ks =>
  ret (map snd (fold_left (fun acc kx => insert_by (fst kx) (snd kx) acc) (combine ks l) []))).
(* subref tables (dict semantics, as FunctionGen.tab_set on nat) *)
Fixpoint stab_get (d : list (nat * subref)) (k : nat) : option subref :=
  match d with [] => None | (k', v) :: r => if Nat.eqb k' k then Some v else stab_get r k end.
Fixpoint stab_set (d : list (nat * subref)) (k : nat) (v : subref) : list (nat * subref) :=
  match d with
  | [] => [(k, v)]
  | (k', w) :: r => if Nat.eqb k' k then (k', v) :: r else (k', w) :: stab_set r k v
  end.

(* ---- original objects *)
Definition ob_idx (t : teal) (b : nat) : py nat := option_map b_idx (tblock t b).
Definition ob_instructions (t : teal) (b : nat) : py (list nat) := option_map b_ins (tblock t b).
Definition oi_source_code (attrs : ins_attrs) (k : nat) : py string := option_map fst (nth_error attrs k).
Definition oi_comments_before_ins (attrs : ins_attrs) (k : nat) : py (list string) := option_map snd (nth_error attrs k).
Definition oi_line (t : teal) (k : nat) : py nat := option_map i_line (nth_error (t_prog t) k).
Definition oi_class (t : teal) (k : nat) : py instr := op_at (t_prog t) k.
Definition oi_called_subroutine (t : teal) (k : nat) : py subref :=
  bind (op_at (t_prog t) k) (fun i =>
    match i with ICallsub l => bind (find_sub t l) (fun _ => ret (TealSub l)) | _ => None end).

(* ---- copy objects *)
Definition ci_class (h : cheap) (k : nat) : py instr := op_at (ch_prog h) k.
Definition ci_line (h : cheap) (k : nat) : py nat := option_map i_line (nth_error (ch_prog h) k).
Definition set_ci_line (h : cheap) (k v : nat) : py cheap :=
  bind (CfgGen.upd_nth (ch_prog h) k (fun c => ret (mkIns v (i_op c)))) (fun pc =>
  ret (mkCH pc (ch_iheap h) (ch_bheap h) (ch_csub h) (ch_idx h))).
(* ins.called_subroutine = s : the setter exists on Callsub only (AttributeError otherwise is not modelled: the
   translated store is guarded by isinstance(ins_copy, Callsub)) *)
Definition set_ci_called_subroutine (h : cheap) (k : nat) (s : subref) : py cheap :=
  bind (nth_error (ch_prog h) k) (fun _ =>
  ret (mkCH (ch_prog h) (ch_iheap h) (ch_bheap h) (stab_set (ch_csub h) k s) (ch_idx h))).
Definition cb_entry_instr (h : cheap) (b : nat) : py nat :=
  bind (nth_error (ch_bheap h) b) (fun c => nth_error (b_ins c) 0).
Definition set_cb_idx (h : cheap) (b v : nat) : py cheap :=
  bind (nth_error (ch_bheap h) b) (fun _ =>
  ret (mkCH (ch_prog h) (ch_iheap h) (ch_bheap h) (ch_csub h) (tab_set (ch_idx h) b v))).

(* ---- the calls of the regenerated passes (teal/parse_teal.py; Gen/CfgGen.v, Gen/LineGen.v) *)
(* first_pass, the part tools/translate_cfg.py fingerprints and skips (SLICE parse, idx_incr, skip, line): every line is
   a comment line (`line.strip().startswith("//")`), or parse_line(line) is None (no instruction), or it is a fresh
   Instruction object whose line is the 1-based line count.  An exception of parse_line (ParseError -> sys.exit) is None *)
Fixpoint first_pass_lines (lines : list string) (n : nat) : py prog :=
  match lines with
  | [] => ret []
  | l :: r =>
      if LineGen.str_startswith (LineGen.str_strip l) "//" then first_pass_lines r (S n)
      else bind (LineGen.parse_line_top l) (fun oi =>
           bind (first_pass_lines r (S n)) (fun rest =>
           ret (match oi with Some i => mkIns n i :: rest | None => rest end)))
  end.
(* first_pass(lines, labels, subroutines, instructions): creates the Instruction objects of the copy (the copy heap must
   not contain any yet) and runs the regenerated first_pass on them *)
Definition call_first_pass (h : cheap) (lines : list string) (labels : CfgGen.labels_dict) (subroutines : CfgGen.subs_dict)
           (instructions : list nat) : py (CfgGen.labels_dict * CfgGen.subs_dict * list nat * cheap) :=
  match ch_prog h with
  | [] =>
      bind (first_pass_lines lines 1) (fun pc =>
      bind (CfgGen.first_pass_gen pc labels subroutines instructions (CfgGen.iheap_init pc)) (fun r =>
      ret (fst (fst (fst r)), snd (fst (fst r)), snd (fst r),
           mkCH pc (snd r) (ch_bheap h) (ch_csub h) (ch_idx h))))
  | _ :: _ => None
  end.
Definition call_second_pass (h : cheap) (instructions : list nat) (labels : CfgGen.labels_dict) : py cheap :=
  bind (CfgGen.second_pass_gen (ch_prog h) instructions labels (ch_iheap h)) (fun ih =>
  ret (mkCH (ch_prog h) ih (ch_bheap h) (ch_csub h) (ch_idx h))).
Definition call_create_bb (h : cheap) (instructions : list nat) (all_bbs : list nat) : py (list nat * cheap) :=
  bind (CfgGen.create_bb_gen (ch_prog h) instructions all_bbs (ch_bheap h) (ch_iheap h)) (fun r =>
  ret (fst (fst r), mkCH (ch_prog h) (snd r) (snd (fst r)) (ch_csub h) (ch_idx h))).
Definition call_fourth_pass (h : cheap) (basic_blocks : list nat) : py cheap :=
  bind (CfgGen.fourth_pass_gen basic_blocks (ch_bheap h) (ch_iheap h)) (fun bh =>
  ret (mkCH (ch_prog h) (ch_iheap h) bh (ch_csub h) (ch_idx h))).
"""

EPILOGUE = r"""
(* ====================================================================== *)
(* FIXED text: how the result is read by Gen/FunctionGen.v                                                  *)
(* ====================================================================== *)
(* Gen/FunctionGen.v reads the objects copy_main_cfg returns as a pair (function_blocks, heap : fheap): a BasicBlock is
   an IDENTIFIER whose _idx is the identifier itself, an Instruction a position of fh_prog = t_prog t, and
   Callsub.called_subroutine is TealSub of its own label.  copy_state computes that reading from the copy heap, by
   RENAMING object identities (unobservable in Python), and CHECKS that the renaming is faithful; None = some check fails:
     - the BasicBlock at address a is named by its _idx (table ch_idx, 0 when never stored); the names must be distinct;
     - the Instruction object at position j of ch_prog is named by the j-th position of the instructions of the main
       blocks of the contract in idx order (copy_positions); the names are distinct (checked), and the object must carry
       exactly the line and the class / immediates of the original at that position, and, when it is a Callsub, the
       _called_subroutine TealSub label with teal.subroutines[label] defined (checked): then reading its attributes in
       fh_prog = t_prog t is reading the copy;
     - the cells of fh_blocks are listed in the order of teal.main.blocks (the order of the cells of a heap is not
       observable: lookup is by identifier); every block of teal.main must have its copy and vice versa (checked);
     - fh_next_id is an identifier larger than every _idx of the contract. *)
Definition copy_positions (t : teal) : py (list nat) :=
  bind (sorted_by_key (ob_idx t) (s_blocks (t_main t))) (fun bs =>
  bind (map_opt (ob_instructions t) bs) (fun l => ret (concat l))).
Fixpoint nodup_nat (l : list nat) : bool :=
  match l with [] => true | x :: r => negb (existsb (Nat.eqb x) r) && nodup_nat r end.
Definition instr_eq_dec : forall a b : instr, {a = b} + {a <> b}.
Proof. repeat decide equality. Defined.
Definition copy_ins_ok (t : teal) (h : cheap) (j k : nat) : bool :=
  match nth_error (ch_prog h) j, nth_error (t_prog t) k with
  | Some c, Some o =>
      Nat.eqb (i_line c) (i_line o) && (if instr_eq_dec (i_op c) (i_op o) then true else false) &&
      match i_op c with
      | ICallsub l => match stab_get (ch_csub h) j, find_sub t l with
                      | Some (TealSub l'), Some _ => String.eqb l' l
                      | _, _ => false end
      | _ => true
      end
  | _, _ => false
  end.
Definition cb_name (h : cheap) (a : nat) : nat := match tab_get (ch_idx h) a with Some v => v | None => 0 end.
Definition copy_state (t : teal) (r : list nat * cheap) : py (list nat * fheap) :=
  let all_bbs := fst r in
  let h := snd r in
  bind (copy_positions t) (fun pos =>
  let names := map (cb_name h) all_bbs in
  if negb (Nat.eqb (length pos) (length (ch_prog h))) then None else
  if negb (nodup_nat pos) then None else
  if negb (forallb (fun jk => copy_ins_ok t h (fst jk) (snd jk)) (combine (seq 0 (length pos)) pos)) then None else
  if negb (nodup_nat names) then None else
  if negb (Nat.eqb (length all_bbs) (length (ch_bheap h))) then None else
  bind (map_opt (fun a => bind (nth_error (ch_bheap h) a) (fun c =>
          bind (map_opt (nth_error pos) (b_ins c)) (fun ins =>
          ret (mkBlock (cb_name h a) ins (map (cb_name h) (b_next c)) (map (cb_name h) (b_prev c)))))) all_bbs) (fun cells =>
  if negb (Nat.eqb (length cells) (length (s_blocks (t_main t)))) then None else
  bind (map_opt (fun n => find (fun c => Nat.eqb (b_idx c) n) cells) (s_blocks (t_main t))) (fun ordered =>
  ret (names, mkFH ordered (t_prog t) (S (max_idx (t_blocks t))) [] [])))).

(* copy_main_cfg(teal), from the empty copy heap, read as FunctionGen's (function_blocks, heap) *)
Definition copy_main_cfg_state (t : teal) (attrs : ins_attrs) : py (list nat * fheap) :=
  bind (copy_main_cfg_gen t attrs ch_empty) (copy_state t).

(* teal/parse_functions.py: construct_function: `function_blocks = copy_main_cfg(teal)` followed by the rest of the body
   (Gen/FunctionGen.construct_function_gen, whose parameters function_blocks / heap are that result) *)
Definition construct_function_from_copy_gen (fuel_dfs fuel_subs : nat) (t : teal) (attrs : ins_attrs) (function_main_name : string)
           (dispatch_path : list nat) : py (option (res (func * fheap))) :=
  bind (copy_main_cfg_state t attrs) (fun fb =>
  construct_function_gen fuel_dfs fuel_subs t function_main_name dispatch_path (fst fb) (snd fb)).
"""


# ----------------------------------------------------------------------------- environment
class Env:
    def __init__(self, path, vars_, imports):
        self.path = path
        self.vars = dict(vars_)
        self.imports = imports
        self.counter = [0]
        self.depth = 0
        self.collect = [[]]

    def child(self, **new):
        e = Env(self.path, self.vars, self.imports)
        e.counter, e.depth, e.collect = self.counter, self.depth, self.collect
        e.vars.update(new)
        return e

    def fresh(self):
        self.counter[0] += 1
        return f"tmp{self.counter[0]}"


def cname(n):
    return COQ_NAME.get(n, n)


def probe(env, fn):
    saved_counter, saved_collect = list(env.counter), env.collect[0]
    env.collect[0] = []
    try:
        r = fn()
        names = env.collect[0]
    finally:
        env.counter[:] = saved_counter
        env.collect[0] = saved_collect
    out = []
    for n in names:
        if n not in out:
            out.append(n)
    return r, out


def ctx_terms(env, node, names):
    out = []
    for n in names:
        if n not in env.vars:
            fail(env.path, node, f"the function has no access to {n}")
        out.append(cname(n))
    return out


def builtin(env, e, name, nargs=None):
    return (
        isinstance(e, ast.Call) and is_name(e.func, name) and (nargs is None or len(e.args) == nargs)
        and name not in env.vars and name not in env.imports
    )  # fmt: skip


def str_const(env, e):
    if e.value == "\n":
        return "nl"
    if "\n" in e.value or "\r" in e.value:
        fail(env.path, e, "string constant with a line break")
    return coq_str(e.value)


# ----------------------------------------------------------------------------- expressions
def expr(env, e):
    """-> (term, type, pure)"""
    p = env.path
    if isinstance(e, ast.Constant):
        if isinstance(e.value, str):
            return str_const(env, e), STR, True
        fail(p, e, "constant " + ast.unparse(e))
    if isinstance(e, ast.Name):
        if e.id in env.vars and env.vars[e.id] != HEAP:
            return cname(e.id), env.vars[e.id], True
        fail(p, e, f"unknown name {e.id}")
    if isinstance(e, ast.Attribute):
        t, ty, pure = expr(env, e.value)
        if (e.attr, ty) not in ATTRS:
            fail(p, e, f"attribute .{e.attr} of a value of type {ty}")
        g, ctx, rty, gpure = ATTRS[(e.attr, ty)]
        cs = " ".join(ctx_terms(env, e, ctx))
        call = (lambda a: f"({g} {cs} {a})") if cs else (lambda a: f"({g} {a})")
        if gpure:
            out, pure2 = seq(env, [(t, pure)], call)
            return out, rty, pure2
        out, _ = seq(env, [(t, pure)], call, monadic_result=True)
        return out, rty, False
    if isinstance(e, ast.BinOp):
        if isinstance(e.op, ast.Add):
            l, lty, lp = expr(env, e.left)
            r, rty, rp = expr(env, e.right)
            if lty == rty == STR:
                out, pure = seq(env, [(l, lp), (r, rp)], lambda a, b: f"(String.append {a} {b})")
                return out, STR, pure
        fail(p, e, "binary operation " + ast.unparse(e)[:60])
    if isinstance(e, ast.Call):
        if e.keywords and not builtin(env, e, "sorted", 1):
            fail(p, e, "call with keywords " + ast.unparse(e)[:60])
        # "\n".join(e)
        if isinstance(e.func, ast.Attribute) and e.func.attr == "join" and len(e.args) == 1 and isinstance(e.func.value, ast.Constant) and isinstance(e.func.value.value, str):
            sep = str_const(env, e.func.value)
            t, ty, pure = expr(env, e.args[0])
            if ty != L(STR):
                fail(p, e, f"join of a value of type {ty}")
            out, pure2 = seq(env, [(t, pure)], lambda a: f"(LineGen.str_join {sep} {a})")
            return out, STR, pure2
        # e.splitlines()
        if isinstance(e.func, ast.Attribute) and e.func.attr == "splitlines" and not e.args:
            t, ty, pure = expr(env, e.func.value)
            if ty != STR:
                fail(p, e, f"splitlines of a value of type {ty}")
            out, pure2 = seq(env, [(t, pure)], lambda a: f"(str_splitlines {a})")
            return out, L(STR), pure2
        # sorted(e, key=lambda x: <attribute chain of x>)
        if builtin(env, e, "sorted", 1):
            if len(e.keywords) != 1 or e.keywords[0].arg != "key" or not isinstance(e.keywords[0].value, ast.Lambda):
                fail(p, e, "sorted without key=lambda")
            lam = e.keywords[0].value
            a = lam.args
            if a.vararg or a.kwarg or a.kwonlyargs or a.posonlyargs or a.defaults or len(a.args) != 1:
                fail(p, e, "key function " + ast.unparse(lam))
            x = a.args[0].arg
            check_name(env, x, e)
            t, ty, pure = expr(env, e.args[0])
            if not ty.startswith("list ") or ty == LIST_ANY:
                fail(p, e, f"sorted of a value of type {ty}")
            kenv = env.child(**{x: ty[5:]})
            node = lam.body
            while isinstance(node, ast.Attribute):
                node = node.value
            if not is_name(node, x) or not isinstance(lam.body, ast.Attribute):
                fail(p, e, "the key of sorted must be an attribute chain of its argument: " + ast.unparse(lam))
            k, kty, kp = expr(kenv, lam.body)
            if kty != NAT:
                fail(p, e, f"sort key of type {kty}")
            out, _ = seq(env, [(t, pure)], lambda v: f"(sorted_by_key (fun {x} => {as_monadic(k, kp)}) {v})", monadic_result=True)
            return out, ty, False
        # isinstance(x, Callsub)
        if builtin(env, e, "isinstance", 2):
            t, ty, pure = expr(env, e.args[0])
            if ty not in CLASS_OF:
                fail(p, e, f"isinstance of a value of type {ty}")
            c = e.args[1]
            if not isinstance(c, ast.Name) or c.id not in CLASS_PATTERNS:
                fail(p, e, "isinstance class argument " + ast.unparse(c))
            if c.id in env.vars or env.imports.get(c.id) != "tealer.teal.instructions.instructions." + c.id:
                fail(p, e, f"the name {c.id} is not the class of instructions.py")
            g, ctx = CLASS_OF[ty]
            cs = " ".join(ctx_terms(env, e, ctx))
            v = env.fresh()
            pat = CLASS_PATTERNS[c.id]
            out, _ = seq(env, [(t, pure)], lambda a: f"(bind ({g} {cs} {a}) (fun {v} => (ret (match {v} with {pat} => true | _ => false end))))", monadic_result=True)
            return out, BOOL, False
        fail(p, e, "call " + ast.unparse(e)[:60])
    fail(p, e, "expression " + ast.unparse(e)[:60])


# ----------------------------------------------------------------------------- statements
FORBIDDEN = (
    ast.Try, ast.With, ast.FunctionDef, ast.AsyncFunctionDef, ast.NamedExpr, ast.Delete, ast.Global, ast.Nonlocal, ast.ListComp,
    ast.GeneratorExp, ast.SetComp, ast.DictComp, ast.Yield, ast.YieldFrom, ast.Await, ast.ClassDef, ast.Import, ast.ImportFrom, ast.Starred,
    ast.IfExp, ast.Raise, ast.Break, ast.Continue, ast.While, ast.Subscript,
)  # fmt: skip


def check_name(env, name, node):
    if name in RESERVED or name in COQ_NAME.values() or name.startswith("tmp") or name.endswith("_gen"):
        fail(env.path, node, f"variable name {name} is reserved by the translator")
    if not name.isidentifier() or not name.isascii():
        fail(env.path, node, f"variable name {name}")


def bind_var(env, name, node, t, ty, pure, rest_of, heap=False):
    if not heap:
        check_name(env, name, node)
    if ty == LIST_ANY:
        fail(env.path, node, f"the type of {name} is not determined")
    if name in env.vars and env.vars[name] != ty:
        fail(env.path, node, f"re-assignment of {name} changes its type from {env.vars[name]} to {ty}")
    if env.vars.get(name) == TEAL or (env.vars.get(name) == HEAP) != heap or name == "attrs":
        fail(env.path, node, f"assignment to {name}")
    env.collect[0].append(name)
    rest = rest_of(env.child(**{name: ty}))
    if pure:
        return f"(let {name} := {t} in\n{rest})"
    return f"(bind {t} (fun {name} =>\n{rest}))"


def heap_of(env, node):
    if env.vars.get("heap") != HEAP:
        fail(env.path, node, "the function has no access to the copy heap")
    return "heap"


def pass_call(env, st, call, rest_of):
    """f(args) for f in CALLS: the regenerated passes; list / dict arguments are mutated in place"""
    p = env.path
    f = call.func.id
    g, sig = CALLS[f]
    if f in env.vars or env.imports.get(f) != "tealer.teal.parse_teal." + f:
        fail(p, st, f"{f} is not the function of parse_teal.py")
    if call.keywords or len(call.args) != len(sig):
        fail(p, st, "arguments of " + ast.unparse(call)[:60])
    names = []
    for a, (ty, _) in zip(call.args, sig):
        if not is_name(a) or env.vars.get(a.id) != ty:
            fail(p, st, f"argument {ast.unparse(a)} of {f}: expected a variable of type {ty}")
        names.append(a.id)
    if len(set(names)) != len(names):
        fail(p, st, f"the same object is passed twice to {f}")
    h = heap_of(env, st)
    outs = [(n, ty) for n, (ty, mut) in zip(names, sig) if mut] + [("heap", HEAP)]
    tmp = env.fresh()
    projs = projections(len(outs), tmp)

    def chain(env2, i):
        if i == len(outs):
            return rest_of(env2)
        n, ty = outs[i]
        return bind_var(env2, n, st, projs[i], ty, True, lambda e3: chain(e3, i + 1), heap=(n == "heap"))

    return f"(bind ({g} {h} {' '.join(names)}) (fun {tmp} =>\n{chain(env, 0)}))"


def expr_stmt(env, st, rest_of):
    p = env.path
    v = st.value
    if isinstance(v, ast.Call) and isinstance(v.func, ast.Name) and v.func.id in CALLS:
        return pass_call(env, st, v, rest_of)
    if isinstance(v, ast.Call) and isinstance(v.func, ast.Attribute) and v.func.attr == "append" and len(v.args) == 1 and not v.keywords and is_name(v.func.value):
        x = v.func.value.id
        lty = env.vars.get(x, "")
        if not lty.startswith("list "):
            fail(p, st, f".append on {x}")
        a, aty, ap = expr(env, v.args[0])
        if L(aty) != lty:
            fail(p, st, f".append of a value of type {aty} on a {lty}")
        out, pure = seq(env, [(a, ap)], lambda u: f"({x} ++ [{u}])")
        return bind_var(env, x, st, out, lty, pure, rest_of)
    fail(p, st, "expression statement " + ast.unparse(st)[:60])


def assign(env, st, rest_of):
    p = env.path
    if isinstance(st, ast.AugAssign):
        if not (isinstance(st.op, ast.Add) and is_name(st.target) and env.vars.get(st.target.id) == STR):
            fail(p, st, "augmented assignment " + ast.unparse(st)[:60])
        x = st.target.id
        v, vty, vp = expr(env, st.value)
        if vty != STR:
            fail(p, st, f"{x} += a value of type {vty}")
        out, pure = seq(env, [(v, vp)], lambda a: f"(String.append {x} {a})")
        return bind_var(env, x, st, out, STR, pure, rest_of)
    if isinstance(st, ast.AnnAssign):
        tg, value = st.target, st.value
        if value is None or not isinstance(tg, ast.Name):
            fail(p, st, "annotated assignment " + ast.unparse(st)[:60])
        ty = DECLS.get((tg.id, ast.unparse(st.annotation)))
        if ty is None:
            fail(p, st, f"declaration {tg.id}: {ast.unparse(st.annotation)}")
        if tg.id in env.vars:
            fail(p, st, f"{tg.id} is declared twice")
        empty = (
            (isinstance(value, ast.List) and not value.elts and ty.startswith("list "))
            or (isinstance(value, ast.Dict) and not value.keys and ty == LABELS)
            or (
                ty == SUBS and isinstance(value, ast.Call) and is_name(value.func, "defaultdict") and len(value.args) == 1 and is_name(value.args[0], "list")
                and not value.keywords and "defaultdict" not in env.vars and env.imports.get("defaultdict") == "collections.defaultdict"
                and "list" not in env.vars and "list" not in env.imports
            )
        )  # fmt: skip
        if not empty:
            fail(p, st, "initial value " + ast.unparse(value)[:60] + f" of {tg.id} : {ty}")
        return bind_var(env, tg.id, st, "[]", ty, True, rest_of)
    if len(st.targets) != 1:
        fail(p, st, "chained assignment")
    tg, value = st.targets[0], st.value
    # _, _ = first_pass(..)
    if isinstance(tg, ast.Tuple):
        if all(is_name(x, "_") for x in tg.elts) and isinstance(value, ast.Call) and is_name(value.func, "first_pass") and len(tg.elts) == 2:
            return pass_call(env, st, value, rest_of)
        fail(p, st, "tuple assignment " + ast.unparse(st)[:60])
    # <obj>.line = e / .called_subroutine = e / .idx = e
    if isinstance(tg, ast.Attribute):
        o, oty, op = expr(env, tg.value)
        v, vty, vp = expr(env, value)
        if (tg.attr, oty) not in STORES or STORES[(tg.attr, oty)][1] != vty:
            fail(p, st, f"store .{tg.attr} of a {oty} := {vty}")
        g = STORES[(tg.attr, oty)][0]
        h = heap_of(env, st)
        out, _ = seq(env, [(v, vp), (o, op)], lambda b, a: f"({g} {h} {a} {b})", monadic_result=True)
        return bind_var(env, "heap", st, out, HEAP, False, rest_of, heap=True)
    if not isinstance(tg, ast.Name):
        fail(p, st, "assignment target " + ast.unparse(tg)[:60])
    t, ty, pure = expr(env, value)
    if ty in (HEAP, TEAL, MSUB):
        fail(p, st, f"assignment of a {ty}")
    return bind_var(env, tg.id, st, t, ty, pure, rest_of)


def skipped(st):
    for key, (text, _) in SKIP.items():
        if same_text(st, text):
            return key
    return None


def block(env, stmts, fall):
    p = env.path
    stmts = strip_doc(stmts)
    if not stmts:
        if fall is None:
            raise TranslateError(f"translator: {p}: control reaches the end of copy_main_cfg without return")
        return fall(env)
    st, rest = stmts[0], stmts[1:]
    rest_of = lambda env2: block(env2, rest, fall)  # noqa: E731
    if skipped(st):
        if env.depth:
            fail(p, st, "skipped statement inside a loop")
        return rest_of(env)
    roots = [st.target, st.value] if isinstance(st, ast.AnnAssign) and st.value is not None else [st]
    for node in (n for r in roots for n in ast.walk(r)):
        if isinstance(node, FORBIDDEN):
            fail(p, node, "statement/expression not accepted: " + type(node).__name__)
        if isinstance(node, ast.Lambda) and not any(isinstance(c, ast.Call) and is_name(c.func, "sorted") and any(k.value is node for k in c.keywords) for c in ast.walk(st)):
            fail(p, node, "lambda outside sorted(.., key=..)")
    if isinstance(st, ast.Return):
        if env.depth or rest:
            fail(p, st, "return in a loop body / statement after return")
        if st.value is None:
            fail(p, st, "return without value")
        t, ty, pure = expr(env, st.value)
        if ty != L(CBLK):
            fail(p, st, f"return of a value of type {ty}, expected {L(CBLK)}")
        h = heap_of(env, st)
        out, _ = seq(env, [(t, pure)], lambda a: f"(ret ({a}, {h}))", monadic_result=True)
        return out
    if isinstance(st, ast.Pass):
        return rest_of(env)
    if isinstance(st, ast.Assert):
        if st.msg is not None:
            fail(p, st, "assert with a message")
        t, ty, pure = expr(env, st.test)
        if ty != BOOL:
            fail(p, st, f"assert of a value of type {ty}")
        return f"(assertC {as_monadic(t, pure)}\n{rest_of(env)})"
    if isinstance(st, (ast.Assign, ast.AnnAssign, ast.AugAssign)):
        return assign(env, st, rest_of)
    if isinstance(st, ast.Expr):
        return expr_stmt(env, st, rest_of)
    if isinstance(st, ast.If):
        if st.orelse:
            fail(p, st, "if with an else part")
        uses = [0]

        def count(_e):
            uses[0] += 1
            return "K"

        t, ty, pure = expr(env, st.test)
        if ty != BOOL:
            fail(p, st, f"if-condition of type {ty}")
        _, names = probe(env, lambda: block(env, st.body, count))
        if uses[0] != 1:
            fail(p, st, "the body of an if must fall through exactly once")
        join = [v for v in env.vars if v in names]
        for v in names:
            if v not in env.vars:
                fail(p, st, f"{v} is first bound inside an if")
        # what follows the if is shared: a join point over the variables the body re-binds
        cont = rest_of(env) if (rest or fall is not None) else None
        if cont is None:
            fail(p, st, "if at the end of the function")
        params = " ".join(f"({cname(v)} : {coqty(env.vars[v])})" for v in join) or "(_ : unit)"
        callk = lambda _e: f"(kif {' '.join(cname(v) for v in join) or 'tt'})"  # noqa: E731
        then_t = block(env, st.body, callk)
        else_t = callk(env)
        if any("kif" == n for n in env.vars):
            fail(p, st, "variable named kif")
        return f"(let kif := (fun {params} =>\n{indent(cont, 2)}) in\n(ifE {as_monadic(t, pure)}\n{indent(then_t)}\n{indent(else_t)}))"
    if isinstance(st, ast.For):
        return for_term(env, st, rest_of)
    fail(p, st, "statement " + ast.unparse(st)[:60])


def for_term(env, st, rest_of):
    p = env.path
    if st.orelse or getattr(st, "type_comment", None) or env.depth >= 2:
        fail(p, st, "for-else / loops nested too deeply")
    it = st.iter
    if builtin(env, it, "zip", 2) and not it.keywords:
        if not (isinstance(st.target, ast.Tuple) and len(st.target.elts) == 2 and all(isinstance(x, ast.Name) for x in st.target.elts)):
            fail(p, st, "loop header " + ast.unparse(st.target))
        names = [x.id for x in st.target.elts]
        if names[0] == names[1]:
            fail(p, st, "loop header " + ast.unparse(st.target))
        parts = [expr(env, a) for a in it.args]
        for (_, ty, _), a in zip(parts, it.args):
            if not ty.startswith("list ") or ty == LIST_ANY:
                fail(p, a, f"zip of a value of type {ty}")
        l, lpure = seq(env, [(parts[0][0], parts[0][2]), (parts[1][0], parts[1][2])], lambda a, b: f"(combine {a} {b})")
        eltys = [parts[0][1][5:], parts[1][1][5:]]
        roots = [a.id for a in it.args if is_name(a)]
    else:
        if not isinstance(st.target, ast.Name):
            fail(p, st, "loop header " + ast.unparse(st.target))
        names = [st.target.id]
        l, lty, lpure = expr(env, it)
        if not lty.startswith("list ") or lty == LIST_ANY:
            fail(p, st, f"iteration over a value of type {lty}")
        eltys = [lty[5:]]
        roots = [it.id] if is_name(it) else []
    for x in names:
        check_name(env, x, st)
        if x in env.vars:
            fail(p, st, f"loop variable {x} shadows a variable")
    benv = env.child(**dict(zip(names, eltys)))
    benv.depth = env.depth + 1
    body = strip_doc(st.body)
    _, assigned = probe(benv, lambda: block(benv, body, lambda _e: "K"))
    if any(x in assigned for x in names):
        fail(p, st, "loop body assigns the loop variable")
    for v in assigned:
        if v not in env.vars:
            fail(p, st, f"{v} is first bound inside a loop")
    state = [n for n in env.vars if n in assigned]
    if not state:
        fail(p, st, "loop without carried variable")
    if any(r in state for r in roots):
        fail(p, st, "loop body mutates the list it iterates over")
    # the iterated expression reads the copy heap (attribute of a copy object) while the body changes it: evaluated once, before
    stys = [env.vars[n] for n in state]

    def pack(env2):
        for n, ty in zip(state, stys):
            if env2.vars[n] != ty:
                fail(p, st, f"loop body changes the type of {n}")
        return f"(ret {tuple_term([cname(n) for n in state])})"

    sfx = "" if env.depth == 0 else str(env.depth + 1)
    stv, accv = "st" + sfx, "acc" + sfx
    lst = l if lpure else env.fresh()
    xv = names[0] if len(names) == 1 else env.fresh()
    body_t = block(benv, body, pack)
    if len(names) == 2:
        body_t = f"(let {names[0]} := (fst {xv}) in\n(let {names[1]} := (snd {xv}) in\n{body_t}))"
    for n, pr in reversed(list(zip(state, projections(len(state), stv)))):
        body_t = f"(let {cname(n)} := {pr} in\n{body_t})"
    init = tuple_term([cname(n) for n in state])
    loop = f"(fold_left (fun {accv} {xv} => (bind {accv} (fun {stv} =>\n{indent(body_t, 2)})))\n  {lst} (ret {init}))"
    tmp = env.fresh()
    for n in state:
        env.collect[0].append(n)
    after = rest_of(env)
    for n, pr in reversed(list(zip(state, projections(len(state), tmp)))):
        after = f"(let {cname(n)} := {pr} in\n{after})"
    out = f"(bind {loop} (fun {tmp} =>\n{after}))"
    if not lpure:
        out = f"(bind {l} (fun {lst} =>\n{out}))"
    return out


# ----------------------------------------------------------------------------- source checks
def check_fingerprints():
    trees = {rel: parse(os.path.join(T, rel)) for rel in (BB_REL, INS_REL, SUB_REL, TEAL_REL)}
    for rel, cn, mname, deco, text in FINGERPRINTS:
        path = os.path.join(T, rel)
        cls = find_class(trees[rel], cn, path)
        got = member_text(find_member(path, cls, mname, deco))
        if not same_text(ast.parse(got), text):
            raise TranslateError(f"translator: {path}: {cn}.{mname} changed (its entry in the glue table of Gen/CopyGen.v is no longer justified):\n{got}")
    watched = ("main", "blocks", "idx", "instructions", "entry_instr", "line", "source_code", "comments_before_ins", "called_subroutine")
    for rel in (BB_REL, INS_REL, SUB_REL):
        path = os.path.join(T, rel)
        for cls in ast.walk(trees[rel]):
            if isinstance(cls, ast.ClassDef):
                for n in cls.body:
                    if isinstance(n, ast.FunctionDef) and n.name in FORBIDDEN_DUNDERS:
                        fail(path, n, f"class {cls.name} defines {n.name}")
                    for tg in n.targets if isinstance(n, ast.Assign) else [n.target] if isinstance(n, ast.AnnAssign) else []:
                        if isinstance(tg, ast.Name) and tg.id in FORBIDDEN_DUNDERS + watched:
                            fail(path, n, f"class {cls.name} has the class attribute {tg.id}")
    ipath = os.path.join(T, INS_REL)
    for cls in trees[INS_REL].body:
        if isinstance(cls, ast.ClassDef):
            for n in cls.body:
                if isinstance(n, ast.FunctionDef) and n.name in ("line", "source_code", "comments_before_ins") and cls.name != "Instruction":
                    fail(ipath, n, f"class {cls.name} overrides Instruction.{n.name}")
                if isinstance(n, ast.FunctionDef) and n.name == "called_subroutine" and cls.name != "Callsub":
                    fail(ipath, n, f"class {cls.name} defines .called_subroutine")
    check_no_subclasses(ipath, list(CLASS_PATTERNS))
    for rel, cn in ((BB_REL, "BasicBlock"), (SUB_REL, "Subroutine"), (INS_REL, "Instruction")):
        c = find_class(trees[rel], cn, os.path.join(T, rel))
        if c.bases or c.keywords or c.decorator_list:
            fail(os.path.join(T, rel), c, f"class {cn} has bases / decorators")
    # Teal.__init__ stores its `main` argument
    tpath = os.path.join(T, TEAL_REL)
    init = find_member(tpath, find_class(trees[TEAL_REL], "Teal", tpath), "__init__", None)
    if sum(1 for s in ast.walk(init) if isinstance(s, ast.stmt) and same_text(s, "self._main = main")) != 1:
        fail(tpath, init, "Teal.__init__ no longer stores `self._main = main`")
    for fn in find_class(trees[TEAL_REL], "Teal", tpath).body:
        if isinstance(fn, ast.FunctionDef) and fn.name != "__init__":
            for n in ast.walk(fn):
                if isinstance(n, ast.Attribute) and n.attr == "_main" and isinstance(n.ctx, (ast.Store, ast.Del)):
                    fail(tpath, n, f"Teal.{fn.name} stores _main")
    # parse_line stores the source line it was given into ins.source_code on every path
    plpath = os.path.join(T, "teal/instructions/parse_instruction.py")
    pl = find_toplevel(parse(plpath), "parse_line", plpath)
    stmts = [ast.unparse(s) for s in ast.walk(pl) if isinstance(s, ast.stmt)]
    if stmts.count(PARSE_LINE_STORES[0]) != 1 or stmts.count(PARSE_LINE_STORES[1]) != 3:
        fail(plpath, pl, "parse_line no longer stores `ins.source_code = source_code_line` (= the line it parsed) on its three return paths")
    rets = sorted(ast.unparse(r) for r in ast.walk(pl) if isinstance(r, ast.Return))
    if rets != ["return None", "return None", "return ins", "return ins", "return ins"]:
        fail(plpath, pl, "the return statements of parse_line changed")


def check_first_pass():
    """first_pass: the part read by the glue first_pass_lines is the text tools/translate_cfg.py fingerprints"""
    path = os.path.join(T, PT_REL)
    tree = parse(path)
    fn = find_toplevel(tree, "first_pass", path)
    cfg_signature(path, fn, CFG_SPECS["first_pass"]["sig"], CFG_SPECS["first_pass"]["rann"])
    slice_first_pass(path, fn)  # raises when the parse / idx / skip / line statements changed
    imports = bound_names(tree)
    if imports.get("parse_line") != "tealer.teal.instructions.parse_instruction.parse_line" or count_bindings(tree, "parse_line") != 1:
        raise TranslateError(f"translator: {path}: parse_line is not tealer.teal.instructions.parse_instruction.parse_line")
    for name in ("first_pass", "second_pass", "create_bb", "fourth_pass"):
        if imports.get(name) != "<local>" or count_bindings(tree, name) != 1:
            raise TranslateError(f"translator: {path}: {name} must be bound exactly once, by its def")


# ----------------------------------------------------------------------------- emission
def emit_copy(outdir):
    path = os.path.join(T, PF_REL)
    tree = parse(path)
    imports = bound_names(tree)
    check_fingerprints()
    check_first_pass()
    for name in ("copy_main_cfg", "first_pass", "second_pass", "create_bb", "fourth_pass", "Callsub", "defaultdict"):
        if count_bindings(tree, name) != 1:
            raise TranslateError(f"translator: {path}: {name} must be bound exactly once at module level; found {count_bindings(tree, name)} bindings")
    for name in ("sorted", "zip", "isinstance", "list"):
        if count_bindings(tree, name) != 0 or name in imports:
            raise TranslateError(f"translator: {path}: the builtin {name} is re-bound")
    want = {
        "copy_main_cfg": "<local>", "first_pass": "tealer.teal.parse_teal.first_pass", "second_pass": "tealer.teal.parse_teal.second_pass",
        "create_bb": "tealer.teal.parse_teal.create_bb", "fourth_pass": "tealer.teal.parse_teal.fourth_pass",
        "Callsub": "tealer.teal.instructions.instructions.Callsub", "defaultdict": "collections.defaultdict",
    }  # fmt: skip
    for name, mod in want.items():
        if imports.get(name) != mod:
            raise TranslateError(f"translator: {path}: {name} is bound to {imports.get(name)}, expected {mod}")
    fn = find_toplevel(tree, "copy_main_cfg", path)
    a = fn.args
    got = [(x.arg, ast.unparse(x.annotation) if x.annotation else None) for x in a.args]
    if a.vararg or a.kwarg or a.kwonlyargs or a.posonlyargs or a.defaults or fn.decorator_list or got != [("teal", "'Teal'")]:
        fail(path, fn, f"signature of copy_main_cfg: {got}")
    if (ast.unparse(fn.returns) if fn.returns else None) != "List['BasicBlock']":
        fail(path, fn, "return annotation of copy_main_cfg")
    for node in ast.walk(fn):
        if isinstance(node, ast.Name) and isinstance(node.ctx, (ast.Store, ast.Del)) and node.id in ("sorted", "zip", "isinstance", "list", "defaultdict", "Callsub", "first_pass", "second_pass", "create_bb", "fourth_pass", "teal"):
            fail(path, node, f"{node.id} is re-bound")
    body = strip_doc(fn.body)
    for key, (text, _) in SKIP.items():
        k = sum(1 for s in ast.walk(fn) if isinstance(s, ast.stmt) and same_text(s, text))
        if k != 1 or sum(1 for s in body if same_text(s, text)) != 1:
            fail(path, fn, f"the statement `{text.splitlines()[0]} ..` must occur exactly once, at the top level of copy_main_cfg")
    # construct_function still starts with the call whose result this file computes
    cf = find_toplevel(tree, "construct_function", path)
    first = strip_doc(cf.body)[0]
    if not same_text(first, "function_blocks = copy_main_cfg(teal)") or sum(1 for n in ast.walk(tree) if isinstance(n, ast.Call) and is_name(n.func, "copy_main_cfg")) != 1:
        fail(path, cf, "construct_function no longer starts with its only call `function_blocks = copy_main_cfg(teal)`")

    env = Env(path, {"teal": TEAL, "attrs": "attrs", "heap": HEAP}, imports)
    term = block(env, body, None)

    out = []
    w = out.append
    w("(* GENERATED by tools/translate.py (translate_copy) from /repo/tealer -- do not edit *)")
    w("(* teal/parse_functions.py: copy_main_cfg, statement by statement; the calls of first_pass / second_pass / create_bb /")
    w("   fourth_pass go to the regenerated Gen/CfgGen.v, parse_line to Gen/LineGen.v.  See tools/translate_copy.py. *)")
    w("From Coq Require Import String List NArith ZArith Bool Arith.")
    w("From Tealer Require Import Tables Syntax Parse Cfg KeysGen Analysis Detect Group.")
    w("From Tealer Require LineGen CfgGen.")
    w("From Tealer Require Import FunctionGen.")
    w("Import ListNotations.")
    w("Open Scope string_scope.")
    w("Open Scope list_scope.")
    w(PRELUDE.rstrip("\n"))
    w("")
    w("(* ====================================================================== *)")
    w("(* TRANSLATED function                                                      *)")
    w("(* ====================================================================== *)")
    w(f"(* {PF_REL}: copy_main_cfg (line {fn.lineno}); returns all_bbs and the final copy heap; None = a Python exception *)")
    w("Definition assertC {A : Type} (c : py bool) (k : py A) : py A := match c with Some true => k | _ => None end.")
    w(f"Definition copy_main_cfg_gen (t : teal) (attrs : ins_attrs) (heap : cheap) : py (list nat * cheap) :=\n{indent(term, 2)}.")
    w(EPILOGUE.rstrip("\n"))
    os.makedirs(outdir, exist_ok=True)
    with open(os.path.join(outdir, "CopyGen.v"), "w") as fh:
        fh.write("\n".join(out) + "\n")
    return 1


def main():
    outdir = sys.argv[1] if len(sys.argv) > 1 else os.path.join(os.path.dirname(os.path.abspath(__file__)), "..", "coq", "Gen")
    try:
        n = emit_copy(outdir)
    except TranslateError as e:
        print(str(e))
        sys.exit(2)
    print(f"translate_copy: {n} copy function -> {outdir}/CopyGen.v")


if __name__ == "__main__":
    main()
