"""Correspondence harness: run the extracted model (ocaml/driver) and the implementation (tools/implrun.py)
on the same request stream, canonicalise, and diff."""
import json
import os
import subprocess
import sys
from concurrent.futures import ThreadPoolExecutor

HERE = os.path.dirname(os.path.abspath(__file__))
ROOT = os.path.dirname(HERE)
DRIVER = os.path.join(ROOT, "ocaml", "driver")
IMPL = os.path.join(HERE, "implrun.py")
PY = "/venv/bin/python"
SHARD_TIMEOUT = int(os.environ.get("VERIF_SHARD_TIMEOUT", "900"))
REQUEST_TIMEOUT = int(os.environ.get("VERIF_REQUEST_TIMEOUT", "60"))
SKIPPED = []   # ids of requests skipped for resource reasons in this process


def make_stream(reqs):
    """reqs: list of (kind, id, text, extra-args list)"""
    out = []
    for kind, rid, text, extra in reqs:
        lines = text.split("\n")
        out.append("@@REQ %s %s %d%s" % (kind, rid, len(lines), (" " + " ".join(map(str, extra))) if extra else ""))
        out.extend(lines)
    return "\n".join(out) + "\n"


def run_cmd(cmd, data, env=None, timeout=1800):
    e = dict(os.environ)
    e.update({"PYTHONHASHSEED": "0", "VERIF_REPO": os.environ.get("VERIF_REPO", "/repo"), "PYTHONPATH": os.environ.get("VERIF_REPO", "/repo")})
    if env:
        e.update(env)
    p = subprocess.run(cmd, input=data.encode(), stdout=subprocess.PIPE, stderr=subprocess.PIPE, env=e, timeout=timeout, check=False)
    res = {}
    for line in p.stdout.decode(errors="replace").split("\n"):
        if "\t" in line:
            rid, js = line.split("\t", 1)
            try:
                res[rid] = json.loads(js)
            except Exception:  # pylint: disable=broad-except
                res[rid] = {"err": "unparsable output: " + js[:200]}
    return res, p.returncode, p.stderr.decode(errors="replace")[-2000:]


def run_both(reqs, shards=16, impl_env=None):
    """returns (model_results, impl_results) dicts by id"""
    if not reqs:
        return {}, {}
    shards = max(1, min(shards, len(reqs)))
    parts = [reqs[i::shards] for i in range(shards)]
    model, impl = {}, {}

    def both(part, timeout):
        data = make_stream(part)
        m, _, merr = run_cmd(["bash", "-c", "ulimit -s unlimited 2>/dev/null; exec " + DRIVER], data, timeout=timeout)
        i, _, ierr = run_cmd([PY, IMPL], data, env=impl_env, timeout=timeout)
        return m, i, merr, ierr

    def work(part):
        try:
            return both(part, SHARD_TIMEOUT)
        except subprocess.TimeoutExpired:
            # some request of this shard needs more time than the budget (path explosion in a generated program):
            # isolate it by running the requests one by one; a request over budget is recorded as resource-skipped on
            # BOTH sides (never compared, counted in the evidence) -- a resource limit of the harness, not a verdict
            m, i = {}, {}
            for req in part:
                try:
                    m1, i1, _, _ = both([req], REQUEST_TIMEOUT)
                    m.update(m1)
                    i.update(i1)
                except subprocess.TimeoutExpired:
                    m[req[1]] = {"err": "resource-timeout"}
                    i[req[1]] = {"err": "resource-timeout"}
                    SKIPPED.append(req[1])
            return m, i, "", ""

    with ThreadPoolExecutor(max_workers=shards) as ex:
        for m, i, merr, ierr in ex.map(work, parts):
            model.update(m)
            impl.update(i)
    for kind, rid, text, extra in reqs:
        model.setdefault(rid, {"err": "no output from driver"})
        impl.setdefault(rid, {"err": "no output from implementation"})
    return model, impl


# ------------------------------------------------------------------ comparison per observable

def norm_err(x):
    """map an error payload to a small enum"""
    if isinstance(x, dict) and "err" in x:
        e = x["err"]
        for k in ("KeyError", "IndexError", "AssertionError", "ParseError", "ValueError", "SystemExit", "TealerException", "RecursionError", "out-of-fuel", "AttributeError", "TypeError"):
            if k in e:
                return {"err": k}
        return {"err": "other:" + e[:80]}
    return x


def sorted_multiset(l):
    return sorted(l)


def cmp_cfg(m, i, strict_prev_order=False):
    """compare graph dumps; returns list of difference strings"""
    diffs = []
    if "err" in m or "err" in i:
        m_err = ("err" in m) or ("analysis_err" in m)   # the implementation raises from one try block
        if m_err != ("err" in i) and m.get("structured") is not False:
            diffs.append(f"error status differs: model={str(norm_err(m))[:200]} impl={norm_err(i)}")
        return diffs
    for k in ("version", "mode", "retained_lines", "mixed", "contract_type"):
        if m.get(k) != i.get(k):
            diffs.append(f"{k}: model={m.get(k)} impl={i.get(k)}")
    if sorted(map(tuple, m.get("flags", []))) != sorted(map(tuple, i.get("flags", []))):
        diffs.append(f"version flags: model={m.get('flags')} impl={i.get('flags')}")
    if {k: str(v) for k, v in m.get("costs", {}).items()} != {k: str(v) for k, v in i.get("costs", {}).items()}:
        diffs.append(f"block costs: model={m.get('costs')} impl={i.get('costs')}")
    mi = None if m.get("intcs") is None else [str(x) for x in m["intcs"]]
    if mi != i.get("intcs"):
        diffs.append(f"intcs: model={mi} impl={i.get('intcs')}")
    mb = {b["idx"]: b for b in m["blocks"]}
    ib = {b["idx"]: b for b in i["blocks"]}
    if sorted(mb) != sorted(ib):
        diffs.append(f"block ids: model={sorted(mb)} impl={sorted(ib)}")
        return diffs
    if [b["idx"] for b in m["blocks"]] != [b["idx"] for b in i["blocks"]]:
        diffs.append("block order differs")
    for idx in sorted(mb):
        a, b = mb[idx], ib[idx]
        for k in ("lines", "ins", "next"):
            if a[k] != b[k]:
                diffs.append(f"block {idx} {k}: model={a[k]} impl={b[k]}")
        pa, pb = (a["prev"], b["prev"]) if strict_prev_order else (sorted(a["prev"]), sorted(b["prev"]))
        if pa != pb:
            diffs.append(f"block {idx} prev: model={a['prev']} impl={b['prev']}")
    for k in ("main",):
        if m[k] != i[k]:
            diffs.append(f"{k}: model={m[k]} impl={i[k]}")
    if m["subs"] != i["subs"]:
        diffs.append(f"subs: model={m['subs']} impl={i['subs']}")
    return diffs


def cmp_ctx(m, i, key_filter=None):
    diffs = []
    if m.get("structured") is False:
        return diffs  # a block shared by two routines: outside every property's quantifier (tealer's own TODO)
    if "ctx" not in m or "ctx" not in i:
        if ("ctx" in m) != ("ctx" in i):
            diffs.append(f"analysis status differs: model={m.get('analysis_err', m.get('err'))} impl={i.get('err')}")
        return diffs
    if sorted(m["fn_blocks"]) != sorted(i["fn_blocks"]):
        diffs.append(f"function blocks: model={sorted(m['fn_blocks'])} impl={sorted(i['fn_blocks'])}")
        return diffs
    for b in m["ctx"]:
        mc, ic = m["ctx"][b], i["ctx"].get(b, {})
        for k in sorted(set(mc) | set(ic)):
            if key_filter and not key_filter(k):
                continue
            if mc.get(k) != ic.get(k):
                diffs.append(f"ctx block {b} {k}: model={mc.get(k)} impl={ic.get(k)}")
    return diffs


def cmp_paths(m, i, detectors=None):
    diffs = []
    if m.get("structured") is False:
        return diffs
    if "paths" not in m or "paths" not in i:
        if ("paths" in m) != ("paths" in i):
            diffs.append(f"detect status differs: model={m.get('analysis_err', m.get('err'))} impl={i.get('err')}")
        return diffs
    for d in m["paths"]:
        if detectors and d not in detectors:
            continue
        a, b = norm_err(m["paths"][d]), norm_err(i["paths"].get(d))
        if a != b:
            diffs.append(f"paths {d}: model={a} impl={b}")
    return diffs


def cmp_parseline(m, i):
    diffs = []
    if m is None or i is None:
        if m != i:
            diffs.append(f"model={m} impl={i}")
        return diffs
    if "err" in m or "err" in i:
        if ("err" in m) != ("err" in i):
            diffs.append(f"error status differs: model={norm_err(m)} impl={norm_err(i)}")
        return diffs
    for k in ("cls", "str", "pop", "push", "mode"):
        if m.get(k) != i.get(k):
            diffs.append(f"{k}: model={m.get(k)!r} impl={i.get(k)!r}")
    for k in ("version", "cost"):
        if str(m.get(k)) != str(i.get(k)):
            diffs.append(f"{k}: model={m.get(k)!r} impl={i.get(k)!r}")
    return diffs


if __name__ == "__main__":
    # ad-hoc: corr.py analyze file.teal ...
    kind = sys.argv[1]
    reqs = []
    for n, path in enumerate(sys.argv[2:]):
        reqs.append((kind, f"f{n}", open(path).read().rstrip("\n"), []))
    m, i = run_both(reqs)
    bad = 0
    for (k, rid, text, _), path in zip(reqs, sys.argv[2:]):
        d = cmp_cfg(m[rid], i[rid])
        if kind == "analyze":
            d += cmp_ctx(m[rid], i[rid]) + cmp_paths(m[rid], i[rid])
        if d:
            bad += 1
            print("==", path)
            for x in d[:12]:
                print("   ", x)
    print(f"{len(reqs)} programs, {bad} with differences")
