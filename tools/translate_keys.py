#!/venv/bin/python
"""Statement-by-statement translation of tealer's index/key classification helpers into Gallina (Gen/KeysGen.v).

Translated (read with `ast` only, never imported):
  transaction_context/utils/group_helpers.py : _get_index            -> get_index_genE / get_index_gen
                                               get_index_and_field   -> get_index_and_field_genE / get_index_and_field_gen
  transaction_context/utils/key_helpers.py   : is_value_matches_key  -> value_matches_genE / value_matches_gen
`is_int_push_ins` (utils/analyses.py) stays hand-written (Model/Keys.v) and is called by the generated code.

Reading of Python in Gallina (the fixed PRELUDE text below is the trusted part of this reading):
  * a Python expression that may raise is a term of type `py A := option A`, None = "a Python exception was raised"
    (AttributeError of `UnknownStackValue().instruction`, IndexError of `x.args[k]`, AttributeError of `.field` on an
    instruction class without that attribute, TypeError of `-None`, ...).  Statements are sequenced with `bind`;
    `a and b` / `a or b` / `if` on such expressions are andE / orE / ifE (a pure language needs no laziness:
    andE (Some false) None = Some false, exactly Python's short circuit).
  * `x.args[k]` is `bind (attr_args x) (fun l => subscript l k)` with `subscript := nth_error`: the failure case is
    explicit.  The total functions `*_gen` collapse an exception to the model's "no information" convention of
    Model/Keys.v (XUnknown / None / false), the same convention Keys.v uses for a wrong arity (`ISub, [a1; a2]`
    falls to `_ => XUnknown`).  Values of the tool always have len(args) = stack_pop_size, so no exception arises on them
    (proved: Lemmas/KeysGenLemmas.v, *_no_exception).
  * isinstance(i, (A, B)) on instructions becomes an explicit `match i with IA .. | IB .. => true | _ => false end`
    through CLASS_PATTERNS; the translator checks in instructions.py that none of these classes has a subclass
    (isinstance would accept it, the constructor pattern would not).
  * an analysis key string is read through its decomposition `keyfam` (Model/Keys.v): the string helpers of
    key_helpers.py are fingerprinted (KEY_HELPER_TEXT): any edit of them stops the translator.

Fail-closed: every statement kind, expression kind, attribute name, call name, class name and variable type that is
not whitelisted below raises TranslateError.
"""
import ast
import os
import sys

from tcommon import TranslateError, fail, parse, strip_doc, coq_str, T

GH_REL = "analyses/dataflow/transaction_context/utils/group_helpers.py"
KH_REL = "analyses/dataflow/transaction_context/utils/key_helpers.py"

# ----------------------------------------------------------------------------- whitelists
# python instruction class -> constructor pattern of Model/Syntax.instr
CLASS_PATTERNS = {
    "Txn": "ITxn _",
    "Gtxn": "IGtxn _ _",
    "Gtxns": "IGtxns _",
    "Sub": "ISub",
    "Add": "IAdd",
}
# python transaction field class -> class name string of Model/Syntax.field
FIELD_CLASSES = {"GroupIndex": "GroupIndex"}
# IndexType members the model's txindex can represent (checked against the enum in the source)
INDEX_TYPES = {"Self": 0, "Absolute": 1, "Relative": 2, "Unknown": 777}

# types of the little typed expression language
VAL, INS, FLD, BOOL, INT, INTVAL, INDEX, ITYPE, FAM, CLS, OPTINDEX, OPTFLD = (
    "sval", "instr", "field", "bool", "Z", "intres", "txindex", "index_type", "keyfam", "fieldclass", "option txindex", "option field",
)

# string helpers of key_helpers.py: exact text (docstrings stripped) they must have for the keyfam reading to be valid
KEY_HELPER_TEXT = {
    "get_gtxn_at_index_key": "def get_gtxn_at_index_key(idx: int, base_key: str) -> str:\n    return f'GTXN_AT_INDEX_{idx:02d}_{base_key}'",
    "is_gtxn_at_index_key": "def is_gtxn_at_index_key(analysis_key: str) -> bool:\n    return analysis_key.startswith('GTXN_AT_INDEX')",
    "get_ind_base_for_gtxn_type_keys": "def get_ind_base_for_gtxn_type_keys(analysis_key: str) -> Tuple[int, str]:\n    (ind, base_key) = analysis_key.split('_')[-2:]\n    return (int(ind), base_key)",
    "get_absolute_index_key": "def get_absolute_index_key(idx: int, base_key: str) -> str:\n    return f'GTXN_ABS_{idx:02d}_{base_key}'",
    "is_absolute_index_key": "def is_absolute_index_key(analysis_key: str) -> bool:\n    return analysis_key.startswith('GTXN_ABS_')",
    "get_relative_index_key": "def get_relative_index_key(offset: int, base_key: str) -> str:\n    return f'GTXN_RELATIVE_{offset:02d}_{base_key}'",
    "is_relative_index_key": "def is_relative_index_key(analysis_key: str) -> bool:\n    return analysis_key.startswith('GTXN_RELATIVE_')",
}
# statements of is_value_matches_key that are read as a whole (exact text), see emit_keys
VM_ASSERT = "assert value_index is not None and value_field is not None"
VM_FIELD_RESOLUTION = (
    "if key_field is None:\n"
    "    if is_gtxn_at_index_key(analysis_key) or is_absolute_index_key(analysis_key) or is_relative_index_key(analysis_key):\n"
    "        (_, field_str) = get_ind_base_for_gtxn_type_keys(analysis_key)\n"
    "    else:\n"
    "        field_str = analysis_key\n"
    "    field = TX_FIELD_TXT_TO_OBJECT[field_str]\n"
    "else:\n"
    "    field = key_field"
)

PRELUDE = r"""
(* ====================================================================== *)
(* PRELUDE (fixed text): how Python values, attribute reads and exceptions are read in Gallina            *)
(* ====================================================================== *)
(* a computation that may raise a Python exception (None) *)
Definition py (A : Type) : Type := option A.
Definition ret {A : Type} (a : A) : py A := Some a.
Definition bind {A B : Type} (m : py A) (k : A -> py B) : py B :=
  match m with Some a => k a | None => None end.
(* `a and b`, `a or b`, `not a`, `if c: .. else: ..` on computations (short circuit = Python's) *)
Definition andE (a b : py bool) : py bool :=
  match a with Some true => b | Some false => Some false | None => None end.
Definition orE (a b : py bool) : py bool :=
  match a with Some true => Some true | Some false => b | None => None end.
Definition notE (a : py bool) : py bool := option_map negb a.
Definition ifE {A : Type} (c : py bool) (a b : py A) : py A :=
  match c with Some true => a | Some false => b | None => None end.

(* KnownStackValue.instruction / .args ; UnknownStackValue has neither: AttributeError *)
Definition attr_instruction (v : sval) : py instr :=
  match v with SKnown op _ _ _ => Some op | SUnknown => None end.
Definition attr_args (v : sval) : py (list sval) :=
  match v with SKnown _ _ args _ => Some args | SUnknown => None end.
(* l[k] : IndexError when k >= len(l) *)
Definition subscript {A : Type} (l : list A) (k : nat) : py A := nth_error l k.
Definition isinstance_UnknownStackValue (v : sval) : bool :=
  match v with SUnknown => true | SKnown _ _ _ _ => false end.
(* ins.field / ins.idx : defined for the three classes the translated functions guard them with; on any other
   constructor the read is an exception (conservative: some other tealer classes do have a .field) *)
Definition attr_field (i : instr) : py field :=
  match i with ITxn f | IGtxn _ f | IGtxns f => Some f | _ => None end.
Definition attr_idx (i : instr) : py Z :=
  match i with IGtxn n _ => Some (Z.of_N n) | _ => None end.
(* isinstance(field_object, C): Model/Syntax.field carries the class name of the field object *)
Definition isinstance_field (f : field) (cls : string) : bool := String.eqb (fst f) cls.
Definition isinstance_optfield (f : option field) (cls : string) : bool :=
  match f with Some f => isinstance_field f cls | None => false end.

(* the pair returned by is_int_push_ins is the model's intres: NotInt = (False, None), IntUnknown = (True, None),
   IntNum n = (True, n), IntName s = (True, s).  [int_value] keeps the whole intres. *)
Definition intres_pushes (r : intres) : bool := match r with NotInt => false | _ => true end.
Definition isinstance_int (r : intres) : bool := match r with IntNum _ => true | _ => false end.
(* use of the second component as an integer (unary minus, TransactionIndex value): not an int -> exception *)
Definition as_int (r : intres) : py Z := match r with IntNum n => Some (Z.of_N n) | _ => None end.
"""

PRELUDE2 = r"""
(* TransactionIndex(index_type, value) as the model's txindex.  The value of Self/Unknown is ignored by tealer
   ("value should be ignored for Self and Unknown index types"); the translator only accepts the literal 0 there.
   An Absolute index is a natural number in the model: a negative one is not representable -> exception. *)
Definition TransactionIndex (t : index_type) (value : Z) : py txindex :=
  match t with
  | IT_Self => Some XSelf
  | IT_Absolute => if (value <? 0)%Z then None else Some (XAbs (Z.to_N value))
  | IT_Relative => Some (XRel value)
  | IT_Unknown => Some XUnknown
  end.
Definition index_type_of (x : txindex) : index_type :=
  match x with XSelf => IT_Self | XAbs _ => IT_Absolute | XRel _ => IT_Relative | XUnknown => IT_Unknown end.
Definition index_value_of (x : txindex) : Z :=
  match x with XAbs n => Z.of_N n | XRel z => z | XSelf | XUnknown => 0%Z end.
(* value_index.index_type / .value where value_index : Optional[TransactionIndex] (None -> AttributeError) *)
Definition attr_index_type (x : option txindex) : py index_type := option_map index_type_of x.
Definition attr_value (x : option txindex) : py Z := option_map index_value_of x.
Definition opt_is_some {A : Type} (o : option A) : bool := match o with Some _ => true | None => false end.

(* analysis keys through their decomposition (Model/Keys.keyfam); the string helpers of key_helpers.py are
   fingerprinted by the translator: "GTXN_AT_INDEX_%02d_<base>", "GTXN_ABS_%02d_<base>", "GTXN_RELATIVE_%02d_<base>" *)
Definition is_gtxn_at_index_key (k : keyfam) : bool := match k with KAtIndex _ => true | _ => false end.
Definition is_absolute_index_key (k : keyfam) : bool := match k with KAbs _ => true | _ => false end.
Definition is_relative_index_key (k : keyfam) : bool := match k with KRel _ => true | _ => false end.
(* first component of get_ind_base_for_gtxn_type_keys; "will fail if the key is not a TXN_AT_INDEX key" *)
Definition get_ind_for_gtxn_type_keys (k : keyfam) : py Z :=
  match k with KAtIndex i | KAbs i => Some (Z.of_N i) | KRel off => Some off | KSelf => None end.
"""


# ----------------------------------------------------------------------------- expression translation
class Env:
    def __init__(self, path, vars_, ret_kind):
        self.path = path
        self.vars = dict(vars_)  # python name -> type (the Coq name is the Python name)
        self.ret_kind = ret_kind  # "index" | "index_and_field" | "bool"
        self.counter = [0]

    def child(self, **new):
        e = Env(self.path, self.vars, self.ret_kind)
        e.counter = self.counter
        e.vars.update(new)
        return e

    def fresh(self):
        self.counter[0] += 1
        return f"tmp{self.counter[0]}"


def seq(env, parts, build, monadic_result=False):
    """parts: [(term, pure)]; build: function of the atoms -> term.  Impure parts are bound (left to right) to
    fresh names.  Returns (term, pure)."""
    binds, atoms = [], []
    for t, pure in parts:
        if pure:
            atoms.append(t)
        else:
            v = env.fresh()
            binds.append((v, t))
            atoms.append(v)
    body = build(*atoms)
    if not binds and not monadic_result:
        return body, True
    out = body if monadic_result else f"(ret {body})"
    for v, t in reversed(binds):
        out = f"(bind {t} (fun {v} => {out}))"
    return out, False


def as_monadic(t, pure):
    return f"(ret {t})" if pure else t


def class_names(env, node):
    """second argument of isinstance: a class name or a tuple of class names"""
    if isinstance(node, ast.Name):
        return [node.id]
    if isinstance(node, ast.Tuple) and node.elts and all(isinstance(x, ast.Name) for x in node.elts):
        return [x.id for x in node.elts]
    fail(env.path, node, "isinstance class argument " + ast.unparse(node))


def expr(env, e):
    """-> (term, type, pure)"""
    p = env.path
    if isinstance(e, ast.Constant):
        if e.value is True:
            return "true", BOOL, True
        if e.value is False:
            return "false", BOOL, True
        if isinstance(e.value, int) and not isinstance(e.value, bool):
            return f"({e.value})%Z", INT, True
        fail(p, e, "constant " + ast.unparse(e))
    if isinstance(e, ast.Name):
        if e.id in env.vars:
            return e.id, env.vars[e.id], True
        fail(p, e, f"unknown name {e.id}")
    if isinstance(e, ast.Attribute):
        if isinstance(e.value, ast.Name) and e.value.id == "IndexType":
            if e.attr in INDEX_TYPES:
                return f"IT_{e.attr}", ITYPE, True
            fail(p, e, "IndexType member " + e.attr)
        t, ty, pure = expr(env, e.value)
        table = {
            ("instruction", VAL): ("attr_instruction", INS),
            ("field", INS): ("attr_field", FLD),
            ("idx", INS): ("attr_idx", INT),
            ("index_type", OPTINDEX): ("attr_index_type", ITYPE),
            ("value", OPTINDEX): ("attr_value", INT),
        }
        if (e.attr, ty) in table:
            f, rty = table[(e.attr, ty)]
            out, _ = seq(env, [(t, pure)], lambda a: f"({f} {a})", monadic_result=True)
            return out, rty, False
        fail(p, e, f"attribute .{e.attr} of a value of type {ty}")
    if isinstance(e, ast.Subscript):
        # x.args[k]
        if isinstance(e.value, ast.Attribute) and e.value.attr == "args" and isinstance(e.slice, ast.Constant) and isinstance(e.slice.value, int) and not isinstance(e.slice.value, bool) and e.slice.value >= 0:
            t, ty, pure = expr(env, e.value.value)
            if ty != VAL:
                fail(p, e, f".args of a value of type {ty}")
            k = e.slice.value
            out, _ = seq(env, [(t, pure)], lambda a: f"(bind (attr_args {a}) (fun l => subscript l {k}))", monadic_result=True)
            return out, VAL, False
        fail(p, e, "subscript " + ast.unparse(e))
    if isinstance(e, ast.UnaryOp):
        t, ty, pure = expr(env, e.operand)
        if isinstance(e.op, ast.Not):
            if ty != BOOL:
                fail(p, e, f"`not` of a value of type {ty}")
            return (f"(negb {t})" if pure else f"(notE {t})"), BOOL, pure
        if isinstance(e.op, ast.USub):
            t, pure = to_int(env, e.operand, t, ty, pure)
            out, pure2 = seq(env, [(t, pure)], lambda a: f"(Z.opp {a})")
            return out, INT, pure2
        fail(p, e, "unary operator")
    if isinstance(e, ast.BoolOp):
        parts = [expr(env, v) for v in e.values]
        for (t, ty, pure), v in zip(parts, e.values):
            if ty != BOOL:
                fail(p, v, f"operand of and/or of type {ty}")
        allpure = all(pure for _, _, pure in parts)
        if isinstance(e.op, ast.And):
            f = "andb" if allpure else "andE"
        elif isinstance(e.op, ast.Or):
            f = "orb" if allpure else "orE"
        else:
            fail(p, e, "boolean operator")
        terms = [t if allpure else as_monadic(t, pure) for t, _, pure in parts]
        out = terms[-1]
        for t in reversed(terms[:-1]):
            out = f"({f} {t} {out})"
        return out, BOOL, allpure
    if isinstance(e, ast.Compare):
        if len(e.ops) != 1 or not isinstance(e.ops[0], (ast.Eq, ast.NotEq)):
            fail(p, e, "comparison " + ast.unparse(e))
        l, lty, lp = expr(env, e.left)
        r, rty, rp = expr(env, e.comparators[0])
        if lty == rty == ITYPE:
            f = "index_type_eqb"
        elif lty == rty == INT:
            f = "Z.eqb"
        else:
            fail(p, e, f"comparison of {lty} with {rty}")
        neg = isinstance(e.ops[0], ast.NotEq)
        out, pure = seq(env, [(l, lp), (r, rp)], lambda a, b: (f"(negb ({f} {a} {b}))" if neg else f"({f} {a} {b})"))
        return out, BOOL, pure
    if isinstance(e, ast.Call):
        if e.keywords or not isinstance(e.func, ast.Name):
            fail(p, e, "call " + ast.unparse(e))
        fn = e.func.id
        if fn == "isinstance" and len(e.args) == 2:
            t, ty, pure = expr(env, e.args[0])
            carg = e.args[1]
            if ty == OPTFLD and isinstance(carg, ast.Name) and env.vars.get(carg.id) == CLS:
                build = lambda a: f"(isinstance_optfield {a} {carg.id})"  # noqa: E731
            else:
                cs = class_names(env, carg)
                if ty == VAL and cs == ["UnknownStackValue"]:
                    build = lambda a: f"(isinstance_UnknownStackValue {a})"  # noqa: E731
                elif ty == INS and all(c in CLASS_PATTERNS for c in cs):
                    pats = " | ".join(CLASS_PATTERNS[c] for c in cs)
                    build = lambda a: f"(match {a} with {pats} => true | _ => false end)"  # noqa: E731
                elif ty == FLD and len(cs) == 1 and cs[0] in FIELD_CLASSES:
                    build = lambda a: f"(isinstance_field {a} {coq_str(FIELD_CLASSES[cs[0]])})"  # noqa: E731
                elif ty == INTVAL and cs == ["int"]:
                    build = lambda a: f"(isinstance_int {a})"  # noqa: E731
                else:
                    fail(p, e, f"isinstance of a value of type {ty} with {ast.unparse(carg)}")
            out, pure2 = seq(env, [(t, pure)], build)
            return out, BOOL, pure2
        if fn == "TransactionIndex" and len(e.args) == 2:
            k = e.args[0]
            if not (isinstance(k, ast.Attribute) and isinstance(k.value, ast.Name) and k.value.id == "IndexType" and k.attr in INDEX_TYPES):
                fail(p, e, "TransactionIndex index type " + ast.unparse(k))
            if k.attr in ("Self", "Unknown"):
                if not (isinstance(e.args[1], ast.Constant) and e.args[1].value == 0 and not isinstance(e.args[1].value, bool)):
                    fail(p, e, f"TransactionIndex(IndexType.{k.attr}, v) with v other than the literal 0")
                return f"(TransactionIndex IT_{k.attr} 0%Z)", INDEX, False
            t, ty, pure = expr(env, e.args[1])
            t, pure = to_int(env, e.args[1], t, ty, pure)
            out, _ = seq(env, [(t, pure)], lambda a: f"(TransactionIndex IT_{k.attr} {a})", monadic_result=True)
            return out, INDEX, False
        if fn == "_get_index" and len(e.args) == 1 and env.ret_kind == "index_and_field":
            t, ty, pure = expr(env, e.args[0])
            if ty != VAL:
                fail(p, e, f"_get_index of a value of type {ty}")
            out, _ = seq(env, [(t, pure)], lambda a: f"(get_index_genE intcs {a})", monadic_result=True)
            return out, INDEX, False
        if fn in ("is_gtxn_at_index_key", "is_absolute_index_key", "is_relative_index_key") and len(e.args) == 1:
            t, ty, pure = expr(env, e.args[0])
            if ty != FAM or not pure:
                fail(p, e, f"{fn} of a value of type {ty}")
            return f"({fn} {t})", BOOL, True
        fail(p, e, "call " + ast.unparse(e))
    fail(p, e, "expression " + ast.unparse(e))


def to_int(env, node, t, ty, pure):
    """coerce to Z: INT stays, the value component of is_int_push_ins goes through as_int (may raise)"""
    if ty == INT:
        return t, pure
    if ty == INTVAL:
        out, _ = seq(env, [(t, pure)], lambda a: f"(as_int {a})", monadic_result=True)
        return out, False
    fail(env.path, node, f"integer expected, got a value of type {ty}")


# ----------------------------------------------------------------------------- statement translation
def ret_expr(env, st):
    """translate `return e` according to the function's return convention; -> monadic term"""
    p, e = env.path, st.value
    if e is None:
        fail(p, st, "bare return")
    if env.ret_kind == "index":
        t, ty, pure = expr(env, e)
        if ty != INDEX:
            fail(p, st, f"return of a value of type {ty}")
        return as_monadic(t, pure)
    if env.ret_kind == "bool":
        t, ty, pure = expr(env, e)
        if ty != BOOL:
            fail(p, st, f"return of a value of type {ty}")
        return as_monadic(t, pure)
    if env.ret_kind == "index_and_field":
        # (False, None, None) -> None ; (True, index, field) -> Some (index, field)
        if not (isinstance(e, ast.Tuple) and len(e.elts) == 3):
            fail(p, st, "return shape " + ast.unparse(e))
        a, b, c = e.elts
        isnone = lambda x: isinstance(x, ast.Constant) and x.value is None  # noqa: E731
        if isinstance(a, ast.Constant) and a.value is False and isnone(b) and isnone(c):
            return "(ret None)"
        if isinstance(a, ast.Constant) and a.value is True:
            bt, bty, bp = expr(env, b)
            ct, cty, cp = expr(env, c)
            if bty != INDEX or cty != FLD:
                fail(p, st, f"return (True, {bty}, {cty})")
            out, _ = seq(env, [(bt, bp), (ct, cp)], lambda x, y: f"(Some ({x}, {y}))")
            return as_monadic(out, _)
        fail(p, st, "return shape " + ast.unparse(e))
    raise TranslateError("translator: internal: return kind")


def bind_var(env, name, node, t, ty, pure, rest_of):
    """`name = <t>`; a re-assignment must keep the type of the variable"""
    if name.startswith("tmp") or name in ("intcs", "l", "ret", "bind", "fld"):
        fail(env.path, node, f"variable name {name} is reserved by the translator")
    if name in env.vars and env.vars[name] != ty:
        fail(env.path, node, f"re-assignment of {name} changes its type from {env.vars[name]} to {ty}")
    env2 = env.child(**{name: ty})
    rest = rest_of(env2)
    if pure:
        return f"(let {name} := {t} in\n{rest})"
    return f"(bind {t} (fun {name} =>\n{rest}))"


def indent(s, n=4):
    return "\n".join(" " * n + l for l in s.split("\n"))


def names_in(node):
    return {n.id for n in ast.walk(node) if isinstance(n, ast.Name)}


def block(env, stmts, fall):
    """stmts: statement list; fall: function env -> term for what follows the block (None: the function ends).
    Returns a term of type py R."""
    p = env.path
    stmts = strip_doc(stmts)
    if not stmts:
        if fall is None:
            raise TranslateError(f"translator: {p}: control reaches the end of the function without return")
        return fall(env)
    st, rest = stmts[0], stmts[1:]
    rest_of = lambda env2: block(env2, rest, fall)  # noqa: E731
    if isinstance(st, ast.Return):
        if rest:
            fail(p, rest[0], "statement after return")
        return ret_expr(env, st)
    if isinstance(st, ast.Assert):
        if env.ret_kind == "bool" and same_text(st, VM_ASSERT):
            # implied by value_is_field (the model's option carries both components together)
            return rest_of(env)
        fail(p, st, "assert " + ast.unparse(st)[:60])
    if isinstance(st, ast.Assign):
        if len(st.targets) != 1:
            fail(p, st, "chained assignment")
        tg = st.targets[0]
        if isinstance(tg, ast.Name):
            t, ty, pure = expr(env, st.value)
            return bind_var(env, tg.id, st, t, ty, pure, rest_of)
        if isinstance(tg, ast.Tuple) and all(isinstance(x, ast.Name) for x in tg.elts):
            names = [x.id for x in tg.elts]
            v = st.value
            # a, b = e1, e2
            if isinstance(v, ast.Tuple):
                if len(v.elts) != len(names) or len(set(names)) != len(names) or (set(names) & names_in(v)):
                    fail(p, st, "tuple assignment " + ast.unparse(st)[:60])

                def chain(env2, i):
                    if i == len(names):
                        return block(env2, rest, fall)
                    t, ty, pure = expr(env, v.elts[i])  # right-hand sides are evaluated in the old environment
                    return bind_var(env2, names[i], st, t, ty, pure, lambda env3: chain(env3, i + 1))

                return chain(env, 0)
            if isinstance(v, ast.Call) and isinstance(v.func, ast.Name) and not v.keywords and len(v.args) == 1:
                fn = v.func.id
                # pushes_int, int_value = is_int_push_ins(<instruction>)
                if fn == "is_int_push_ins" and len(names) == 2 and names[0] != names[1]:
                    t, ty, pure = expr(env, v.args[0])
                    if ty != INS:
                        fail(p, st, f"is_int_push_ins of a value of type {ty}")
                    call, cpure = seq(env, [(t, pure)], lambda a: f"(is_int_push_ins intcs {a})")
                    flag, val = names
                    return bind_var(
                        env, val, st, call, INTVAL, cpure,
                        lambda env2: bind_var(env2, flag, st, f"(intres_pushes {val})", BOOL, True, rest_of),
                    )
                # value_is_field, value_index, value_field = get_index_and_field(stack_value)
                if fn == "get_index_and_field" and len(names) == 3 and len(set(names)) == 3 and env.ret_kind == "bool":
                    t, ty, pure = expr(env, v.args[0])
                    if ty != VAL or not pure:
                        fail(p, st, f"get_index_and_field of a value of type {ty}")
                    r = env.fresh()
                    a, b, c = names
                    inner = bind_var(
                        env, a, st, f"(opt_is_some {r})", BOOL, True,
                        lambda e2: bind_var(
                            e2, b, st, f"(option_map fst {r})", OPTINDEX, True,
                            lambda e3: bind_var(e3, c, st, f"(option_map snd {r})", OPTFLD, True, rest_of),
                        ),
                    )
                    return f"(bind (get_index_and_field_genE intcs {t}) (fun {r} =>\n{inner}))"
                # idx, _ = get_ind_base_for_gtxn_type_keys(analysis_key)
                if fn == "get_ind_base_for_gtxn_type_keys" and len(names) == 2 and names[1] == "_" and names[0] != "_":
                    t, ty, pure = expr(env, v.args[0])
                    if ty != FAM or not pure:
                        fail(p, st, f"get_ind_base_for_gtxn_type_keys of a value of type {ty}")
                    return bind_var(env, names[0], st, f"(get_ind_for_gtxn_type_keys {t})", INT, False, rest_of)
            fail(p, st, "tuple assignment " + ast.unparse(st)[:60])
        fail(p, st, "assignment target " + ast.unparse(tg))
    if isinstance(st, ast.If):
        if env.ret_kind == "bool" and same_text(st, VM_FIELD_RESOLUTION):
            # resolution of the field class the key tracks: the model's value_matches receives the resolved class
            # [fld] (key_field when given, else TX_FIELD_TXT_TO_OBJECT[base key]); read as a whole, exact text.
            return bind_var(env, "field", st, "fld", CLS, True, rest_of)
        t, ty, pure = expr(env, st.test)
        if ty != BOOL:
            fail(p, st, f"if-condition of type {ty}")
        # what follows the if is duplicated into the branches that fall through (variables assigned in a branch
        # shadow the outer ones by name; bind_var checks that their types are unchanged)
        cont = (lambda env2: block(env2, rest, fall)) if (rest or fall is not None) else None
        then_t = block(env, st.body, cont)
        if st.orelse:
            else_t = block(env, st.orelse, cont)
        else:
            if cont is None:
                raise TranslateError(f"translator: {p}:{st.lineno}: if without else at the end of the function")
            else_t = cont(env)
        # layout: the then-branch is indented, what follows stays at the same level
        if pure:
            return f"(if {t}\n then\n{indent(then_t)}\n else\n{else_t})"
        return f"(ifE {t}\n{indent(then_t)}\n{else_t})"
    fail(p, st, "statement " + ast.unparse(st)[:60])


# ----------------------------------------------------------------------------- source checks
def find_toplevel(tree, name, path):
    found = [n for n in tree.body if isinstance(n, ast.FunctionDef) and n.name == name]
    if len(found) != 1:
        raise TranslateError(f"translator: {path}: expected exactly one top-level function {name}")
    return found[0]


def signature(path, fn, expected):
    """expected: [(name, annotation text, default text or None)]"""
    a = fn.args
    if a.vararg or a.kwarg or a.kwonlyargs or a.posonlyargs or fn.decorator_list:
        fail(path, fn, "signature of " + fn.name)
    defaults = [None] * (len(a.args) - len(a.defaults)) + [ast.unparse(d) for d in a.defaults]
    got = [(x.arg, ast.unparse(x.annotation) if x.annotation else None, d) for x, d in zip(a.args, defaults)]
    if got != expected:
        fail(path, fn, f"signature of {fn.name}: {got}")


def check_no_subclasses(path, names):
    """isinstance(x, C) accepts subclasses of C; the constructor patterns do not: require there are none"""
    tree = parse(path)
    seen = set()
    for node in ast.walk(tree):
        if isinstance(node, ast.ClassDef):
            seen.add(node.name)
            for b in node.bases:
                bn = ast.unparse(b)
                if bn in names:
                    fail(path, node, f"class {node.name} is a subclass of {bn}: isinstance({bn}) is no longer a single constructor")
    for n in names:
        if n not in seen:
            raise TranslateError(f"translator: {path}: class {n} not found")


def check_imports(path, tree, expected):
    """the names used by the translated functions must be the ones imported from the expected modules"""
    got = {}
    for node in tree.body:
        if isinstance(node, ast.ImportFrom):
            for al in node.names:
                got[al.asname or al.name] = (node.module or "") + "." + al.name
        elif isinstance(node, (ast.FunctionDef, ast.ClassDef)):
            got[node.name] = "<local>"
        elif isinstance(node, ast.Assign):
            for tg in node.targets:
                for n in names_in(tg):
                    got[n] = "<local>"
    for name, mod in expected.items():
        if got.get(name) != mod:
            raise TranslateError(f"translator: {path}: name {name} is bound to {got.get(name)}, expected {mod}")


def read_index_type(path, tree):
    for node in tree.body:
        if isinstance(node, ast.ClassDef) and node.name == "IndexType":
            members = {}
            for m in strip_doc(node.body):
                if isinstance(m, ast.Assign) and len(m.targets) == 1 and isinstance(m.targets[0], ast.Name) and isinstance(m.value, ast.Constant):
                    members[m.targets[0].id] = m.value.value
                else:
                    fail(path, m, "IndexType member")
            if members != INDEX_TYPES:
                fail(path, node, f"IndexType members changed: {members}")
            return list(members)
    raise TranslateError(f"translator: {path}: class IndexType not found")


def check_transaction_index(path, tree):
    for node in tree.body:
        if isinstance(node, ast.ClassDef) and node.name == "TransactionIndex":
            fields = [(m.target.id, ast.unparse(m.annotation)) for m in strip_doc(node.body) if isinstance(m, ast.AnnAssign) and isinstance(m.target, ast.Name)]
            if fields != [("index_type", "IndexType"), ("value", "int")] or len(strip_doc(node.body)) != 2 or [ast.unparse(d) for d in node.decorator_list] != ["dataclass"]:
                fail(path, node, f"TransactionIndex changed: {fields}")
            return
    raise TranslateError(f"translator: {path}: class TransactionIndex not found")


def normalized(fn):
    node = ast.parse(ast.unparse(fn)).body[0]
    node.body = strip_doc(node.body) or [ast.Pass()]
    return ast.unparse(node)


def same_text(node, text):
    """the statement/function [node] is, up to layout and comments, the expected source text"""
    return ast.dump(ast.parse(ast.unparse(node))) == ast.dump(ast.parse(text))


# ----------------------------------------------------------------------------- emission
def emit_keys(outdir):
    gh = os.path.join(T, GH_REL)
    kh = os.path.join(T, KH_REL)
    gtree, ktree = parse(gh), parse(kh)

    # --- the environment the functions are read in
    check_imports(
        gh, gtree,
        {
            "Txn": "tealer.teal.instructions.instructions.Txn",
            "Gtxn": "tealer.teal.instructions.instructions.Gtxn",
            "Gtxns": "tealer.teal.instructions.instructions.Gtxns",
            "Sub": "tealer.teal.instructions.instructions.Sub",
            "Add": "tealer.teal.instructions.instructions.Add",
            "UnknownStackValue": "tealer.analyses.utils.stack_ast_builder.UnknownStackValue",
            "GroupIndex": "tealer.teal.instructions.transaction_field.GroupIndex",
            "is_int_push_ins": "tealer.utils.analyses.is_int_push_ins",
            "IndexType": "<local>",
            "TransactionIndex": "<local>",
            "_get_index": "<local>",
        },
    )
    check_imports(
        kh, ktree,
        {
            "IndexType": "tealer.analyses.dataflow.transaction_context.utils.group_helpers.IndexType",
            "get_index_and_field": "tealer.analyses.dataflow.transaction_context.utils.group_helpers.get_index_and_field",
            "TX_FIELD_TXT_TO_OBJECT": "tealer.teal.instructions.parse_transaction_field.TX_FIELD_TXT_TO_OBJECT",
            **{k: "<local>" for k in KEY_HELPER_TEXT},
        },
    )
    check_no_subclasses(os.path.join(T, "teal/instructions/instructions.py"), set(CLASS_PATTERNS))
    check_no_subclasses(os.path.join(T, "teal/instructions/transaction_field.py"), set(FIELD_CLASSES))
    check_no_subclasses(os.path.join(T, "analyses/utils/stack_ast_builder.py"), {"UnknownStackValue", "KnownStackValue"})
    members = read_index_type(gh, gtree)
    check_transaction_index(gh, gtree)
    for name, text in KEY_HELPER_TEXT.items():
        got = normalized(find_toplevel(ktree, name, kh))
        if not same_text(ast.parse(got), text):
            raise TranslateError(f"translator: {kh}: string helper {name} changed (the keyfam reading of analysis keys is no longer justified):\n{got}")

    L = []
    w = L.append
    w("(* GENERATED by tools/translate.py (translate_keys) from /repo/tealer -- do not edit *)")
    w("(* transaction_context/utils/group_helpers.py (_get_index, get_index_and_field) and key_helpers.py")
    w("   (is_value_matches_key), statement by statement.  See tools/translate_keys.py for the reading. *)")
    w("From Coq Require Import String List NArith ZArith Bool.")
    w("From Tealer Require Import Syntax StackAst Keys.")
    w("Import ListNotations.")
    w("Open Scope string_scope.")
    w(PRELUDE.rstrip("\n"))
    w("")
    w("(* class IndexType(ComparableEnum): " + ", ".join(f"{m} = {INDEX_TYPES[m]}" for m in members) + " *)")
    w("Inductive index_type := " + " | ".join(f"IT_{m}" for m in members) + ".")
    w("Definition index_type_eqb (a b : index_type) : bool :=")
    w("  match a, b with " + " | ".join(f"IT_{m}, IT_{m}" for m in members) + " => true | _, _ => false end.")
    w(PRELUDE2.rstrip("\n"))
    w("")
    w("(* ====================================================================== *)")
    w("(* TRANSLATED functions                                                     *)")
    w("(* ====================================================================== *)")

    # --- _get_index
    f = find_toplevel(gtree, "_get_index", gh)
    signature(gh, f, [("index_stack_value", "KnownStackValue", None)])
    env = Env(gh, {"index_stack_value": VAL}, "index")
    w(f"(* {GH_REL}: _get_index (line {f.lineno}) *)")
    w(f"Definition get_index_genE (intcs : option (list N)) (index_stack_value : sval) : py txindex :=\n{indent(block(env, f.body, None), 2)}.")
    w("")
    # --- get_index_and_field
    f = find_toplevel(gtree, "get_index_and_field", gh)
    signature(gh, f, [("value", "KnownStackValue", None)])
    env = Env(gh, {"value": VAL}, "index_and_field")
    w(f"(* {GH_REL}: get_index_and_field (line {f.lineno}); (False, None, None) is None, (True, i, f) is Some (i, f) *)")
    w(f"Definition get_index_and_field_genE (intcs : option (list N)) (value : sval) : py (option (txindex * field)) :=\n{indent(block(env, f.body, None), 2)}.")
    w("")
    # --- is_value_matches_key
    f = find_toplevel(ktree, "is_value_matches_key", kh)
    signature(
        kh, f,
        [("analysis_key", "str", None), ("stack_value", "'KnownStackValue'", None), ("key_field", "Optional[Type['TransactionField']]", "None")],
    )
    env = Env(kh, {"analysis_key": FAM, "stack_value": VAL}, "bool")
    w(f"(* {KH_REL}: is_value_matches_key (line {f.lineno}); analysis_key is read through its keyfam,")
    w("   [fld] is the field class resolved from (analysis_key, key_field) *)")
    w(f"Definition value_matches_genE (intcs : option (list N)) (analysis_key : keyfam) (fld : string) (stack_value : sval) : py bool :=\n{indent(block(env, f.body, None), 2)}.")
    w("")
    w("(* total versions: a Python exception is the model's \"no information\" (Model/Keys.v convention) *)")
    w("Definition get_index_gen (intcs : option (list N)) (v : sval) : txindex :=")
    w("  match get_index_genE intcs v with Some x => x | None => XUnknown end.")
    w("Definition get_index_and_field_gen (intcs : option (list N)) (v : sval) : option (txindex * field) :=")
    w("  match get_index_and_field_genE intcs v with Some r => r | None => None end.")
    w("Definition value_matches_gen (intcs : option (list N)) (fam : keyfam) (fld : string) (v : sval) : bool :=")
    w("  match value_matches_genE intcs fam fld v with Some b => b | None => false end.")
    os.makedirs(outdir, exist_ok=True)
    with open(os.path.join(outdir, "KeysGen.v"), "w") as fh:
        fh.write("\n".join(L) + "\n")
    return 3


def main():
    outdir = sys.argv[1] if len(sys.argv) > 1 else os.path.join(os.path.dirname(os.path.abspath(__file__)), "..", "coq", "Gen")
    try:
        n = emit_keys(outdir)
    except TranslateError as e:
        print(str(e))
        sys.exit(2)
    print(f"translate_keys: {n} key/index classification functions -> {outdir}/KeysGen.v")


if __name__ == "__main__":
    main()
