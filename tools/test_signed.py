#!/venv/bin/python
"""Self-test for the signed immediates of frame_dig / frame_bury (Model/Syntax.v PSInt, Model/Parse.v parse_sint /
parse_imm / signed_imm_class, Lemmas/LineGenLemmas.v PART 7, Lemmas/ShapeGenLemmas.v parse_imm_backed,
Lemmas/SignedLemmas.v).

(a) positive control: a scratch copy of coq/ rebuilds Lemmas/SignedLemmas.vo and Props/C16.vo unchanged;
(b) MODEL mutations: a small edit of the hand-written model in the scratch copy; expected: `make Lemmas/SignedLemmas.vo`
    fails (some lemma file of the chain no longer compiles);
(c) SOURCE mutations: a small edit of a scratch copy of $VERIF_REPO (default /repo), the whole tools/translate.py is
    run on it; expected: the translator stops, or the regenerated files make `make Lemmas/SignedLemmas.vo
    Lemmas/TableLemmas.vo` fail.

Precondition: coq/ has been built.  Every make runs under `timeout`, with -j4.  Exit status 0 iff every row has the
expected verdict.
"""
import os
import shutil
import subprocess
import sys
import tempfile

HERE = os.path.dirname(os.path.abspath(__file__))
ROOT = os.path.dirname(HERE)
COQ = os.path.join(ROOT, "coq")
PY = "/venv/bin/python"
REPO = os.environ.get("VERIF_REPO", "/repo")
TARGETS = "Lemmas/SignedLemmas.vo"


def sh(cmd, cwd=None, env=None):
    e = dict(os.environ)
    if env:
        e.update(env)
    p = subprocess.run(cmd, shell=True, cwd=cwd, stdout=subprocess.PIPE, stderr=subprocess.STDOUT, env=e, check=False)
    return p.returncode, p.stdout.decode(errors="replace")


def replace_once(src, old, new):
    if src.count(old) != 1:
        raise RuntimeError(f"mutation anchor found {src.count(old)} times: " + old[:70])
    return src.replace(old, new, 1)


# ----------------------------------------------------------------------------- model mutations: (file, old, new, what)
MODEL = [
    ("octal-after-sign", "Model/Parse.v",
     "match parse_base 10 t with Some n => Ok (Z.opp (Z.of_N n)) | None => Err",
     "match (match parse_int t with Ok n => Some n | Err _ => None end) with Some n => Ok (Z.opp (Z.of_N n)) | None => Err",
     "the digits after the sign read by parse_int (leading 0 = octal, 0x = hex) instead of base 10"),
    ("sign-dropped", "Model/Parse.v",
     "Some n => Ok (Z.opp (Z.of_N n)) | None => Err",
     "Some n => Ok (Z.of_N n) | None => Err",
     "the sign is accepted and dropped"),
    ("signed-class-extended", "Model/Parse.v",
     '(c =? "FrameDig") || (c =? "FrameBury").',
     '(c =? "FrameDig") || (c =? "FrameBury") || (c =? "Load").',
     "a class the assembler reads unsigned is read signed"),
    ("signed-class-missing", "Model/Parse.v",
     '(c =? "FrameDig") || (c =? "FrameBury").',
     '(c =? "FrameDig").',
     "frame_bury no longer read signed"),
    ("print-absolute", "Model/Syntax.v",
     "| PSInt z => string_of_Z z\n  end.\nDefinition list_of_param",
     "| PSInt z => string_of_N (Z.abs_N z)\n  end.\nDefinition list_of_param",
     "the printed form loses the sign"),
    ("mixed-forms", "Model/Parse.v",
     "(do z <- parse_sint x; Ok [PSInt z])",
     "(do z <- parse_sint x; Ok [if Z.ltb z 0 then PSInt z else PInt (Z.to_N z)])",
     "non-negative immediates of the signed classes keep the natural-number form"),
    ("minus-alone-is-zero", "Model/Parse.v",
     "match parse_base 10 t with Some n => Ok (Z.opp (Z.of_N n)) | None => Err",
     "match (match t with EmptyString => Some 0%N | _ => parse_base 10 t end) with Some n => Ok (Z.opp (Z.of_N n)) | None => Err",
     "a lone `-` accepted as 0"),
]

PI = "tealer/teal/instructions/parse_instruction.py"
INS = "tealer/teal/instructions/instructions.py"
SOURCE = [
    ("rule-class-swapped", PI,
     '("frame_dig ", lambda x: instructions.FrameDig(_parse_int(x))),',
     '("frame_dig ", lambda x: instructions.FrameBury(_parse_int(x))),',
     "frame_dig constructs FrameBury"),
    ("rule-abs", PI,
     '("frame_dig ", lambda x: instructions.FrameDig(_parse_int(x))),',
     '("frame_dig ", lambda x: instructions.FrameDig(abs(_parse_int(x)))),',
     "the parser drops the sign"),
    ("print-abs", INS,
     'return f"frame_dig {self._index}"',
     'return f"frame_dig {abs(self._index)}"',
     "the printer drops the sign"),
    ("print-mnemonic", INS,
     'return f"frame_bury {self._index}"',
     'return f"frame_dig {self._index}"',
     "frame_bury prints as frame_dig"),
    ("push-size", INS,
     '        # TODO: It\'s not clear where the frame pointer is stored and what are the exact\n        # semantics of this opcode. Recheck this later.\n        return 1\n\n    def __str__(self) -> str:\n        return f"frame_dig {self._index}"',
     '        # TODO: It\'s not clear where the frame pointer is stored and what are the exact\n        # semantics of this opcode. Recheck this later.\n        return 2\n\n    def __str__(self) -> str:\n        return f"frame_dig {self._index}"',
     "frame_dig pushes two values"),
]


def scratch_coq(work):
    dst = os.path.join(work, "coq")
    shutil.copytree(COQ, dst, symlinks=True, ignore=shutil.ignore_patterns("Gen.new"))
    rc, out = sh("coq_makefile -f _CoqProject -o Makefile 2>&1", cwd=dst)
    if rc != 0:
        raise RuntimeError(out)
    return dst


def make(coq, targets):
    rc, out = sh(f"timeout 1500 make -j4 {targets} 2>&1", cwd=coq)
    err = next((l for l in out.splitlines() if l.startswith("File ") and ", line " in l), None)
    return rc, err, out


def edit(path, old, new):
    with open(path, encoding="utf-8") as fh:
        src = fh.read()
    with open(path, "w", encoding="utf-8") as fh:
        fh.write(replace_once(src, old, new))


def main():
    only = set(sys.argv[1:])
    rows = []
    ok_all = True
    with tempfile.TemporaryDirectory(prefix="test_signed_") as work:
        # (a) positive control
        coq = scratch_coq(work)
        sh("touch Lemmas/SignedLemmas.v", cwd=coq)
        rc, err, out = make(coq, TARGETS + " Props/C16.vo Props/C11.vo")
        rows.append(("(a) positive control", "PASS" if rc == 0 else "FAIL", err or ""))
        ok_all &= rc == 0
        if rc != 0:
            print(out[-2000:])
        # (b) model mutations
        for name, f, old, new, what in MODEL:
            if only and name not in only:
                continue
            c = os.path.join(work, "m_" + name)
            shutil.copytree(coq, c, symlinks=True)
            edit(os.path.join(c, f), old, new)
            rc, err, out = make(c, TARGETS)
            caught = rc != 0 and err is not None
            rows.append((f"(b) {name}: {what}", "caught" if caught else "ESCAPED", err or out[-300:]))
            ok_all &= caught
            shutil.rmtree(c)
        # (c) source mutations
        for name, f, old, new, what in SOURCE:
            if only and name not in only:
                continue
            repo = os.path.join(work, "r_" + name)
            os.makedirs(repo)
            shutil.copytree(os.path.join(REPO, "tealer"), os.path.join(repo, "tealer"), ignore=shutil.ignore_patterns("__pycache__"))
            edit(os.path.join(repo, f), old, new)
            c = os.path.join(work, "s_" + name)
            shutil.copytree(coq, c, symlinks=True)
            gen = os.path.join(c, "Gen.scratch")
            os.makedirs(gen)
            rc, out = sh(f"timeout 900 {PY} {HERE}/translate.py {gen}", env={"VERIF_REPO": repo})
            if rc != 0:
                stopped = "translator:" in out
                rows.append((f"(c) {name}: {what}", "caught (translator stop)" if stopped else "CRASHED", out.strip().splitlines()[-1][:200] if out.strip() else ""))
                ok_all &= stopped
            else:
                changed = []
                for fn in os.listdir(gen):
                    a, b = os.path.join(gen, fn), os.path.join(c, "Gen", fn)
                    if fn.endswith(".v") and open(a, "rb").read() != open(b, "rb").read():
                        shutil.copy(a, b)
                        changed.append(fn)
                rc, err, out = make(c, TARGETS + " Lemmas/TableLemmas.vo")
                caught = rc != 0 and err is not None and bool(changed)
                rows.append((f"(c) {name}: {what}", "caught" if caught else "ESCAPED", (err or out[-300:]) + f"  [regenerated: {', '.join(changed)}]"))
                ok_all &= caught
            shutil.rmtree(c)
            shutil.rmtree(repo)
    for r in rows:
        print(f"{r[1]:26s} {r[0]}\n{'':26s}   {r[2]}")
    print("RESULT:", "all rows as expected" if ok_all else "UNEXPECTED ROWS", f"({len(rows)} rows)")
    sys.exit(0 if ok_all else 1)


if __name__ == "__main__":
    main()
