#!/venv/bin/python
"""Statement-by-statement translation of tealer's integer-constant resolution and of the result storing of the
int-fields analysis into Gallina (Gen/ConstsGen.v).

Translated (read with `ast` only, never imported):
  (1) utils/analyses.py        : is_int_push_ins                  -> is_int_push_ins_genE / is_int_push_ins_gen
      teal/teal.py             : Teal.get_int_constant            -> get_int_constant_genE
                                 Teal.set_int_constants / set_byte_constants -> set_int_constants_genE / set_byte_constants_genE
      teal/instructions/instructions.py : the __init__ of the subclasses of IntcInstruction -> the table intc_class_index
  (2) teal/parse_teal.py       : _fill_intc_bytec_info            -> fill_intc_bytec_info_gen
                                 first_pass (the statements that build intcblock_ins / bytecblock_ins, which
                                 tools/translate_cfg.py skips)    -> first_pass_constblocks_gen
  (3) analyses/dataflow/transaction_context/int_fields.py : GroupIndices._store_results -> store_results_gen
The hand-written counterparts are Model/Keys.v is_int_push_ins, the `intcs` computation of Model/Cfg.v parse_teal
(Lemmas/RewriteLemmas.v pt_intcs) and the index < size coupling inside Model/Domains.v run_all
(Lemmas/ExecLemmas.v indices_of); Lemmas/ConstsGenLemmas.v proves generated = hand-written.

Reading of Python in Gallina.  The exception monad (`py A := option A`, ret, bind, ifE, andE, orE, notE) is the one of the
fixed prelude of Gen/KeysGen.v, the instruction heap / position reading of Instruction objects inside the parser is
the one of Gen/CfgGen.v (both imported, not repeated).  In addition (the fixed PRELUDE text below is the trusted part):
  * Python ints.  Every int of the translated code is a length, a list index, an index into the constant block or a
    constant of the block: a natural number, read as N (`len(l)` = N.of_nat (length l), `l[i]` = nth_error l (N.to_nat i):
    IndexError = None; only non-negative literals are accepted).  In _store_results the ints are the group sizes and
    indices of Model/Domains.v, read as Z.
  * objects.  In is_int_push_ins an Instruction object is the record insobjc (its class and immediates: Syntax.instr,
    and its attribute _bb); a BasicBlock object is the record bbobj (its attribute _teal), a Teal object the record
    tealobj (its attributes _int_constants and _byte_constants: the only ones the translated code reads or writes).
    Every attribute read is ONE function of the fixed glue table of the prelude (ATTRS below) and the Python text of
    each property / __init__ it stands for is fingerprinted (FINGERPRINTS): any edit stops the translator.
    `not x` on an object without __bool__/__len__ (checked) is `false`; on an Optional it is `is None`.
    A method call on an Optional[Teal] value that is None is an exception (AttributeError).
  * `teal.set_int_constants(e)` mutates the Teal object: the variable `teal` is re-bound to the object's new state; a
    function that returns None returns the final state of what it mutated.  `self._x = e` in a method is the
    functional update of the field.
  * isinstance(ins, C) is a constructor pattern through CLASS_PATTERNS; for IntcInstruction the pattern is computed
    from the subclasses found in instructions.py (which must be exactly Intc, Intc0 .. Intc3, direct, without further
    subclasses), and their constant-block index `_idx` is READ from each __init__ (generated table intc_class_index).
  * the pair returned by is_int_push_ins is generated as a real pair (bool * option pyval); the fixed function
    intres_of_pair maps it to Model/Keys.intres (the reading documented in the prelude of Gen/KeysGen.v).  A `return`
    whose first component is the literal False must have the literal None as second component.
  * first_pass: `for line in lines:` is read as a loop over the positions of the parsed instructions, exactly as in
    tools/translate_cfg.py (whose SLICE_TEXT fingerprints the statements of the loop body); here the statements that
    translate_cfg skips (the two list initialisations, the isinstance / append statement, the return) are translated.
  * parse_teal: the statements that determine the arguments of the call of _fill_intc_bytec_info are fingerprinted
    (PARSE_TEAL_STATEMENTS): entry_block = teal.main.entry = all_bbs[0], teal = a fresh Teal(..) whose
    _int_constants = [] (Teal.__init__).  parse_teal_int_constants_gen composes the translated pieces accordingly.
  * _store_results: `x = self._block_contexts[k]` binds x to the inner dictionary OBJECT: x is an alias, `x[b]` reads
    and `x[b] = v` writes self._block_contexts[k][b] (ddict_get of Gen/SolverGen.v; ictx_store = ctx_store of Gen/RunGen.v).  A set of
    ints is a list Z (Model/Domains.v): `a & b` = zinter, `set(range(0, m))` = zrange 0 m, `max(s, default=0)` =
    py_max_default, `list(s)` = the list itself (the iteration order of a Python set is not specified: the result is
    read up to order).  `self._function.transaction_context(b).group_sizes = v` stores into the attribute table of
    the BlockTransactionContext objects (one per block of the function: Function.__init__, fingerprinted); KeyError
    when b is not a block of the function.

Fail-closed: every statement kind, expression kind, attribute name, call name, class name and variable type that is
not whitelisted below raises TranslateError.
"""
import ast
import os
import sys

from tcommon import TranslateError, fail, parse, strip_doc, coq_str, T
from translate_keys import indent, same_text, check_no_subclasses
import translate_cfg as tc

AN_REL = "utils/analyses.py"
TEAL_REL = "teal/teal.py"
PT_REL = "teal/parse_teal.py"
BB_REL = "teal/basic_blocks.py"
INS_REL = "teal/instructions/instructions.py"
SUB_REL = "teal/subroutine.py"
FN_REL = "teal/functions.py"
IF_REL = "analyses/dataflow/transaction_context/int_fields.py"

# ----------------------------------------------------------------------------- types of the little typed language
BOOL, NINT, ZINT, INTLIT, NONE, PYVAL, STR = "bool", "N", "Z", "intlit", "None", "pyval", "string"
INSC, BBOBJ, OPTTEAL, TEAL = "insobjc", "bbobj", "option tealobj", "tealobj"
INS, INS_I, INS_B, BLK = "ins", "ins Intcblock", "ins Bytecblock", "blk"
LINS_I, LINS_B, LN, LSTR, LZ, LBLK = "list ins Intcblock", "list ins Bytecblock", "list N", "list string", "list Z", "list blk"
GDICT, ALIAS, TCTX, ZRANGE = "gdict", "alias", "tctx", "range"
COQ_TYPE = {
    BOOL: "bool", NINT: "N", ZINT: "Z", PYVAL: "pyval", STR: "string", INSC: "insobjc", BBOBJ: "bbobj", OPTTEAL: "option tealobj",
    TEAL: "tealobj", INS: "nat", INS_I: "nat", INS_B: "nat", BLK: "nat", LINS_I: "list nat", LINS_B: "list nat", LN: "list N",
    LSTR: "list string", LZ: "list Z", LBLK: "list nat", GDICT: "gdict (list Z)", TCTX: "tctx_attr",
}  # fmt: skip
ELEM = {LINS_I: INS_I, LINS_B: INS_B, LN: NINT, LSTR: STR, LBLK: BLK}
ANNOTATIONS = {"List[Intcblock]": LINS_I, "List[Bytecblock]": LINS_B}


def tuple_ty(*tys):
    return ("tuple",) + tuple(tys)


# python instruction class -> constructor pattern of Model/Syntax.instr (IntcInstruction is computed, Bytecblock has no
# constructor of its own: Syntax.cls_of)
CLASS_PATTERNS = {"Int": "IInt _", "PushInt": "IPushInt _", "Intcblock": "IIntcblock _", "Intc": "IIntc _"}
CLASS_BY_NAME = {"Bytecblock"}
INTC_SUBCLASSES = {"Intc": None, "Intc0": 0, "Intc1": 1, "Intc2": 2, "Intc3": 3}  # class -> K of the constructor IIntcK K

# ----------------------------------------------------------------------------- the glue table
# (attribute, type of the object) -> (glue function, extra first argument ("" / "p" / "iheap"), result type, pure)
ATTRS = {
    ("_int_constants", TEAL): ("to_int_constants", "", LN, True),
    ("_byte_constants", TEAL): ("to_byte_constants", "", LSTR, True),
    ("value", INSC): ("attr_value", "", PYVAL, False),
    ("index", INSC): ("attr_index", "", NINT, False),
    ("bb", INSC): ("attr_bb", "", BBOBJ, False),
    ("teal", BBOBJ): ("attr_teal", "", OPTTEAL, False),
    ("bb", INS_I): ("ins_attr_bb", "iheap", BLK, False),
    ("bb", INS_B): ("ins_attr_bb", "iheap", BLK, False),
    ("constants", INS_I): ("ins_attr_int_constants", "p", LN, False),
    ("constants", INS_B): ("ins_attr_byte_constants", "p", LSTR, False),
}
# attribute stores of a method on its own object: attribute -> (functional update, type)
SELF_STORES = {"_int_constants": ("set_to_int_constants", LN), "_byte_constants": ("set_to_byte_constants", LSTR)}
# methods of Teal that are translated: name -> (generated function, parameter types, result type or None for a mutator)
TEAL_METHODS = {
    "get_int_constant": ("get_int_constant_genE", [NINT], tuple_ty(BOOL, NINT)),
    "set_int_constants": ("set_int_constants_genE", [LN], None),
    "set_byte_constants": ("set_byte_constants_genE", [LSTR], None),
}
# BlockTransactionContext attributes written by _store_results
TCTX_STORES = {"group_sizes": "tctx_group_sizes", "group_indices": "tctx_group_indices"}  # attribute -> the variable that holds its table

# Python text (docstrings stripped, layout normalised) of everything the glue table stands for
FINGERPRINTS = [
    (INS_REL, "Int", "__init__", None, "def __init__(self, value: Union[str, int]):\n    super().__init__()\n    self._value = value"),
    (INS_REL, "Int", "value", None, "@property\ndef value(self) -> Union[str, int]:\n    return self._value"),
    (INS_REL, "PushInt", "__init__", None, "def __init__(self, value: Union[str, int]):\n    super().__init__()\n    self._value = value\n    self._version = 3"),
    (INS_REL, "PushInt", "value", None, "@property\ndef value(self) -> Union[str, int]:\n    return self._value"),
    (INS_REL, "IntcInstruction", "__init__", None, "def __init__(self) -> None:\n    super().__init__()\n    self._idx: int = 0"),
    (INS_REL, "IntcInstruction", "index", None, "@property\ndef index(self) -> int:\n    return self._idx"),
    (INS_REL, "Intc", "__init__", None, "def __init__(self, idx: int):\n    super().__init__()\n    self._idx = idx"),
    (INS_REL, "Intcblock", "__init__", None, "def __init__(self, int_list: List[int]):\n    super().__init__()\n    self._constants = int_list"),
    (INS_REL, "Intcblock", "constants", None, "@property\ndef constants(self) -> List[int]:\n    return self._constants"),
    (INS_REL, "Bytecblock", "__init__", None, "def __init__(self, bytes_list: List[str]):\n    super().__init__()\n    self._constants = bytes_list"),
    (INS_REL, "Bytecblock", "constants", None, "@property\ndef constants(self) -> List[str]:\n    return self._constants"),
    (BB_REL, "BasicBlock", "teal", None, "@property\ndef teal(self) -> Optional['Teal']:\n    return self._teal"),
    (BB_REL, "BasicBlock", "teal", "teal.setter", "@teal.setter\ndef teal(self, teal_instance: 'Teal') -> None:\n    self._teal = teal_instance"),
    (
        TEAL_REL, "Teal", "__init__", None,
        "def __init__(self, version: int, mode: ExecutionMode, instructions: List[Instruction], bbs: List[BasicBlock], main: Subroutine, "
        "subroutines: Dict[str, Subroutine]):\n    self._version = version\n    self._mode = mode\n    self._int_constants: List[int] = []\n"
        "    self._byte_constants: List[str] = []\n    self._instructions = instructions\n    self._bbs = bbs\n    self._main = main\n"
        "    self._subroutines = subroutines\n    self._functions: Dict[str, 'Function'] = {}\n    self._contract_name: str = ''\n"
        "    self._contract_type: ContractType = ContractType.ApprovalProgram if mode == ExecutionMode.STATEFUL else ContractType.LogicSig",
    ),
    (TEAL_REL, "Teal", "main", None, "@property\ndef main(self) -> 'Subroutine':\n    return self._main"),
    (TEAL_REL, "Teal", "bbs", None, "@property\ndef bbs(self) -> List[BasicBlock]:\n    return self._bbs"),
    (
        SUB_REL, "Subroutine", "__init__", None,
        "def __init__(self, name: str, entry: 'BasicBlock', blocks: List['BasicBlock']) -> None:\n    self._name = name\n    self._entry = entry\n"
        "    self._blocks = blocks\n    self._exit_blocks = [b for b in blocks if len(b.next) == 0 or isinstance(b.exit_instr, Retsub)]\n"
        "    self._contract: Optional['Teal'] = None\n    self._caller_callsub_blocks: List['BasicBlock'] = []\n"
        "    self._return_point_blocks: List['BasicBlock'] = []",
    ),
    (SUB_REL, "Subroutine", "entry", None, "@property\ndef entry(self) -> 'BasicBlock':\n    return self._entry"),
]
FINGERPRINTS_STORE = [
    (FN_REL, "Function", "blocks", None, "@property\ndef blocks(self) -> List['BasicBlock']:\n    return self._blocks"),
    (FN_REL, "Function", "transaction_context", None, "def transaction_context(self, block: 'BasicBlock') -> 'BlockTransactionContext':\n    return self._transaction_contexts[block]"),
]
FUNCTION_INIT_STATEMENTS = [
    "self._blocks: List['BasicBlock'] = blocks",
    "self._transaction_contexts: Dict['BasicBlock', 'BlockTransactionContext'] = {block: BlockTransactionContext() for block in self._blocks}",
]
FORBIDDEN_DUNDERS = tc.FORBIDDEN_DUNDERS

# parse_teal: the statements that fix the arguments of _fill_intc_bytec_info (each exactly once, at top level)
PARSE_TEAL_STATEMENTS = [
    "(intcblock_ins, bytecblock_ins) = first_pass(lines, labels, subroutine_callsubs, instructions)",
    "all_bbs = _add_basic_blocks_idx(all_bbs)",
    "contract_entry_block = all_bbs[0]",
    "main_program = Subroutine(main_program_name, contract_entry_block, main_entry_point_blocks)",
    "teal = Teal(version, mode, instructions, all_reachable_blocks, main_program, subroutines)",
    "for bb in teal.bbs:\n    bb.teal = teal\n    bb.tealer_comments.insert(0, f'block_id = {bb.idx}; cost = {bb.cost}')",
    "_fill_intc_bytec_info(intcblock_ins, bytecblock_ins, teal.main.entry, teal)",
    "return teal",
]

RESERVED = (set(tc.RESERVED) - {"block"}) | {
    "len", "subscriptN", "truth_obj", "truth_opt", "deref", "is_class", "intres_of_pair", "intc_class_index", "new_Teal", "pyval", "PVInt", "PVStr",
    "insobjc", "bbobj", "tealobj", "mkInsC", "mkBbObj", "mkTealObj", "ic_op", "ic_bb", "bo_teal", "zrange", "py_max_default", "zinter", "tc_get",
    "ictx_store", "ddict_get", "dict_get", "function_blocks", "f", "tctx_group_sizes", "tctx_group_indices", "self_block_contexts", "self_", "tctx_attr", "tc_store", "gdict",
}  # fmt: skip
RESERVED |= {g for g, _, _, _ in ATTRS.values()} | {g for g, _ in SELF_STORES.values()} | {g for g, _, _ in TEAL_METHODS.values()}

PRELUDE = r"""
(* ====================================================================== *)
(* PRELUDE (fixed text): the glue table.  The exception monad is the one of Gen/KeysGen.v, the position / heap    *)
(* reading of Instruction objects inside the parser (ins_class, ins_attr_bb, ins_heap) the one of Gen/CfgGen.v.     *)
(* ====================================================================== *)
(* ---- Python ints that are lengths / indices / constants of the constant block: N *)
Definition len {A : Type} (l : list A) : N := N.of_nat (length l).
(* l[i] for i >= 0: IndexError when i >= len(l) *)
Definition subscriptN {A : Type} (l : list A) (i : N) : py A := nth_error l (N.to_nat i).

(* ---- objects, as far as the translated code reads them.  The Python text of every property / __init__ named
   below is fingerprinted by tools/translate_consts.py. *)
(* the immediate of `int` / `pushint` (Union[str, int]): Syntax.intarg read as a Python value *)
Inductive pyval := PVInt (n : N) | PVStr (s : string).
(* a Teal object: _int_constants, _byte_constants ([] and [] after Teal.__init__) *)
Record tealobj := mkTealObj { to_int_constants : list N; to_byte_constants : list string }.
Definition new_Teal : tealobj := mkTealObj [] [].
Definition set_to_int_constants (t : tealobj) (v : list N) : tealobj := mkTealObj v (to_byte_constants t).
Definition set_to_byte_constants (t : tealobj) (v : list string) : tealobj := mkTealObj (to_int_constants t) v.
(* a BasicBlock object: _teal (Optional[Teal]) *)
Record bbobj := mkBbObj { bo_teal : option tealobj }.
(* an Instruction object outside the parser: its class and immediates, and _bb (Optional[BasicBlock]) *)
Record insobjc := mkInsC { ic_op : instr; ic_bb : option bbobj }.
(* ins.value: Int.value / PushInt.value = self._value; AttributeError on any other class (conservative) *)
Definition attr_value (i : insobjc) : py pyval :=
  match ic_op i with
  | IInt a | IPushInt a => Some (match a with IANum n => PVInt n | IAName s => PVStr s end)
  | _ => None
  end.
(* ins.bb: the property raises TealerException while _bb is None *)
Definition attr_bb (i : insobjc) : py bbobj := ic_bb i.
(* bb.teal = self._teal: never raises *)
Definition attr_teal (b : bbobj) : py (option tealobj) := Some (bo_teal b).
(* truth value of an object whose class defines neither __bool__ nor __len__ (checked), of an Optional[..] *)
Definition truth_obj {A : Type} (_ : A) : bool := true.
Definition truth_opt {A : Type} (o : option A) : bool := match o with Some _ => true | None => false end.
(* a method call on an Optional[Teal]: AttributeError on None *)
Definition deref {A : Type} (o : option A) : py A := o.
(* isinstance(ins, C) for a class without constructor of its own in Syntax.instr: by class name (Syntax.cls_of) *)
Definition is_class (c : string) (i : instr) : bool := String.eqb (cls_of i) c.
(* <Intcblock>.constants / <Bytecblock>.constants = self._constants for the instruction at position k of p;
   AttributeError on any other class.  (Bytecblock has no constructor of its own: the instruction is
   IOther "Bytecblock" [PStrs l]; a different parameter list is not built by the parser and reads as [].) *)
Definition ins_attr_int_constants (p : prog) (k : nat) : py (list N) :=
  bind (op_at p k) (fun i => match i with IIntcblock cs => Some cs | _ => None end).
Definition ins_attr_byte_constants (p : prog) (k : nat) : py (list string) :=
  bind (op_at p k) (fun i => if is_class "Bytecblock" i then Some (match params_of i with [PStrs l] => l | _ => [] end) else None).
(* the pair (pushes_int, value) returned by is_int_push_ins as Model/Keys.intres (prelude of Gen/KeysGen.v):
   (False, None) = NotInt, (True, None) = IntUnknown, (True, n) = IntNum n, (True, s) = IntName s;
   the translator rejects a `return False, e` with e other than the literal None *)
Definition intres_of_pair (r : bool * option pyval) : intres :=
  match r with
  | (false, _) => NotInt
  | (true, None) => IntUnknown
  | (true, Some (PVInt n)) => IntNum n
  | (true, Some (PVStr s)) => IntName s
  end.
"""

PRELUDE_INDEX = r"""
(* ins.index = self._idx (IntcInstruction.index): Intc(idx) stores its argument, the class Intc<K> of the
   constructor IIntcK k is Syntax.intck_class k and stores the constant of the table above *)
Definition attr_index (i : insobjc) : py N :=
  match ic_op i with
  | IIntc idx => Some idx
  | IIntcK k => intc_class_index (intck_class k)
  | _ => None
  end.
"""

PRELUDE_STORE = r"""
(* ---- _store_results: sets of ints are lists of Z (Model/Domains.v) *)
(* set(range(lo, hi)) *)
Definition zrange (lo hi : Z) : list Z := map (fun k => (lo + Z.of_nat k)%Z) (seq 0 (Z.to_nat (hi - lo))).
(* max(s, default=d) *)
Definition py_max_default (s : list Z) (d : Z) : Z := match s with [] => d | x :: t => fold_left Z.max t x end.
(* self._block_contexts[k][b] = v on the defaultdict(dict) (as in Gen/RunGen.v) *)
Definition ictx_store (d : gdict (list Z)) (k : string) (b : nat) (v : list Z) : gdict (list Z) :=
  kdict_set (list Z) d k (dict_set (list Z) (ddict_get (list Z) d k) b v).
(* the BlockTransactionContext objects of a Function, one per block (Function.__init__: fingerprinted), as far as
   _store_results writes them: one table per attribute (block -> value of the attribute), tctx_group_sizes and
   tctx_group_indices.  self._function.transaction_context(b).X = v with transaction_context(b) =
   self._transaction_contexts[b]: KeyError when b is not a block of the function *)
Definition tctx_attr : Type := state (list Z).
Definition tc_store (t : tctx_attr) (b : nat) (v : list Z) : py tctx_attr :=
  match lookup (list Z) t b with Some _ => Some (update (list Z) t b v) | None => None end.
"""

PARSE_TEAL_GLUE = r"""
(* teal/parse_teal.py: parse_teal, the statements that fix the arguments of _fill_intc_bytec_info (fingerprinted):
     intcblock_ins, bytecblock_ins = first_pass(..);  contract_entry_block = all_bbs[0];
     main_program = Subroutine(.., contract_entry_block, ..);  teal = Teal(.., main_program, ..)   [_int_constants = []]
     _fill_intc_bytec_info(intcblock_ins, bytecblock_ins, teal.main.entry, teal)
   iheap is the instruction heap and all_bbs the sorted block list at that point *)
Definition parse_teal_int_constants_gen (p : prog) (iheap : ins_heap) (all_bbs : list nat) : py tealobj :=
  bind (first_pass_constblocks_gen p) (fun r =>
  bind (subscriptN all_bbs 0%N) (fun contract_entry_block =>
  fill_intc_bytec_info_gen p iheap (fst r) (snd r) contract_entry_block new_Teal)).
"""


# ----------------------------------------------------------------------------- environment
class Env:
    def __init__(self, path, vars_, spec):
        self.path = path
        self.vars = dict(vars_)  # python name -> type (coq name = python name, `self` -> self_)
        self.spec = spec
        self.counter = [0, 0]
        self.depth = 0
        self.loop_end = None
        self.collect = [[]]
        self.alias = {}  # python name -> coq term of the key of self._block_contexts it aliases

    def child(env, **new):  # noqa: N805 (a python variable may be called `self`)
        e = Env(env.path, env.vars, env.spec)
        e.counter, e.depth, e.loop_end, e.collect = env.counter, env.depth, env.loop_end, env.collect
        e.alias = {k: v for k, v in env.alias.items() if k not in new}
        e.vars.update(new)
        return e

    def fresh(self):
        self.counter[0] += 1
        return f"tmp{self.counter[0]}"

    def fresh_join(self):
        self.counter[1] += 1
        return f"k{self.counter[1]}"


seq = tc.seq
as_monadic = tc.as_monadic
is_name = tc.is_name
tuple_term = tc.tuple_term
projections = tc.projections


def coqty(ty):
    if isinstance(ty, tuple):
        return "(" + " * ".join(coqty(t) for t in ty[1:]) + ")"
    t = COQ_TYPE[ty]
    return t if " " not in t else f"({t})"


def cname(n):
    return "self_" if n == "self" else n


def lit(e):
    return isinstance(e, ast.Constant) and isinstance(e.value, int) and not isinstance(e.value, bool) and e.value >= 0


def coerce(env, node, t, ty, want):
    """-> term of type `want` (int literals take the type of their context)"""
    if ty == want:
        return t
    if ty == INTLIT and want in (NINT, ZINT):
        return f"{t}%{want}"
    fail(env.path, node, f"a value of type {ty} where {want} is expected")


def class_pattern(env, node):
    """second argument of isinstance -> function atom -> boolean term on an instr"""
    if isinstance(node, ast.Name):
        cs = [node.id]
    elif isinstance(node, ast.Tuple) and node.elts and all(isinstance(x, ast.Name) for x in node.elts):
        cs = [x.id for x in node.elts]
    else:
        fail(env.path, node, "isinstance class argument " + ast.unparse(node))
    pats, names = [], []
    for c in cs:
        if c in env.vars or env.spec["imports"].get(c) != "tealer.teal.instructions.instructions." + c:
            fail(env.path, node, f"the name {c} is not the class of instructions.py")
        if c == "IntcInstruction":
            pats.append(env.spec["intc_pattern"])
        elif c in CLASS_PATTERNS:
            pats.append(CLASS_PATTERNS[c])
        elif c in CLASS_BY_NAME:
            names.append(c)
        else:
            fail(env.path, node, f"isinstance with the class {c}")
    if names and (pats or len(names) > 1):
        fail(env.path, node, "isinstance with a tuple that contains " + names[0])
    if names:
        return lambda a: f"(is_class {coq_str(names[0])} {a})"
    return lambda a: f"(match {a} with {' | '.join(pats)} => true | _ => false end)"


def glue_arg(env, node, extra):
    if not extra:
        return ""
    if extra not in env.spec.get("context", []):
        fail(env.path, node, f"the function has no access to {extra}")
    return extra + " "


# ----------------------------------------------------------------------------- expressions
def expr(env, e):
    """-> (term, type, pure)"""
    p = env.path
    if isinstance(e, ast.Constant):
        if e.value is True:
            return "true", BOOL, True
        if e.value is False:
            return "false", BOOL, True
        if e.value is None:
            return "None", NONE, True
        if lit(e):
            return str(e.value), INTLIT, True
        fail(p, e, "constant " + ast.unparse(e))
    if isinstance(e, ast.Name):
        if e.id in env.alias:
            fail(p, e, f"the alias {e.id} of an inner dictionary is used as a value")
        if e.id in env.vars:
            return cname(e.id), env.vars[e.id], True
        fail(p, e, f"unknown name {e.id}")
    if isinstance(e, ast.Attribute):
        # class constants of the analysis class: self.GROUP_SIZE_KEY
        if is_name(e.value, "self") and e.attr in env.spec.get("class_consts", {}):
            return coq_str(env.spec["class_consts"][e.attr]), STR, True
        if is_name(e.value, "self") and e.attr == "_block_contexts" and env.vars.get("self_block_contexts") == GDICT:
            return "self_block_contexts", GDICT, True
        # self._function.blocks
        if e.attr == "blocks" and isinstance(e.value, ast.Attribute) and is_name(e.value.value, "self") and e.value.attr == "_function" and env.spec.get("store"):
            return "(function_blocks f)", LBLK, True
        t, ty, pure = expr(env, e.value)
        if (e.attr, ty) not in ATTRS:
            fail(p, e, f"attribute .{e.attr} of a value of type {ty}")
        g, extra, rty, gpure = ATTRS[(e.attr, ty)]
        x = glue_arg(env, e, extra)
        if gpure:
            out, pure2 = seq(env, [(t, pure)], lambda a: f"({g} {x}{a})")
            return out, rty, pure2
        out, _ = seq(env, [(t, pure)], lambda a: f"({g} {x}{a})", monadic_result=True)
        return out, rty, False
    if isinstance(e, ast.Subscript):
        # alias[b]: self._block_contexts[key][b]
        if is_name(e.value) and e.value.id in env.alias:
            k, kty, kp = expr(env, e.slice)
            if kty != BLK:
                fail(p, e, f"dictionary key of type {kty}")
            key = env.alias[e.value.id]
            out, _ = seq(env, [(k, kp)], lambda b: f"(dict_get (list Z) (ddict_get (list Z) self_block_contexts {key}) {b})", monadic_result=True)
            return out, LZ, False
        v, vty, vp = expr(env, e.value)
        if vty in ELEM:
            i, ity, ip = expr(env, e.slice)
            i = coerce(env, e, i, ity, NINT)
            out, _ = seq(env, [(v, vp), (i, ip)], lambda a, b: f"(subscriptN {a} {b})", monadic_result=True)
            return out, ELEM[vty], False
        fail(p, e, "subscript " + ast.unparse(e)[:60])
    if isinstance(e, ast.UnaryOp):
        if isinstance(e.op, ast.Not):
            t, ty, pure = expr(env, e.operand)
            if ty == BBOBJ:
                t, pure = seq(env, [(t, pure)], lambda a: f"(truth_obj {a})")
            elif ty == OPTTEAL:
                t, pure = seq(env, [(t, pure)], lambda a: f"(truth_opt {a})")
            elif ty != BOOL:
                fail(p, e, f"`not` of a value of type {ty}")
            return (f"(negb {t})" if pure else f"(notE {t})"), BOOL, pure
        fail(p, e, "unary operator " + ast.unparse(e))
    if isinstance(e, ast.BoolOp):
        parts = [expr(env, v) for v in e.values]
        for (_, ty, _), v in zip(parts, e.values):
            if ty != BOOL:
                fail(p, v, f"operand of and/or of type {ty}")
        allpure = all(pure for _, _, pure in parts)
        if isinstance(e.op, ast.And):
            fn = "andb" if allpure else "andE"
        elif isinstance(e.op, ast.Or):
            fn = "orb" if allpure else "orE"
        else:
            fail(p, e, "boolean operator")
        terms = [t if allpure else as_monadic(t, pure) for t, _, pure in parts]
        out = terms[-1]
        for t in reversed(terms[:-1]):
            out = f"({fn} {t} {out})"
        return out, BOOL, allpure
    if isinstance(e, ast.BinOp):
        if isinstance(e.op, ast.BitAnd):
            l, lty, lp = expr(env, e.left)
            r, rty, rp = expr(env, e.right)
            if not lty == rty == LZ:
                fail(p, e, f"`&` on values of types {lty}, {rty}")
            out, pure = seq(env, [(l, lp), (r, rp)], lambda a, b: f"(zinter {a} {b})")
            return out, LZ, pure
        fail(p, e, "binary operator " + ast.unparse(e)[:60])
    if isinstance(e, ast.Compare):
        if len(e.ops) != 1:
            fail(p, e, "comparison chain " + ast.unparse(e))
        op = e.ops[0]
        l, lty, lp = expr(env, e.left)
        r, rty, rp = expr(env, e.comparators[0])
        if lty == INTLIT and rty in (NINT, ZINT):
            l, lty = coerce(env, e, l, lty, rty), rty
        if rty == INTLIT and lty in (NINT, ZINT):
            r, rty = coerce(env, e, r, rty, lty), lty
        if isinstance(op, (ast.Eq, ast.NotEq)):
            if lty == rty == NINT:
                f = "N.eqb"
            elif lty == rty == BLK:
                f = "Nat.eqb"  # BasicBlock defines no __eq__ (checked): identity
            else:
                fail(p, e, f"comparison of {lty} with {rty}")
            neg = isinstance(op, ast.NotEq)
            out, pure = seq(env, [(l, lp), (r, rp)], lambda a, b: (f"(negb ({f} {a} {b}))" if neg else f"({f} {a} {b})"))
            return out, BOOL, pure
        table = {ast.LtE: ("N.leb", False), ast.Lt: ("N.ltb", False), ast.GtE: ("N.leb", True), ast.Gt: ("N.ltb", True)}
        if type(op) in table and lty == rty == NINT:
            f, swap = table[type(op)]
            out, pure = seq(env, [(l, lp), (r, rp)], lambda a, b: (f"({f} {b} {a})" if swap else f"({f} {a} {b})"))
            return out, BOOL, pure
        fail(p, e, "comparison " + ast.unparse(e))
    if isinstance(e, ast.Call):
        return call(env, e)
    fail(p, e, "expression " + ast.unparse(e)[:60])


def builtin(env, e, name):
    if not is_name(e.func, name):
        return False
    if name in env.vars or name in env.spec["imports"]:
        fail(env.path, e, f"{name} is not the builtin")
    return True


def call(env, e):
    p = env.path
    # method call on a Teal / Optional[Teal] value
    if isinstance(e.func, ast.Attribute) and not e.keywords:
        recv, m = e.func.value, e.func.attr
        t, ty, pure = expr(env, recv)
        if ty in (TEAL, OPTTEAL) and m in TEAL_METHODS and TEAL_METHODS[m][2] is not None:
            g, ptys, rty = TEAL_METHODS[m]
            if len(e.args) != len(ptys):
                fail(p, e, f"arity of .{m}")
            parts = [(f"(deref {t})", False) if ty == OPTTEAL and pure else (t, pure)]
            if ty == OPTTEAL and not pure:
                t2, _ = seq(env, [(t, pure)], lambda a: f"(deref {a})", monadic_result=True)
                parts = [(t2, False)]
            for a, want in zip(e.args, ptys):
                at, aty, ap = expr(env, a)
                parts.append((coerce(env, a, at, aty, want), ap))
            out, _ = seq(env, parts, lambda *xs: f"({g} {' '.join(xs)})", monadic_result=True)
            return out, rty, False
        fail(p, e, "method call " + ast.unparse(e)[:60])
    if e.keywords and not (is_name(e.func, "max")):
        fail(p, e, "call " + ast.unparse(e)[:60])
    if builtin(env, e, "isinstance") and len(e.args) == 2:
        t, ty, pure = expr(env, e.args[0])
        build = class_pattern(env, e.args[1])
        if ty == INSC:
            out, pure2 = seq(env, [(t, pure)], lambda a: build(f"(ic_op {a})"))
            return out, BOOL, pure2
        if ty == INS:
            glue_arg(env, e, "p")
            v = env.fresh()
            out, _ = seq(env, [(t, pure)], lambda a: f"(bind (ins_class p {a}) (fun {v} => (ret {build(v)})))", monadic_result=True)
            return out, BOOL, False
        fail(p, e, f"isinstance of a value of type {ty}")
    if builtin(env, e, "len") and len(e.args) == 1:
        t, ty, pure = expr(env, e.args[0])
        if ty not in ELEM:
            fail(p, e, f"len of a value of type {ty}")
        out, pure2 = seq(env, [(t, pure)], lambda a: f"(len {a})")
        return out, NINT, pure2
    if env.spec.get("store"):
        # set(range(lo, hi))
        if builtin(env, e, "set") and len(e.args) == 1:
            t, ty, pure = expr(env, e.args[0])
            if ty != ZRANGE:
                fail(p, e, f"set of a value of type {ty}")
            return t, LZ, pure
        if builtin(env, e, "range") and len(e.args) == 2:
            parts = []
            for a in e.args:
                at, aty, ap = expr(env, a)
                parts.append((coerce(env, a, at, aty, ZINT), ap))
            out, pure = seq(env, parts, lambda a, b: f"(zrange {a} {b})")
            return out, ZRANGE, pure
        # max(s, default=d)
        if builtin(env, e, "max") and len(e.args) == 1 and len(e.keywords) == 1 and e.keywords[0].arg == "default":
            t, ty, pure = expr(env, e.args[0])
            d, dty, dp = expr(env, e.keywords[0].value)
            if ty != LZ:
                fail(p, e, f"max of a value of type {ty}")
            d = coerce(env, e, d, dty, ZINT)
            out, pure2 = seq(env, [(t, pure), (d, dp)], lambda a, b: f"(py_max_default {a} {b})")
            return out, ZINT, pure2
        # list(s): the list that represents the set
        if builtin(env, e, "list") and len(e.args) == 1:
            t, ty, pure = expr(env, e.args[0])
            if ty != LZ:
                fail(p, e, f"list of a value of type {ty}")
            return t, LZ, pure
    fail(p, e, "call " + ast.unparse(e)[:60])


# ----------------------------------------------------------------------------- statements
FORBIDDEN = (
    ast.Try, ast.With, ast.FunctionDef, ast.AsyncFunctionDef, ast.Lambda, ast.NamedExpr, ast.AugAssign, ast.Delete, ast.Global,
    ast.Nonlocal, ast.ListComp, ast.GeneratorExp, ast.SetComp, ast.DictComp, ast.Yield, ast.YieldFrom, ast.Break, ast.While,
    ast.Await, ast.ClassDef, ast.Import, ast.ImportFrom, ast.Starred, ast.IfExp, ast.Continue,
)  # fmt: skip


def check_name(env, name, node):
    if name in RESERVED or name.startswith("tmp") or (name.startswith("k") and name[1:].isdigit()):
        fail(env.path, node, f"variable name {name} is reserved by the translator")
    if not name.isidentifier() or not name.isascii():
        fail(env.path, node, f"variable name {name}")


def bind_var(env, name, node, t, ty, pure, rest_of, state=False):
    if not state:
        check_name(env, name, node)
    if ty in (INTLIT, NONE, ZRANGE, ALIAS):
        fail(env.path, node, f"the type of {name} is not determined")
    if name in env.vars and env.vars[name] != ty:
        fail(env.path, node, f"re-assignment of {name} changes its type from {env.vars[name]} to {ty}")
    if name in env.alias:
        fail(env.path, node, f"re-assignment of the alias {name}")
    env.collect[0].append(name)
    rest = rest_of(env.child(**{name: ty}))
    if pure:
        return f"(let {cname(name)} := {t} in\n{rest})"
    return f"(bind {t} (fun {cname(name)} =>\n{rest}))"


def probe(env, fn):
    saved_counter, saved_collect = list(env.counter), env.collect[0]
    env.collect[0] = []
    try:
        r = fn()
        names = env.collect[0]
    finally:
        env.counter[:] = saved_counter
        env.collect[0] = saved_collect
    out = []
    for n in names:
        if n not in out:
            out.append(n)
    return r, out


def end_of_function(env, line):
    spec = env.spec
    if "returns" not in spec:
        raise TranslateError(f"translator: {env.path}:{line}: control reaches the end of the function without return")
    for n in spec["returns"]:
        if n not in env.vars:
            raise TranslateError(f"translator: {env.path}:{line}: {n} is not bound at the end of the function")
    return f"(ret {tuple_term([cname(n) for n in spec['returns']])})"


def ret_stmt(env, st):
    p, e, spec = env.path, st.value, env.spec
    if env.depth:
        fail(p, st, "return in a loop body")
    rty = spec.get("ret_type")
    if e is None or rty is None:
        fail(p, st, "return " + ast.unparse(st)[:40])
    if not (isinstance(e, ast.Tuple) and len(e.elts) == len(rty) - 1):
        fail(p, st, "return shape " + ast.unparse(e))
    if spec.get("ret_kind") == "intpair":
        # (pushes_int, value): first component a literal, (False, e) only with e the literal None
        a, b = e.elts
        if not (isinstance(a, ast.Constant) and isinstance(a.value, bool)):
            fail(p, st, "the first component of the returned pair must be the literal True or False")
        bt, bty, bp = expr(env, b)
        if a.value is False and bty != NONE:
            fail(p, st, "return False, e with e other than the literal None")
        if bty == NONE:
            snd, parts = (lambda: "None"), []
        elif bty == PYVAL:
            snd, parts = (lambda x: f"(Some {x})"), [(bt, bp)]
        elif bty in (NINT, INTLIT):
            bt = coerce(env, b, bt, bty, NINT)
            snd, parts = (lambda x: f"(Some (PVInt {x}))"), [(bt, bp)]
        else:
            fail(p, st, f"second component of type {bty}")
        first = "true" if a.value else "false"
        out, _ = seq(env, parts, lambda *xs: f"(ret ({first}, {snd(*xs)}))", monadic_result=True)
        return out
    parts = []
    for x, want in zip(e.elts, rty[1:]):
        t, ty, pure = expr(env, x)
        parts.append((coerce(env, x, t, ty, want), pure))
    out, _ = seq(env, parts, lambda *xs: f"(ret ({', '.join(xs)}))", monadic_result=True)
    return out


def assign(env, st, rest_of):
    p = env.path
    if isinstance(st, ast.Assign):
        if len(st.targets) != 1:
            fail(p, st, "chained assignment")
        tg, value, ann = st.targets[0], st.value, None
    else:
        tg, value = st.target, st.value
        if value is None or not isinstance(tg, ast.Name):
            fail(p, st, "annotated assignment " + ast.unparse(st)[:60])
        ann = ANNOTATIONS.get(ast.unparse(st.annotation))
        if ann is None:
            fail(p, st, "annotation " + ast.unparse(st.annotation))
        if tg.id in env.vars:
            fail(p, st, f"{tg.id} is declared twice")
    # self._x = e in a method of Teal
    if isinstance(tg, ast.Attribute) and is_name(tg.value, "self") and env.vars.get("self") == TEAL and tg.attr in SELF_STORES:
        g, want = SELF_STORES[tg.attr]
        v, vty, vp = expr(env, value)
        if vty != want:
            fail(p, st, f"store self.{tg.attr} := {vty}")
        out, pure = seq(env, [(v, vp)], lambda a: f"({g} self_ {a})")
        return bind_var(env, "self", st, out, TEAL, pure, rest_of, state=True)
    # self._function.transaction_context(b).<attr> = e
    if isinstance(tg, ast.Attribute) and env.spec.get("store") and tg.attr in TCTX_STORES and isinstance(tg.value, ast.Call):
        c = tg.value
        if not (same_text(c.func, "self._function.transaction_context") and len(c.args) == 1 and not c.keywords):
            fail(p, st, "assignment target " + ast.unparse(tg)[:60])
        b, bty, bp = expr(env, c.args[0])
        v, vty, vp = expr(env, value)
        if bty != BLK or vty != LZ:
            fail(p, st, f"store .{tg.attr} of the context of a {bty} := {vty}")
        tbl = TCTX_STORES[tg.attr]
        if env.vars.get(tbl) != TCTX:
            fail(p, st, f"the function has no access to {tbl}")
        out, _ = seq(env, [(v, vp), (b, bp)], lambda x, y: f"(tc_store {tbl} {y} {x})", monadic_result=True)
        return bind_var(env, tbl, st, out, TCTX, False, rest_of, state=True)
    # alias[b] = e
    if isinstance(tg, ast.Subscript) and is_name(tg.value) and tg.value.id in env.alias:
        key = env.alias[tg.value.id]
        v, vty, vp = expr(env, value)
        b, bty, bp = expr(env, tg.slice)
        if bty != BLK or vty != LZ:
            fail(p, st, f"store [{bty}] := {vty}")
        out, pure = seq(env, [(v, vp), (b, bp)], lambda x, y: f"(ictx_store self_block_contexts {key} {y} {x})")
        return bind_var(env, "self_block_contexts", st, out, GDICT, pure, rest_of, state=True)
    if isinstance(tg, ast.Tuple) and all(isinstance(x, ast.Name) for x in tg.elts):
        names = [x.id for x in tg.elts]
        t, ty, pure = expr(env, value)
        if not (isinstance(ty, tuple) and len(ty) - 1 == len(names) and len(set(names)) == len(names)):
            fail(p, st, "tuple assignment " + ast.unparse(st)[:60])
        tmp = env.fresh()

        def chain(env2, i):
            if i == len(names):
                return rest_of(env2)
            return bind_var(env2, names[i], st, projections(len(names), tmp)[i], ty[1 + i], True, lambda env3: chain(env3, i + 1))

        inner = chain(env, 0)
        return f"(let {tmp} := {t} in\n{inner})" if pure else f"(bind {t} (fun {tmp} =>\n{inner}))"
    if not isinstance(tg, ast.Name):
        fail(p, st, "assignment target " + ast.unparse(tg)[:60])
    x = tg.id
    # x = self._block_contexts[<key>]: an alias of the inner dictionary
    if env.spec.get("store") and isinstance(value, ast.Subscript) and same_text(value.value, "self._block_contexts"):
        k, kty, kp = expr(env, value.slice)
        if kty != STR or not kp:
            fail(p, st, f"key of self._block_contexts of type {kty}")
        check_name(env, x, st)
        if x in env.vars or x in env.alias:
            fail(p, st, f"{x} is bound twice")
        e2 = env.child()
        e2.alias[x] = k
        return rest_of(e2)
    want = ann or env.vars.get(x)
    if isinstance(value, ast.List) and not value.elts:
        if want is None or want not in ELEM:
            fail(p, st, "empty list literal without a list annotation")
        return bind_var(env, x, st, "[]", want, True, rest_of)
    t, ty, pure = expr(env, value)
    if want is not None and ty != want:
        fail(p, st, f"assignment of a value of type {ty} to {x} : {want}")
    return bind_var(env, x, st, t, ty, pure, rest_of)


def expr_stmt(env, st, rest_of):
    p, v = env.path, st.value
    if not (isinstance(v, ast.Call) and isinstance(v.func, ast.Attribute) and len(v.args) == 1 and not v.keywords):
        fail(p, st, "expression statement " + ast.unparse(st)[:60])
    recv, m, arg = v.func.value, v.func.attr, v.args[0]
    a, aty, ap = expr(env, arg)
    # xs.append(e) on a list variable
    if is_name(recv) and env.vars.get(recv.id) in (LINS_I, LINS_B) and m == "append":
        x, lty = recv.id, env.vars[recv.id]
        if aty != INS:
            fail(p, st, f".append of a value of type {aty}")
        # the element is an Intcblock / Bytecblock only if the enclosing test says so
        if env.spec.get("narrow", {}).get(id(st)) != ELEM[lty]:
            fail(p, st, f"{x}.append(..) outside an isinstance test for the class of its elements")
        out, pure = seq(env, [(a, ap)], lambda e: f"({x} ++ [{e}])")
        return bind_var(env, x, st, out, lty, pure, rest_of)
    # teal.set_int_constants(e): a mutator of the Teal object
    if is_name(recv) and env.vars.get(recv.id) == TEAL and m in TEAL_METHODS and TEAL_METHODS[m][2] is None:
        g, ptys, _ = TEAL_METHODS[m]
        if aty != ptys[0]:
            fail(p, st, f".{m} of a value of type {aty}")
        out, _ = seq(env, [(a, ap)], lambda e: f"({g} {cname(recv.id)} {e})", monadic_result=True)
        return bind_var(env, recv.id, st, out, TEAL, False, rest_of, state=True)
    fail(p, st, "method call " + ast.unparse(st)[:60])


def block(env, stmts, fall):
    p = env.path
    stmts = strip_doc(stmts)
    if not stmts:
        if fall is None:
            return end_of_function(env, "?")
        return fall(env)
    st, rest = stmts[0], stmts[1:]
    for node in ast.walk(st):
        if isinstance(node, FORBIDDEN):
            fail(p, node, "statement/expression not accepted: " + type(node).__name__)
    rest_of = lambda env2: block(env2, rest, fall)  # noqa: E731
    if isinstance(st, ast.Return):
        if rest:
            fail(p, rest[0], "statement after return")
        return ret_stmt(env, st)
    if isinstance(st, ast.Raise):
        # raise TealerException(..): the exception None
        if rest:
            fail(p, rest[0], "statement after raise")
        c = st.exc
        if st.cause or not (isinstance(c, ast.Call) and is_name(c.func, "TealerException") and env.spec["imports"].get("TealerException") == "tealer.exceptions.TealerException"):
            fail(p, st, "raise " + ast.unparse(st)[:60])
        for a in c.args:
            if not (isinstance(a, ast.Constant) and isinstance(a.value, str)):
                fail(p, st, "argument of TealerException")
        return "None"
    if isinstance(st, ast.Pass):
        return rest_of(env)
    if isinstance(st, (ast.Assign, ast.AnnAssign)):
        return assign(env, st, rest_of)
    if isinstance(st, ast.Expr):
        return expr_stmt(env, st, rest_of)
    if isinstance(st, ast.If):
        if not rest:
            return if_term(env, st, fall)
        uses = [0]

        def count(_env):
            uses[0] += 1
            return "K"

        _, names = probe(env, lambda: if_term(env, st, count))
        if uses[0] == 0:
            fail(p, rest[0], "unreachable statement")
        if uses[0] == 1:
            return if_term(env, st, rest_of)
        join = [v for v in env.vars if v in names]
        kn = env.fresh_join()
        body = block(env, rest, fall)
        params = " ".join(f"({cname(v)} : {coqty(env.vars[v])})" for v in join) or "(_ : unit)"

        def callk(env2):
            for v in join:
                if env2.vars[v] != env.vars[v]:
                    fail(p, st, f"the type of {v} differs at the join point")
            if env2.alias != env.alias:
                fail(p, st, "an alias is bound in a branch")
            return f"({kn} {' '.join(cname(v) for v in join) or 'tt'})"

        return f"(let {kn} := (fun {params} =>\n{indent(body, 2)}) in\n{if_term(env, st, callk)})"
    if isinstance(st, ast.For):
        return for_term(env, st, rest_of)
    fail(p, st, "statement " + ast.unparse(st)[:60])


def narrowing(env, st):
    """`if isinstance(x, C): <body>` with C = Intcblock / Bytecblock: inside the body x is an instance of C"""
    t = st.test
    if isinstance(t, ast.Call) and is_name(t.func, "isinstance") and len(t.args) == 2 and is_name(t.args[0]) and is_name(t.args[1]) and t.args[1].id in ("Intcblock", "Bytecblock"):
        ty = INS_I if t.args[1].id == "Intcblock" else INS_B
        for s in st.body:
            if isinstance(s, ast.Expr) and isinstance(s.value, ast.Call) and isinstance(s.value.func, ast.Attribute) and s.value.func.attr == "append" and len(s.value.args) == 1 and is_name(s.value.args[0], t.args[0].id):
                env.spec.setdefault("narrow", {})[id(s)] = ty


def if_term(env, st, k):
    p = env.path
    cont = k if k is not None else (lambda env2: end_of_function(env2, st.lineno))
    narrowing(env, st)
    t, ty, pure = expr(env, st.test)
    if ty != BOOL:
        fail(p, st, f"if-condition of type {ty}")
    then_t = block(env, st.body, cont)
    else_t = block(env, st.orelse, cont) if st.orelse else cont(env)
    if pure:
        return f"(if {t}\n then\n{indent(then_t)}\n else\n{indent(else_t)})"
    return f"(ifE {t}\n{indent(then_t)}\n{indent(else_t)})"


def for_term(env, st, rest_of):
    p = env.path
    if st.orelse or getattr(st, "type_comment", None) or env.depth >= 1:
        fail(p, st, "for-else / nested loops")
    if not isinstance(st.target, ast.Name):
        fail(p, st, "loop header " + ast.unparse(st)[:60])
    x = st.target.id
    check_name(env, x, st)
    if x in env.vars or x in env.alias:
        fail(p, st, f"loop variable {x} shadows a variable")
    l, lty, lpure = expr(env, st.iter)
    if lty not in ELEM and lty != "list ins":
        fail(p, st, f"iteration over a value of type {lty}")
    if not lpure:
        fail(p, st, "iterable that may raise")
    ety = INS if lty == "list ins" else ELEM[lty]
    body = strip_doc(st.body)
    benv = env.child(**{x: ety})
    benv.depth = env.depth + 1
    _, names = probe(benv, lambda: block(benv, body, lambda _e: "K"))
    if x in names:
        fail(p, st, "loop body assigns the loop variable")
    state = [n for n in env.vars if n in names]
    if not state:
        fail(p, st, "loop without carried variable")
    if any(isinstance(n, ast.Name) and n.id in state for n in ast.walk(st.iter)):
        fail(p, st, "loop body mutates the list it iterates over")
    stys = [env.vars[n] for n in state]

    def body_end(env2):
        for n, ty in zip(state, stys):
            if env2.vars[n] != ty:
                fail(p, st, f"loop body changes the type of {n}")
        return f"(ret {tuple_term([cname(n) for n in state])})"

    body_t = block(benv, body, body_end)
    for n, pr in reversed(list(zip(state, projections(len(state), "st")))):
        body_t = f"(let {cname(n)} := {pr} in\n{body_t})"
    loop = f"(fold_left (fun acc {x} => (bind acc (fun st =>\n{indent(body_t, 2)})))\n  {l} (ret {tuple_term([cname(n) for n in state])}))"
    tmp = env.fresh()
    for n in state:
        env.collect[0].append(n)
    after = rest_of(env)
    for n, pr in reversed(list(zip(state, projections(len(state), tmp)))):
        after = f"(let {cname(n)} := {pr} in\n{after})"
    return f"(bind {loop} (fun {tmp} =>\n{after}))"


# ----------------------------------------------------------------------------- source checks
find_class, find_member, member_text, bound_names, count_bindings, find_toplevel = (
    tc.find_class, tc.find_member, tc.member_text, tc.bound_names, tc.count_bindings, tc.find_toplevel,
)


def check_fingerprints(table):
    trees = {}
    for rel, cname_, mname, deco, text in table:
        path = os.path.join(T, rel)
        if rel not in trees:
            trees[rel] = parse(path)
        cls = find_class(trees[rel], cname_, path)
        got = member_text(find_member(path, cls, mname, deco))
        if not same_text(ast.parse(got), text):
            raise TranslateError(f"translator: {path}: {cname_}.{mname} changed (its entry in the glue table of Gen/ConstsGen.v is no longer justified):\n{got}")
    return trees


def check_plain_class(path, tree, name):
    """no special methods that would change truth values / == / attribute reads; no bases"""
    cls = find_class(tree, name, path)
    if cls.bases or cls.keywords or cls.decorator_list:
        fail(path, cls, f"class {name} has bases / decorators")
    for n in cls.body:
        if isinstance(n, ast.FunctionDef) and n.name in FORBIDDEN_DUNDERS:
            fail(path, n, f"class {name} defines {n.name}")
        for tg in n.targets if isinstance(n, ast.Assign) else [n.target] if isinstance(n, ast.AnnAssign) else []:
            if isinstance(tg, ast.Name) and tg.id in FORBIDDEN_DUNDERS:
                fail(path, n, f"class {name} has the class attribute {tg.id}")
    return cls


def signature(path, fn, expected, returns, method=False):
    a = fn.args
    if a.vararg or a.kwarg or a.kwonlyargs or a.posonlyargs or a.defaults or fn.decorator_list:
        fail(path, fn, "signature of " + fn.name)
    got = [(x.arg, ast.unparse(x.annotation) if x.annotation else None) for x in a.args]
    if method:
        if not got or got[0] != ("self", None):
            fail(path, fn, f"signature of {fn.name}: {got}")
        got = got[1:]
    if got != expected:
        fail(path, fn, f"signature of {fn.name}: {got}")
    r = ast.unparse(fn.returns) if fn.returns else None
    if r != returns:
        fail(path, fn, f"return annotation of {fn.name}: {r}")
    for node in ast.walk(fn):
        if isinstance(node, ast.Name) and isinstance(node.ctx, (ast.Store, ast.Del)) and node.id in ("isinstance", "len", "list", "set", "range", "max", "self"):
            fail(path, node, f"{node.id} is re-bound")


def read_intc_classes(ipath, itree):
    """the subclasses of IntcInstruction and the constant-block index each stores in _idx -> [(class, K or None)]"""
    out = []
    for cls in itree.body:
        if not isinstance(cls, ast.ClassDef):
            continue
        bases = [ast.unparse(b) for b in cls.bases]
        if "IntcInstruction" not in bases:
            continue
        if bases != ["IntcInstruction"] or cls.keywords or cls.decorator_list:
            fail(ipath, cls, f"bases of {cls.name}: {bases}")
        if cls.name not in INTC_SUBCLASSES:
            fail(ipath, cls, f"class {cls.name} is a subclass of IntcInstruction: isinstance(IntcInstruction) is no longer IIntc / IIntcK")
        for n in cls.body:
            if isinstance(n, ast.FunctionDef) and n.name not in ("__init__", "__str__"):
                fail(ipath, n, f"class {cls.name} defines {n.name}")
            for tg in n.targets if isinstance(n, ast.Assign) else [n.target] if isinstance(n, ast.AnnAssign) else []:
                fail(ipath, n, f"class {cls.name} has a class attribute")
        init = find_member(ipath, cls, "__init__", None)
        if cls.name == "Intc":
            out.append((cls.name, None))  # fingerprinted: self._idx = idx
            continue
        body = strip_doc(init.body)
        a = init.args
        if (
            [x.arg for x in a.args] != ["self"] or a.vararg or a.kwarg or a.kwonlyargs or a.defaults or init.decorator_list or len(body) != 2
            or not same_text(body[0], "super().__init__()")
            or not (isinstance(body[1], ast.Assign) and len(body[1].targets) == 1 and same_text(body[1].targets[0], "self._idx") and lit(body[1].value))
        ):  # fmt: skip
            fail(ipath, init, f"{cls.name}.__init__ is not `super().__init__(); self._idx = <literal>`")
        out.append((cls.name, body[1].value.value))
    if sorted(c for c, _ in out) != sorted(INTC_SUBCLASSES):
        raise TranslateError(f"translator: {ipath}: the subclasses of IntcInstruction are {[c for c, _ in out]}, expected {sorted(INTC_SUBCLASSES)}")
    check_no_subclasses(ipath, set(INTC_SUBCLASSES) | {"Int", "PushInt", "Intcblock", "Bytecblock"})
    # .index / .value / .constants are defined where the fingerprints say, nowhere else
    owners = {"index": {"IntcInstruction", "BytecInstruction"}, "value": None, "constants": {"Intcblock", "Bytecblock"}}
    for cls in itree.body:
        if isinstance(cls, ast.ClassDef):
            for n in cls.body:
                if isinstance(n, ast.FunctionDef) and n.name in ("index", "constants") and cls.name not in owners[n.name]:
                    fail(ipath, n, f"class {cls.name} defines .{n.name}")
                if isinstance(n, ast.FunctionDef) and n.name in ("bb",) and cls.name != "Instruction":
                    fail(ipath, n, f"class {cls.name} overrides Instruction.{n.name}")
    return out


def class_constants(path, tree, cname_, names):
    """class attributes `X = <module-level name>` with `<name> = <string literal>` at module level -> {X: string}"""
    cls = find_class(tree, cname_, path)
    mod = {}
    for n in tree.body:
        if isinstance(n, ast.Assign) and len(n.targets) == 1 and isinstance(n.targets[0], ast.Name) and isinstance(n.value, ast.Constant) and isinstance(n.value.value, str):
            mod[n.targets[0].id] = n.value.value
    out = {}
    for n in cls.body:
        if isinstance(n, ast.Assign) and len(n.targets) == 1 and isinstance(n.targets[0], ast.Name) and n.targets[0].id in names:
            v = n.value
            if not (isinstance(v, ast.Name) and v.id in mod and count_bindings(tree, v.id) == 1):
                fail(path, n, f"class constant {n.targets[0].id}")
            if n.targets[0].id in out:
                fail(path, n, f"class constant {n.targets[0].id} is bound twice")
            out[n.targets[0].id] = mod[v.id]
    for x in names:
        if x not in out:
            raise TranslateError(f"translator: {path}: class constant {cname_}.{x} not found")
    return out


def emit_def(w, rel, fn, name, params, rtype, body, note=""):
    ptxt = " ".join(f"({n} : {t})" for n, t in params)
    w(f"(* {rel}: {fn.name} (line {fn.lineno}){note} *)")
    w(f"Definition {name} {ptxt} : {rtype} :=\n{indent(body, 2)}.")
    w("")


# ----------------------------------------------------------------------------- emission
def emit_consts(outdir):
    an, tl, pt, ins_p, bb_p = (os.path.join(T, r) for r in (AN_REL, TEAL_REL, PT_REL, INS_REL, BB_REL))
    antree, tltree, pttree, itree, bbtree = parse(an), parse(tl), parse(pt), parse(ins_p), parse(bb_p)
    tc.check_fingerprints()  # Instruction.bb, BasicBlock.__init__, no __eq__ / __bool__ in the two hierarchies
    check_fingerprints(FINGERPRINTS)
    tealcls = check_plain_class(tl, tltree, "Teal")
    check_plain_class(bb_p, bbtree, "BasicBlock")
    intc = read_intc_classes(ins_p, itree)
    an_imports, tl_imports, pt_imports = bound_names(antree), bound_names(tltree), bound_names(pttree)
    for name in ("is_int_push_ins",):
        if count_bindings(antree, name) != 1 or an_imports.get(name) != "<local>":
            raise TranslateError(f"translator: {an}: {name} must be bound exactly once at module level")
    for name in ("_fill_intc_bytec_info", "first_pass", "parse_teal"):
        if count_bindings(pttree, name) != 1 or pt_imports.get(name) != "<local>":
            raise TranslateError(f"translator: {pt}: {name} must be bound exactly once at module level")
    for tree, path, imports in ((antree, an, an_imports), (tltree, tl, tl_imports), (pttree, pt, pt_imports)):
        for name in ("isinstance", "len"):
            if count_bindings(tree, name) != 0 or name in imports:
                raise TranslateError(f"translator: {path}: the builtin {name} is re-bound")
    if pt_imports.get("Teal") != "tealer.teal.teal.Teal" or pt_imports.get("Subroutine") != "tealer.teal.subroutine.Subroutine":
        raise TranslateError(f"translator: {pt}: Teal / Subroutine are not the classes of teal.py / subroutine.py")
    # a method name of Teal is defined once
    for m in TEAL_METHODS:
        find_member(tl, tealcls, m, None)
    intc_pattern = "IIntc _ | IIntcK _"

    L = []
    w = L.append
    w("(* GENERATED by tools/translate.py (translate_consts) from /repo/tealer -- do not edit *)")
    w("(* utils/analyses.py is_int_push_ins, teal/teal.py Teal.get_int_constant / set_int_constants / set_byte_constants,")
    w("   teal/parse_teal.py _fill_intc_bytec_info and the constant-block lists of first_pass,")
    w("   transaction_context/int_fields.py GroupIndices._store_results, statement by statement.")
    w("   See tools/translate_consts.py for the reading. *)")
    w("From Coq Require Import String List NArith ZArith Bool Arith.")
    w("From Tealer Require Import Tables Syntax Parse Cfg StackAst Keys KeysGen CfgGen Analysis GraphGen SolverGen Domains.")
    w("Import ListNotations.")
    w("Open Scope string_scope.")
    w("Open Scope list_scope.")
    w(PRELUDE.rstrip("\n"))
    w("")
    w("(* GENERATED table: the constant-block index stored in _idx by the __init__ of each subclass of IntcInstruction")
    w("   without constructor argument (" + ", ".join(f"{c}: self._idx = {k}" for c, k in intc if k is not None) + ") *)")
    w("Definition intc_class_index (c : string) : py N :=")
    for c, k in intc:
        if k is not None:
            w(f"  if String.eqb c {coq_str(c)} then Some {k}%N else")
    w("  None.")
    w(PRELUDE_INDEX.rstrip("\n"))
    w("")
    w("(* ====================================================================== *)")
    w("(* TRANSLATED functions                                                     *)")
    w("(* ====================================================================== *)")

    # --- (1) Teal.get_int_constant, set_int_constants, set_byte_constants
    base = {"imports": tl_imports, "intc_pattern": intc_pattern}
    fn = find_member(tl, tealcls, "get_int_constant", None)
    signature(tl, fn, [("index", "int")], "Tuple[bool, int]", method=True)
    env = Env(tl, {"self": TEAL, "index": NINT}, dict(base, ret_type=tuple_ty(BOOL, NINT)))
    emit_def(w, TEAL_REL, fn, "get_int_constant_genE", [("self_", "tealobj"), ("index", "N")], "py (bool * N)", block(env, fn.body, None))
    for m, arg, aty, cty in (("set_int_constants", "int_constants", "List[int]", LN), ("set_byte_constants", "byte_constants", "List[str]", LSTR)):
        fn = find_member(tl, tealcls, m, None)
        signature(tl, fn, [(arg, aty)], "None", method=True)
        env = Env(tl, {"self": TEAL, arg: cty}, dict(base, returns=["self"]))
        check_name(env, arg, fn)
        emit_def(w, TEAL_REL, fn, TEAL_METHODS[m][0], [("self_", "tealobj"), (arg, coqty(cty))], "py tealobj", block(env, fn.body, None), "; returns the new state of the object")

    # --- (1) is_int_push_ins
    fn = find_toplevel(antree, "is_int_push_ins", an)
    signature(an, fn, [("ins", "Instruction")], "Tuple[bool, Optional[Union[int, str]]]")
    env = Env(an, {"ins": INSC}, dict(imports=an_imports, intc_pattern=intc_pattern, ret_type=tuple_ty(BOOL, "option pyval"), ret_kind="intpair"))
    emit_def(w, AN_REL, fn, "is_int_push_ins_genE", [("ins", "insobjc")], "py (bool * option pyval)", block(env, fn.body, None))
    w("(* the result as Model/Keys.intres *)")
    w("Definition is_int_push_ins_gen (ins : insobjc) : py intres := option_map intres_of_pair (is_int_push_ins_genE ins).")
    w("")

    # --- (2) _fill_intc_bytec_info
    fn = find_toplevel(pttree, "_fill_intc_bytec_info", pt)
    signature(pt, fn, [("intcblock_ins", "List[Intcblock]"), ("bytecblock_ins", "List[Bytecblock]"), ("entry_block", "BasicBlock"), ("teal", "Teal")], "None")
    env = Env(
        pt, {"intcblock_ins": LINS_I, "bytecblock_ins": LINS_B, "entry_block": BLK, "teal": TEAL},
        dict(imports=pt_imports, intc_pattern=intc_pattern, returns=["teal"], context=["p", "iheap"]),
    )
    emit_def(
        w, PT_REL, fn, "fill_intc_bytec_info_gen",
        [("p", "prog"), ("iheap", "ins_heap"), ("intcblock_ins", "list nat"), ("bytecblock_ins", "list nat"), ("entry_block", "nat"), ("teal", "tealobj")],
        "py tealobj", block(env, fn.body, None), "; returns the new state of the Teal object",
    )

    # --- (2) first_pass: the constant-block lists
    fn = find_toplevel(pttree, "first_pass", pt)
    tc.slice_first_pass(pt, fn)  # the shape of first_pass and the text of every statement of the slice
    body = strip_doc(fn.body)
    loop = body[5]
    lb = strip_doc(loop.body)
    new = ast.For(target=ast.Name(id="ins", ctx=ast.Store()), iter=ast.Name(id="parsed_instructions", ctx=ast.Load()), body=[lb[3]], orelse=[])
    ast.copy_location(new, loop)
    ast.fix_missing_locations(new)
    for node in ast.walk(fn):
        if isinstance(node, ast.Name) and node.id in ("intcblock_ins", "bytecblock_ins") and isinstance(node.ctx, ast.Store):
            if not any(node in ast.walk(s) for s in (body[2], body[3])):
                fail(pt, node, f"{node.id} is re-bound in first_pass")
    uses = [n for s in lb[:3] + lb[4:] for n in ast.walk(s) if isinstance(n, ast.Name) and n.id in ("intcblock_ins", "bytecblock_ins")]
    if uses:
        fail(pt, uses[0], "intcblock_ins / bytecblock_ins are used outside the statement that fills them")
    env = Env(pt, {"parsed_instructions": "list ins"}, dict(imports=pt_imports, intc_pattern=intc_pattern, ret_type=tuple_ty(LINS_I, LINS_B), context=["p"]))
    term = block(env, [body[2], body[3], new, body[6]], None)
    term = f"(let parsed_instructions := (seq 0 (length p)) in\n{term})"
    emit_def(w, PT_REL, fn, "first_pass_constblocks_gen", [("p", "prog")], "py (list nat * list nat)", term, "; the statements that build intcblock_ins / bytecblock_ins, over the positions of the parsed instructions")

    # --- (2) parse_teal: the call of _fill_intc_bytec_info
    fn = find_toplevel(pttree, "parse_teal", pt)
    pbody = strip_doc(fn.body)
    for want in PARSE_TEAL_STATEMENTS:
        if sum(1 for s in pbody if same_text(s, want)) != 1 or sum(1 for s in ast.walk(fn) if isinstance(s, ast.stmt) and same_text(s, want)) != 1:
            fail(pt, fn, f"parse_teal no longer contains exactly once, at top level: {want.splitlines()[0]}")
    idx = {want: [i for i, s in enumerate(pbody) if same_text(s, want)][0] for want in PARSE_TEAL_STATEMENTS}
    order = [idx[wnt] for wnt in PARSE_TEAL_STATEMENTS]
    if order != sorted(order) or idx["return teal"] != len(pbody) - 1:
        fail(pt, fn, "parse_teal: the statements around _fill_intc_bytec_info are no longer in the expected order")
    for node in ast.walk(fn):
        if isinstance(node, ast.Name) and isinstance(node.ctx, ast.Store) and node.id in ("intcblock_ins", "bytecblock_ins", "contract_entry_block", "main_program", "teal"):
            par = [s for s in pbody if node in ast.walk(s)]
            if not par or not any(same_text(par[0], t) for t in PARSE_TEAL_STATEMENTS):
                fail(pt, node, f"{node.id} is re-bound in parse_teal")
    # between `contract_entry_block = all_bbs[0]` and the end, all_bbs is not re-bound
    for s in pbody[idx["contract_entry_block = all_bbs[0]"]:]:
        for node in ast.walk(s):
            if isinstance(node, ast.Name) and node.id == "all_bbs" and isinstance(node.ctx, ast.Store):
                fail(pt, node, "all_bbs is re-bound after contract_entry_block = all_bbs[0]")
    # nothing between Teal(..) and the call touches the constants
    for s in pbody[idx["teal = Teal(version, mode, instructions, all_reachable_blocks, main_program, subroutines)"] + 1 : idx["_fill_intc_bytec_info(intcblock_ins, bytecblock_ins, teal.main.entry, teal)"]]:
        for node in ast.walk(s):
            if isinstance(node, ast.Attribute) and node.attr in ("set_int_constants", "set_byte_constants", "_int_constants", "_byte_constants", "_main", "_entry"):
                fail(pt, node, "parse_teal touches the constants / the entry block before _fill_intc_bytec_info")
    w(PARSE_TEAL_GLUE.strip("\n"))
    w("")
    n = 7

    # --- (3) GroupIndices._store_results
    n += emit_store(w)
    os.makedirs(outdir, exist_ok=True)
    with open(os.path.join(outdir, "ConstsGen.v"), "w") as fh:
        fh.write("\n".join(L) + "\n")
    return n


def emit_store(w):
    ifp, fnp = os.path.join(T, IF_REL), os.path.join(T, FN_REL)
    iftree, fntree = parse(ifp), parse(fnp)
    check_fingerprints(FINGERPRINTS_STORE)
    fcls = find_class(fntree, "Function", fnp)
    init = strip_doc(find_member(fnp, fcls, "__init__", None).body)
    for want in FUNCTION_INIT_STATEMENTS:
        if sum(1 for s in init if same_text(s, want)) != 1:
            fail(fnp, fcls, f"Function.__init__ no longer contains exactly once: {want}")
    for n in ast.walk(fcls):
        if isinstance(n, ast.Attribute) and n.attr in ("_transaction_contexts", "_blocks") and isinstance(n.ctx, (ast.Store, ast.Del)):
            par = [s for s in init if n in ast.walk(s)]
            if not par or not any(same_text(par[0], t) for t in FUNCTION_INIT_STATEMENTS):
                fail(fnp, n, f"Function.{n.attr} is re-bound")
    imports = bound_names(iftree)
    for name in ("isinstance", "len", "set", "range", "max", "list"):
        if count_bindings(iftree, name) != 0 or name in imports:
            raise TranslateError(f"translator: {ifp}: the builtin {name} is re-bound")
    cls = find_class(iftree, "GroupIndices", ifp)
    if [ast.unparse(b) for b in cls.bases] != ["DataflowTransactionContext"] or imports.get("DataflowTransactionContext") != "tealer.analyses.dataflow.transaction_context.generic.DataflowTransactionContext":
        fail(ifp, cls, "bases of GroupIndices")
    consts = class_constants(ifp, iftree, "GroupIndices", ["GROUP_SIZE_KEY", "GROUP_INDEX_KEY"])
    fn = find_member(ifp, cls, "_store_results", None)
    signature(ifp, fn, [], "None", method=True)
    env = Env(
        ifp, {"self_block_contexts": GDICT, "tctx_group_sizes": TCTX, "tctx_group_indices": TCTX},
        dict(imports=imports, intc_pattern="", store=True, class_consts=consts, returns=["self_block_contexts", "tctx_group_sizes", "tctx_group_indices"]),
    )
    w(PRELUDE_STORE.strip("\n"))
    w("")
    emit_def(
        w, IF_REL, fn, "store_results_gen",
        [("f", "func"), ("self_block_contexts", "gdict (list Z)"), ("tctx_group_sizes", "tctx_attr"), ("tctx_group_indices", "tctx_attr")],
        "py (gdict (list Z) * tctx_attr * tctx_attr)", block(env, fn.body, None),
        "; f is the function under analysis; returns the final self._block_contexts and the two attribute tables of the block contexts",
    )
    return 1


def main():
    outdir = sys.argv[1] if len(sys.argv) > 1 else os.path.join(os.path.dirname(os.path.abspath(__file__)), "..", "coq", "Gen")
    try:
        n = emit_consts(outdir)
    except TranslateError as e:
        print(str(e))
        sys.exit(2)
    print(f"translate_consts: {n} constant-resolution / result-storing functions -> {outdir}/ConstsGen.v")


if __name__ == "__main__":
    main()
