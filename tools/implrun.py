#!/venv/bin/python
"""Run the implementation (tealer from /repo) on the same request stream as the extracted driver and
print one canonical JSON line per request: "<id>\t<json>".  Exceptions become {"err": "<Class>: msg"}."""
import io
import json
import logging
import os
import sys
import contextlib

REPO = os.environ.get("VERIF_REPO", "/repo")
sys.path.insert(0, REPO)
logging.disable(logging.CRITICAL)

with contextlib.redirect_stdout(io.StringIO()), contextlib.redirect_stderr(io.StringIO()):
    from tealer.teal.parse_teal import parse_teal  # noqa
    from tealer.teal.instructions import instructions as I  # noqa
    from tealer.teal.instructions.parse_instruction import parse_line  # noqa
    from tealer.utils.command_line.common import init_tealer_from_single_contract  # noqa
    from tealer.utils.teal_enums import ExecutionMode  # noqa
    from tealer.detectors import all_detectors  # noqa
    from tealer.teal.parse_functions import construct_function  # noqa

logging.disable(logging.CRITICAL)

DETECTORS = [
    "rekey-to", "can-close-account", "can-close-asset", "missing-fee-check", "is-updatable", "is-deletable",
    "unprotected-updatable", "unprotected-deletable", "group-size-check",
]


def quiet(fn, *a, **k):
    out, err = io.StringIO(), io.StringIO()
    with contextlib.redirect_stdout(out), contextlib.redirect_stderr(err):
        r = fn(*a, **k)
    return r, out.getvalue(), err.getvalue()


def safe(f):
    try:
        return f()
    except Exception as e:  # pylint: disable=broad-except
        return "exn:" + type(e).__name__


def block_json(b):
    return {
        "idx": b.idx,
        "lines": [i.line for i in b.instructions],
        "ins": [str(i) for i in b.instructions],
        "next": [x.idx for x in b.next],
        "prev": [x.idx for x in b.prev],
        # call / return-point structure as the tool itself reports it (C05): read through the public properties
        "is_rp": safe(lambda: bool(b.is_sub_return_point)),
        "rp": safe(lambda: (b.sub_return_point.idx if b.sub_return_point is not None else None) if b.is_callsub_block else "-"),
        "csb": safe(lambda: b.callsub_block.idx if b.is_sub_return_point else "-"),
        "callee": safe(lambda: b.called_subroutine.name if b.is_callsub_block else "-"),
    }


def sub_json(s):
    return {"name": s.name, "entry": s.entry.idx, "blocks": [b.idx for b in s.blocks], "callers": [b.idx for b in s.caller_blocks]}


def teal_fields(t):
    ic = t._int_constants  # pylint: disable=protected-access
    return {
        "version": t.version,
        "mode": {ExecutionMode.STATELESS: "Stateless", ExecutionMode.STATEFUL: "Stateful", ExecutionMode.ANY: "Any"}[t.mode],
        "blocks": [block_json(b) for b in t.bbs],
        "main": sub_json(t.main),
        "subs": [sub_json(s) for s in t.subroutines.values()],
        "retained_lines": [i.line for i in t.instructions],
        "intcs": [str(x) for x in ic] if ic else None,
    }


def addr_str(a):
    return ("A" if a.any_addr else "") + ("N" if a.no_addr else "") + ":" + ",".join(sorted(set(a.possible_addr)))


ALL_TYPES = None


def ctx_entries(ctx, fam, own):
    global ALL_TYPES
    from tealer.utils.teal_enums import ALL_TRANSACTION_TYPES

    if ALL_TYPES is None:
        ALL_TYPES = ",".join(sorted(str(x) for x in ALL_TRANSACTION_TYPES))
    out = {}
    if own:
        out["self:GroupSize"] = ",".join(str(x) for x in sorted(set(ctx.group_sizes)))
        out["self:GroupIndex"] = ",".join(str(x) for x in sorted(set(ctx.group_indices)))
    ts = ",".join(sorted(set(str(x) for x in ctx.transaction_types)))
    if ts != ALL_TYPES:
        out[fam + ":TransactionType"] = ts
    for name, av in (("RekeyTo", ctx.rekeyto), ("CloseRemainderTo", ctx.closeto), ("AssetCloseTo", ctx.assetcloseto), ("Sender", ctx.sender)):
        s = addr_str(av)
        if s != "A:":
            out[fam + ":" + name] = s
    fee = "unk" if ctx.max_fee_unknown else str(ctx.max_fee)
    if fee != "18446744073709551615":
        out[fam + ":Fee"] = fee
    return out


def block_ctx(function, b):
    c = function.transaction_context(b)
    out = ctx_entries(c, "self", True)
    for i in range(16):
        out.update(ctx_entries(c.gtxn_context(i), f"at{i}", False))
        out.update(ctx_entries(c.absolute_context(i), f"abs{i}", False))
    for k in range(-15, 16):
        if k != 0:
            out.update(ctx_entries(c.relative_context(k), f"rel{k}", False))
    return out


def exn(e):
    return f"{type(e).__name__}: {e}"


def version_flags(err):
    import re as _re
    flags = []
    for line in err.split("\n"):
        m = _re.match(r"^(\d+): .* instruction is not supported in Teal version", line)
        if m:
            flags.append([int(m.group(1)), "ins"])
            continue
        m = _re.match(r"^(\d+): .*, field .* is not supported in Teal version", line)
        if m:
            flags.append([int(m.group(1)), "field"])
    return flags, "program contains instructions specific to both Application and Signature Mode" in err


def teal_extra(t, err):
    flags, mixed = version_flags(err)
    import re as _re
    costs = {}
    for b in t.bbs:
        m = _re.search(r"cost = (\d+)", b.tealer_comments[0] if b.tealer_comments else "")
        if m:
            costs[str(b.idx)] = m.group(1)
    return {"flags": flags, "mixed": mixed, "costs": costs, "contract_type": str(t.contract_type)}


def handle_cfg(text):
    t, _, err = quiet(parse_teal, text)
    r = teal_fields(t)
    r.update(teal_extra(t, err))
    return r


def detector_classes():
    import inspect
    from tealer.detectors.abstract_detector import AbstractDetector

    ds = [getattr(all_detectors, n) for n in dir(all_detectors)]
    ds = [d for d in ds if inspect.isclass(d) and issubclass(d, AbstractDetector)]
    return {d.NAME: d for d in ds}


def handle_analyze(text):
    try:
        tealer, _, _ = quiet(init_tealer_from_single_contract, text, "c")
    except SystemExit as e:
        raise RuntimeError("SystemExit") from e
    teal = tealer.contracts["c"]
    res = teal_fields(teal)
    _t2, _o2, err2 = quiet(parse_teal, text)
    res.update(teal_extra(teal, err2))
    function = teal.functions["c"]
    res["fn_blocks"] = [b.idx for b in function.blocks]
    res["ctx"] = {str(b.idx): block_ctx(function, b) for b in function.blocks}
    dcs = detector_classes()
    paths = {}
    order = list(DETECTORS)
    if os.environ.get("VERIF_DETECTOR_ORDER") == "reversed_twice":
        order = list(reversed(DETECTORS)) + list(DETECTORS)
    for name in order:
        try:
            det = dcs[name](tealer)
            outs, _, _ = quiet(det.detect)
            ps = []
            for o in outs:
                ps += [[b.idx for b in p] for p in o.paths]
            paths[name] = ps
        except Exception as e:  # pylint: disable=broad-except
            paths[name] = {"err": exn(e)}
    res["paths"] = {name: paths[name] for name in DETECTORS}
    if os.environ.get("VERIF_DETECTOR_ORDER") == "reversed_twice":
        # contexts read again after all detectors ran twice: must be what they were before
        res["ctx"] = {str(b.idx): block_ctx(function, b) for b in function.blocks}
    return res


def param_json(v):
    from tealer.teal.instructions.transaction_field import TransactionField, TransactionArrayField
    from tealer.teal.global_field import GlobalField

    if v is None:
        return None
    if isinstance(v, bool):
        return v
    if isinstance(v, int):
        return str(v)
    if isinstance(v, str):
        return v
    if isinstance(v, list):
        return [param_json(x) for x in v]
    if isinstance(v, TransactionArrayField):
        return {"field": type(v).__name__, "idx": str(v.idx)}
    if hasattr(v, "version") and not isinstance(v, I.Instruction):
        return {"field": type(v).__name__}
    return repr(v)


def ctor_params(ins):
    """constructor parameters of an instruction object, recovered through the attribute names"""
    import inspect

    sig = inspect.signature(type(ins).__init__)
    out = []
    for name in list(sig.parameters)[1:]:
        cands = ["_" + name, name, "_" + name.rstrip("s"), "_idx", "_field"]
        for c in cands:
            if hasattr(ins, c):
                out.append(getattr(ins, c))
                break
        else:
            out.append("<?" + name + ">")
    return out


class FakeTeal:
    def __init__(self, version):
        self.version = version


class FakeBB:
    def __init__(self, version):
        self.teal = FakeTeal(version)


def handle_parseline(text, version):
    (ins, out, _err) = quiet(parse_line, text)
    if ins is None:
        return None
    try:
        ins.bb = FakeBB(version)
        cost = str(ins.cost)
    except Exception as e:  # pylint: disable=broad-except
        cost = exn(e)
    return {
        "cls": type(ins).__name__,
        "str": str(ins),
        "pop": ins.stack_pop_size,
        "push": ins.stack_push_size,
        "version": str(ins.version),
        "mode": {ExecutionMode.STATELESS: "Stateless", ExecutionMode.STATEFUL: "Stateful", ExecutionMode.ANY: "Any"}[ins.mode],
        "cost": cost,
    }


def function_json(tealer, teal, function):
    res = {}
    res["fn_blocks"] = [str(b.idx) for b in function.blocks]
    res["edges"] = {str(b.idx): {"next": [str(x.idx) for x in b.next], "prev": [str(x.idx) for x in b.prev]} for b in function.blocks}
    res["ctx"] = {str(b.idx): block_ctx(function, b) for b in function.blocks}
    dcs = detector_classes()
    paths = {}
    for name in DETECTORS:
        try:
            det = dcs[name](tealer)
            outs, _, _ = quiet(det.detect)
            ps = []
            for o in outs:
                ps += [[str(b.idx) for b in p] for p in o.paths]
            paths[name] = ps
        except Exception as e:  # pylint: disable=broad-except
            paths[name] = {"err": exn(e)}
    res["paths"] = paths
    return res


def handle_function(text, path_ids):
    """construct_function(teal, path); also checks that the contract's own graph is unchanged and that the
    result does not depend on which other functions were built before"""
    from tealer.tealer import Tealer
    from tealer.execution_context.transactions import Transaction, GroupTransaction
    from tealer.utils.teal_enums import ContractType

    path = ["B%s" % i for i in path_ids]
    teal, _, _ = quiet(parse_teal, text, "c")
    before = json.dumps(teal_fields(teal))
    if os.environ.get("VERIF_OTHER_FUNCTIONS_FIRST") == "1":
        quiet(construct_function, teal, ["B0"], "warmup")
    fn, _, _ = quiet(construct_function, teal, path, "f")
    after = json.dumps(teal_fields(teal))
    teal.functions = {"f": fn}
    txn = Transaction()
    if teal.contract_type == ContractType.LogicSig:
        txn.has_logic_sig = True
        txn.logic_sig = fn
    else:
        txn.application = fn
    g = GroupTransaction()
    g.transactions = [txn]
    tl = Tealer({"c": teal}, [g])
    res = function_json(tl, teal, fn)
    res["contract_graph_unchanged"] = before == after
    return res


def handle_group(text):
    """text format: see ocaml/main.ml parse_group"""
    import tempfile
    from tealer.utils.command_line.group_config import GroupConfig
    from tealer.utils.command_line.common import init_tealer_from_config

    lines = text.split("\n")
    contracts, txns, fn_names = [], [], []
    tmp = tempfile.mkdtemp(prefix="verif_group_")
    i = 0
    while i < len(lines):
        w = lines[i].split()
        if w and w[0] == "C":
            nf, nl = int(w[1]), int(w[2])
            src = "\n".join(lines[i + 1:i + 1 + nl])
            cname = f"c{len(contracts)}"
            fpath = os.path.join(tmp, cname + ".teal")
            with open(fpath, "w") as f:
                f.write(src)
            t, _, _ = quiet(parse_teal, src)
            ctype = "ApprovalProgram" if t.mode == ExecutionMode.STATEFUL else "LogicSig"
            funcs = []
            for k in range(nf):
                ids = lines[i + 1 + nl + k].split()[1:]
                fname = f"{cname}_f{k}"
                funcs.append({"name": fname, "dispatch_path": ["B" + x for x in ids]})
                fn_names.append((cname, fname, ctype))
            contracts.append({"name": cname, "file_path": fpath, "type": ctype, "version": t.version, "subroutines": [], "functions": funcs})
            i += 1 + nl + nf
        elif w and w[0] == "T":
            _, tid, ty, hl, ls, app, ab, rel = w[:8]
            d = {"txn_id": tid, "txn_type": {"Pay": "pay", "KeyReg": "keyreg", "Acfg": "acfg", "Axfer": "axfer", "Afrz": "afrz", "Appl": "appl", "Any": "txn"}[ty]}
            if hl == "1":
                d["has_logic_sig"] = True
            if ls != "-":
                c, fnn, _ = fn_names[int(ls)]
                d["logic_sig"] = {"contract": c, "function": fnn}
            if app != "-":
                c, fnn, _ = fn_names[int(app)]
                d["application"] = {"contract": c, "function": fnn}
            if ab != "-":
                d["absolute_index"] = int(ab)
            if rel != "-":
                d["relative_indexes"] = [{"other_txn_id": kv.split("=")[1], "offset": int(kv.split("=")[0])} for kv in rel.split(",")]
            txns.append(d)
            i += 1
        else:
            i += 1
    cfg = GroupConfig.from_yaml({"name": "g", "contracts": contracts, "groups": [{"operation": "op", "transactions": txns}]})
    tealer, _, _ = quiet(init_tealer_from_config, cfg)
    dcs = detector_classes()
    out = {}
    for name in DETECTORS:
        if name == "group-size-check":
            continue
        det = dcs[name](tealer)
        outs, _, _ = quiet(det.detect)
        ids = []
        for o in outs:
            ids += [t.transacton_id for t in o.transactions]
        out[name] = ids
    import shutil
    shutil.rmtree(tmp, ignore_errors=True)
    return out


def handle_multi(text):
    """C14: several contracts inside ONE Tealer object (as in group mode), detectors run in per-contract mode,
    twice; returns per detector the path lists contract by contract (first and second run)"""
    from tealer.tealer import Tealer
    from tealer.utils.teal_enums import ContractType
    from tealer.teal.parse_functions import construct_function
    from tealer.execution_context.transactions import Transaction, GroupTransaction

    srcs = text.split("\n@@----\n")
    contracts, groups = {}, []
    for k, src in enumerate(srcs):
        name = f"c{k}"
        teal, _, _ = quiet(parse_teal, src, name)
        function = construct_function(teal, ["B0"], name)
        teal.functions = {name: function}
        contracts[name] = teal
        txn = Transaction()
        if teal.contract_type == ContractType.LogicSig:
            txn.transacton_id = name
            txn.has_logic_sig = True
            txn.logic_sig = function
        else:
            txn.application = function
        group = GroupTransaction()
        group.operation_name = name
        group.transactions = [txn]
        txn.group_transaction = group
        groups.append(group)
    tealer = Tealer(contracts, groups)
    dcs = detector_classes()
    out = {}
    for name in DETECTORS:
        det = dcs[name](tealer)
        runs = []
        for _ in range(2):
            outs, _, _ = quiet(det.detect)
            runs.append([[[b.idx for b in p] for p in o.paths] for o in outs])
        out[name] = runs
    return out


def sval_json(v, depth=12):
    from tealer.analyses.utils.stack_ast_builder import UnknownStackValue

    if depth == 0:
        return "..."
    if isinstance(v, UnknownStackValue):
        return "U"
    return [v.instruction.line, v.ins_out_values_index, [sval_json(a, depth - 1) for a in v.args]]


def handle_ast(text):
    from tealer.analyses.utils.stack_ast_builder import construct_stack_ast

    teal, _, _ = quiet(parse_teal, text)
    out = {}
    for b in teal.bbs:
        try:
            ast = construct_stack_ast(b)
            out[str(b.idx)] = {str(ins.line): [sval_json(a) for a in ast[ins].args] for ins in b.instructions}
        except Exception as e:  # pylint: disable=broad-except
            out[str(b.idx)] = {"err": exn(e)}
    construct_stack_ast.cache_clear()
    return out


def handle_regex(text, label):
    from tealer.utils.regex.regex import Regex, match_regex

    pat, prog = text.split("\n@@----\n", 1)
    teal, _, _ = quiet(parse_teal, prog)
    inss = []
    for line in pat.splitlines():
        ins, _, _ = quiet(parse_line, line)
        if ins:
            inss.append(ins)
    (matches, covered), _, _ = quiet(match_regex, teal, Regex(label, inss))
    return {"matches": [[i.line for i in m] for m in matches], "covered": sorted(set(i.line for i in covered))}


NOISE = []


def main():
    inp = sys.stdin
    outp = sys.stdout
    while True:
        hdr = inp.readline()
        if not hdr:
            break
        parts = hdr.rstrip("\n").split(" ")
        if parts[0] != "@@REQ":
            continue
        kind, rid, n = parts[1], parts[2], int(parts[3])
        if os.environ.get("VERIF_ALLOC_NOISE"):
            # C14: perturb the allocation history so that object addresses (and the iteration order of sets of
            # objects hashed by identity) differ from the baseline run
            NOISE.append([object() for _ in range(997 * int(os.environ["VERIF_ALLOC_NOISE"]) + 13 * len(NOISE))])
            if len(NOISE) % 3 == 0:
                del NOISE[0]
        rest = parts[4:]
        lines = [inp.readline().rstrip("\n") for _ in range(n)]
        text = "\n".join(lines)
        try:
            if kind == "cfg":
                r = handle_cfg(text)
            elif kind == "analyze":
                r = handle_analyze(text)
            elif kind == "parseline":
                r = handle_parseline(text, int(rest[0]) if rest else 8)
            elif kind == "function":
                r = handle_function(text, rest)
            elif kind == "group":
                r = handle_group(text)
            elif kind == "ast":
                r = handle_ast(text)
            elif kind == "multi":
                r = handle_multi(text)
            elif kind == "regex":
                r = handle_regex(text, rest[0] if rest else "*")
            else:
                r = {"err": "unknown request"}
        except SystemExit:
            r = {"err": "SystemExit"}
        except BaseException as e:  # pylint: disable=broad-except
            r = {"err": exn(e)}
        outp.write(rid + "\t" + json.dumps(r) + "\n")
        outp.flush()


if __name__ == "__main__":
    main()
