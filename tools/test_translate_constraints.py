#!/venv/bin/python
"""Self-test of tools/translate_constraints.py (the regenerated constraint initialisation, Gen/ConstraintsGen.v).

(a) runs the translator on the clean source ($VERIF_REPO, default /tmp/cleanrepo) and checks that the output is the
    committed coq/Gen/ConstraintsGen.v, compiles, and that Lemmas/ConstraintsGenLemmas.v compiles against it;
(b) applies small mutations to a scratch copy of generic.py / basic_blocks.py / parse_teal.py / fee_field.py and shows
    that, for each, either the translator stops (TranslateError) or the generated Gallina differs AND
    Lemmas/ConstraintsGenLemmas.v no longer compiles against it.

Precondition: coq/ has been built (`make`); the .vo files of Model/, Gen/ (Tables, Leaves, KeysGen, SingleGen,
AssertedGen, GraphGen, SearchGen), Spec/, Lemmas/ are used.  Every coqc runs under `timeout`.  Exit status 0 iff every
row has the expected verdict.

usage: VERIF_REPO=/tmp/cleanrepo /venv/bin/python tools/test_translate_constraints.py [-v]
"""
import ast
import os
import re
import shutil
import subprocess
import sys
import tempfile

HERE = os.path.dirname(os.path.abspath(__file__))
ROOT = os.path.dirname(HERE)
COQ = os.path.join(ROOT, "coq")
PY = "/venv/bin/python"
REPO = os.environ.get("VERIF_REPO", "/tmp/cleanrepo")

GEN = "tealer/analyses/dataflow/transaction_context/generic.py"
FEE = "tealer/analyses/dataflow/transaction_context/fee_field.py"
BB = "tealer/teal/basic_blocks.py"
PT = "tealer/teal/parse_teal.py"
SB = "tealer/analyses/utils/stack_ast_builder.py"


def sh(cmd, cwd=None, env=None):
    e = dict(os.environ)
    if env:
        e.update(env)
    p = subprocess.run(cmd, shell=True, cwd=cwd, stdout=subprocess.PIPE, stderr=subprocess.STDOUT, env=e, check=False)
    return p.returncode, p.stdout.decode(errors="replace")


# ----------------------------------------------------------------------------- mutations (text -> text)
def replace_once(src, old, new):
    if src.count(old) != 1:
        raise RuntimeError(f"mutation anchor found {src.count(old)} times: " + old[:60])
    return src.replace(old, new, 1)


BRANCHES = (
    "                if len(block.next) == 1:\n"
    "                    if len(block.exit_instr.next) > 1:\n"
    "                        # the jump target is also the fall-through block: execution reaches it whatever the\n"
    "                        # result of the comparison is, so the edge carries no constraint.\n"
    "                        continue\n"
    "                    # happens when bz/bnz is the last instruction in the contract and there is no default branch\n"
    "                    default_branch = None\n"
    "                    jump_branch = block.next[0]\n"
    "                else:\n"
    "                    default_branch = block.next[0]\n"
    "                    jump_branch = block.next[1]\n"
)


def mut_always_two(src):
    """(i) default_branch = block.next[0]; jump_branch = block.next[-1], whatever the number of successors"""
    return replace_once(src, BRANCHES, "                default_branch = block.next[0]\n                jump_branch = block.next[-1]\n")


def mut_bz_swap_values(src):
    """(ii) bz: the jump branch gets true_values, the default branch false_values"""
    return replace_once(
        src,
        "                    self._path_contexts[key][jump_branch][block] = false_values\n"
        "                    # default branch is taken if the comparison is true i.e in asserted values\n"
        "                    if default_branch is not None:\n"
        "                        self._path_contexts[key][default_branch][block] = true_values\n",
        "                    self._path_contexts[key][jump_branch][block] = true_values\n"
        "                    if default_branch is not None:\n"
        "                        self._path_contexts[key][default_branch][block] = false_values\n",
    )


def mut_bz_swap_order(src):
    """(ii') bz: the default assignment is executed before the jump assignment"""
    return replace_once(
        src,
        "                    self._path_contexts[key][jump_branch][block] = false_values\n"
        "                    # default branch is taken if the comparison is true i.e in asserted values\n"
        "                    if default_branch is not None:\n"
        "                        self._path_contexts[key][default_branch][block] = true_values\n",
        "                    if default_branch is not None:\n"
        "                        self._path_contexts[key][default_branch][block] = true_values\n"
        "                    self._path_contexts[key][jump_branch][block] = false_values\n",
    )


def mut_return_unknown_const(src):
    """(iii) `return` of an int constant with unknown value treated like `return 0`"""
    return replace_once(
        src,
        "                if is_int and value == 0:\n"
        "                    for key in analysis_keys:\n"
        "                        self._block_contexts[key][block] = self._null_set(key)\n"
        "                    continue\n",
        "                if is_int:\n"
        "                    if not value:\n"
        "                        for key in analysis_keys:\n"
        "                            self._block_contexts[key][block] = self._null_set(key)\n"
        "                        continue\n",
    )


def mut_assert_false_side(src):
    """(iv) assert takes the false side"""
    return replace_once(
        src,
        "                    asserted_values, _ = self._get_asserted(key, assert_ins_arg)\n",
        "                    _, asserted_values = self._get_asserted(key, assert_ins_arg)\n",
    )


def mut_no_next_line_test(src):
    """(v) the "jump target is the next line" test removed"""
    return replace_once(
        src,
        "                    if len(block.exit_instr.next) > 1:\n"
        "                        # the jump target is also the fall-through block: execution reaches it whatever the\n"
        "                        # result of the comparison is, so the edge carries no constraint.\n"
        "                        continue\n",
        "",
    )


def mut_return_unknown_const_typed(src):
    """(iii') the same regression written with a comparison the translator accepts: `if is_int:` alone"""
    return replace_once(src, "                if is_int and value == 0:\n", "                if is_int:\n")


def mut_err_universal(src):
    """(x1) err leaves the universal set"""
    return replace_once(
        src,
        "                # if err, set possible values to NullSet()\n                for key in analysis_keys:\n"
        "                    self._block_contexts[key][block] = self._null_set(key)\n",
        "                for key in analysis_keys:\n                    self._block_contexts[key][block] = self._universal_set(key)\n",
    )


def mut_return_false_side(src):
    """(x2) return takes the false side"""
    return replace_once(
        src,
        "                    true_values, _ = self._get_asserted(key, return_ins_arg)\n",
        "                    _, true_values = self._get_asserted(key, return_ins_arg)\n",
    )


def mut_bnz_swap_values(src):
    """(x3) bnz: the jump branch gets false_values"""
    return replace_once(
        src,
        "                    self._path_contexts[key][jump_branch][block] = true_values\n"
        "                    # default branch is taken if the comparison is false i.e not in asserted values\n"
        "                    if default_branch is not None:\n"
        "                        self._path_contexts[key][default_branch][block] = false_values\n",
        "                    self._path_contexts[key][jump_branch][block] = false_values\n"
        "                    if default_branch is not None:\n"
        "                        self._path_contexts[key][default_branch][block] = true_values\n",
    )


def mut_path_init_null(src):
    """(x4) the edges are initialised with the null set"""
    return replace_once(src, "                path_context[b][block] = self._universal_set(key)\n", "                path_context[b][block] = self._null_set(key)\n")


def mut_unguarded_reset(src):
    """(x5) path_context[b] = {} without the `if b not in path_context` guard"""
    return replace_once(
        src,
        "                if b not in path_context:\n                    path_context[b] = {}\n",
        "                path_context[b] = {}\n",
    )


def mut_two_succ_swapped(src):
    """(x6) two successors: jump_branch = block.next[0], default_branch = block.next[1]"""
    return replace_once(
        src,
        "                    default_branch = block.next[0]\n                    jump_branch = block.next[1]\n",
        "                    default_branch = block.next[1]\n                    jump_branch = block.next[0]\n",
    )


def mut_assert_no_unknown_test(src):
    """(x7) assert: the UnknownStackValue test removed"""
    return replace_once(
        src,
        "                assert_ins_arg = assert_ins_stack_value.args[0]\n"
        "                if isinstance(assert_ins_arg, UnknownStackValue):\n                    continue\n",
        "                assert_ins_arg = assert_ins_stack_value.args[0]\n",
    )


def mut_return_no_zero_test(src):
    """(x8) return: the `return 0` case removed"""
    return replace_once(
        src,
        "                if is_int and value == 0:\n"
        "                    for key in analysis_keys:\n"
        "                        self._block_contexts[key][block] = self._null_set(key)\n"
        "                    continue\n",
        "",
    )


def mut_bz_unknown_continue(src):
    """(x9) bz on an unknown value: `return` replaced by the jump-side assignment of the universal set only (no-op): the
    test is inverted"""
    return replace_once(
        src,
        "            if isinstance(exit_ins_arg, UnknownStackValue):\n                return\n",
        "            if not isinstance(exit_ins_arg, UnknownStackValue):\n                return\n",
    )


def mut_assert_union(src):
    """(x10) assert: union instead of intersection"""
    return replace_once(
        src,
        "                    self._block_contexts[key][block] = self._intersection(\n                        key, present_values, asserted_values\n",
        "                    self._block_contexts[key][block] = self._union(\n                        key, present_values, asserted_values\n",
    )


def mut_exit_only_bz(src):
    """(x11) the edge constraints are computed for bz only"""
    return replace_once(src, "        if isinstance(block.exit_instr, (BZ, BNZ)):\n", "        if isinstance(block.exit_instr, BZ):\n")


def mut_prop_exit_instr(src):
    """(s1, basic_blocks.py) exit_instr returns the first instruction"""
    return replace_once(src, "        return self._instructions[-1]\n", "        return self._instructions[0]\n")


def mut_override(src):
    """(s2, fee_field.py) a subclass overrides _block_level_constraints"""
    return src + "\n\nclass Shadow(FeeField):\n    def _block_level_constraints(self, analysis_keys, block):\n        pass\n"


def mut_other_key(src):
    """(s3) a domain operation of another key"""
    return replace_once(
        src,
        "                # if err, set possible values to NullSet()\n                for key in analysis_keys:\n"
        "                    self._block_contexts[key][block] = self._null_set(key)\n",
        '                for key in analysis_keys:\n                    self._block_contexts[key][block] = self._null_set("Other")\n',
    )


def mut_while(src):
    """(s4) a statement kind outside the whitelist"""
    return replace_once(
        src,
        "        for ins in block.instructions:\n            if isinstance(ins, Assert):\n",
        "        while False:\n            pass\n        for ins in block.instructions:\n            if isinstance(ins, Assert):\n",
    )


def mut_second_pass(src):
    """(s5, parse_teal.py) second_pass no longer links bnz to its label"""
    return replace_once(src, "        if isinstance(ins, (B, BZ, BNZ)):\n            ins.add_next(labels[ins.label])\n", "        if isinstance(ins, (B, BZ)):\n            ins.add_next(labels[ins.label])\n")


def mut_other_cell(src):
    """(s6) the cell of another block is written"""
    return replace_once(
        src,
        "                # if err, set possible values to NullSet()\n                for key in analysis_keys:\n"
        "                    self._block_contexts[key][block] = self._null_set(key)\n",
        "                for key in analysis_keys:\n                    self._block_contexts[key][self._entry_block] = self._null_set(key)\n",
    )


def mut_stack_value(src):
    """(s7, stack_ast_builder.py) get_stack_value_for_ins reads the ast of another block"""
    return replace_once(src, "    return construct_stack_ast(ins.bb)[ins]\n", "    return construct_stack_ast(ins.bb.next[0])[ins]\n")


def mut_key_after_loop(src):
    """(s8) a variable bound in a key loop is used after it"""
    return replace_once(
        src,
        "        for ins in block.instructions:\n            if isinstance(ins, Assert):\n",
        "        self._block_contexts[key][block] = self._universal_set(key)\n        for ins in block.instructions:\n            if isinstance(ins, Assert):\n",
    )


# ---- twin audit (same-typed section variables written for each other, swapped argument order / tuple components)
def mut_block_init_null(src):
    """(t1) _block_level_constraints starts from the null set"""
    return replace_once(
        src,
        "        for key in analysis_keys:\n            self._block_contexts[key][block] = self._universal_set(key)\n\n        for ins in block.instructions:\n",
        "        for key in analysis_keys:\n            self._block_contexts[key][block] = self._null_set(key)\n\n        for ins in block.instructions:\n",
    )


def mut_return_zero_universal(src):
    """(t2) return 0 stores the universal set"""
    return replace_once(
        src,
        "                if is_int and value == 0:\n                    for key in analysis_keys:\n                        self._block_contexts[key][block] = self._null_set(key)\n",
        "                if is_int and value == 0:\n                    for key in analysis_keys:\n                        self._block_contexts[key][block] = self._universal_set(key)\n",
    )


def mut_return_union(src):
    """(t3) return: union instead of intersection"""
    return replace_once(
        src,
        "                    self._block_contexts[key][block] = self._intersection(\n                        key, present_values, true_values\n",
        "                    self._block_contexts[key][block] = self._union(\n                        key, present_values, true_values\n",
    )


def mut_assert_args(src):
    """(a1) assert: the two set arguments of _intersection swapped"""
    return replace_once(
        src,
        "                    self._block_contexts[key][block] = self._intersection(\n                        key, present_values, asserted_values\n",
        "                    self._block_contexts[key][block] = self._intersection(\n                        key, asserted_values, present_values\n",
    )


def mut_return_args(src):
    """(a2) return: the two set arguments of _intersection swapped"""
    return replace_once(
        src,
        "                    self._block_contexts[key][block] = self._intersection(\n                        key, present_values, true_values\n",
        "                    self._block_contexts[key][block] = self._intersection(\n                        key, true_values, present_values\n",
    )


def mut_exit_pair_swapped(src):
    """(a3) bz / bnz: the pair of _get_asserted unpacked as (false values, true values)"""
    return replace_once(
        src,
        "                true_values, false_values = self._get_asserted(key, exit_ins_arg)\n",
        "                false_values, true_values = self._get_asserted(key, exit_ins_arg)\n",
    )


def mut_gt_args(src):
    """(a4) operands of `>` swapped in the "target is the next line" test"""
    return replace_once(src, "                    if len(block.exit_instr.next) > 1:\n", "                    if 1 > len(block.exit_instr.next):\n")


def mut_is_int_pair_swapped(src):
    """(a5) the pair of is_int_push_ins unpacked the other way round"""
    return replace_once(
        src,
        "                is_int, value = is_int_push_ins(return_ins_arg.instruction)\n",
        "                value, is_int = is_int_push_ins(return_ins_arg.instruction)\n",
    )


MUTATIONS = [
    ("(i) default = next[0], jump = next[-1] always", GEN, mut_always_two),
    ("(ii) bz: values of the two assignments swapped", GEN, mut_bz_swap_values),
    ("(iii) return <unknown int> treated like return 0", GEN, mut_return_unknown_const),
    ("(iv) assert takes the false side", GEN, mut_assert_false_side),
    ("(v) \"target is the next line\" test removed", GEN, mut_no_next_line_test),
    ("(ii') bz: order of the two assignments swapped", GEN, mut_bz_swap_order),
    ("(iii') return: `if is_int:` (value not tested)", GEN, mut_return_unknown_const_typed),
    ("(x1) err leaves the universal set", GEN, mut_err_universal),
    ("(x2) return takes the false side", GEN, mut_return_false_side),
    ("(x3) bnz: values swapped", GEN, mut_bnz_swap_values),
    ("(x4) edges initialised with the null set", GEN, mut_path_init_null),
    ("(x5) unguarded path_context[b] = {}", GEN, mut_unguarded_reset),
    ("(x6) two successors: jump/default swapped", GEN, mut_two_succ_swapped),
    ("(x7) assert: unknown-value test removed", GEN, mut_assert_no_unknown_test),
    ("(x8) return: `return 0` case removed", GEN, mut_return_no_zero_test),
    ("(x9) bz: unknown-value test inverted", GEN, mut_bz_unknown_continue),
    ("(x10) assert: union for intersection", GEN, mut_assert_union),
    ("(x11) edge constraints for bz only", GEN, mut_exit_only_bz),
    ("(s1) BasicBlock.exit_instr edited", BB, mut_prop_exit_instr),
    ("(s2) subclass overrides _block_level_constraints", FEE, mut_override),
    ("(s3) domain operation of another key", GEN, mut_other_key),
    ("(s4) while statement", GEN, mut_while),
    ("(s5) parse_teal.second_pass edited", PT, mut_second_pass),
    ("(s6) cell of another block written", GEN, mut_other_cell),
    ("(s7) get_stack_value_for_ins edited", SB, mut_stack_value),
    ("(s8) `key` used outside its loop", GEN, mut_key_after_loop),
    ("(t1) TWIN block constraint starts from the null set", GEN, mut_block_init_null),
    ("(t2) TWIN return 0: universal set", GEN, mut_return_zero_universal),
    ("(t3) TWIN return: union for intersection", GEN, mut_return_union),
    ("(a1) ARGS assert: _intersection(key, y, x)", GEN, mut_assert_args),
    ("(a2) ARGS return: _intersection(key, y, x)", GEN, mut_return_args),
    ("(a3) PAIR bz/bnz: (false, true) = _get_asserted(..)", GEN, mut_exit_pair_swapped),
    ("(a4) ARGS `1 > len(..)` for `len(..) > 1`", GEN, mut_gt_args),
    ("(a5) PAIR value, is_int = is_int_push_ins(..)", GEN, mut_is_int_pair_swapped),
]
REQUIRED = 5  # the first five rows are the mutations required by the task


# ----------------------------------------------------------------------------- one run
def enclosing(vfile, line):
    name = "?"
    with open(vfile, encoding="utf-8") as f:
        for i, l in enumerate(f, 1):
            m = re.match(r"\s*(Lemma|Theorem|Corollary|Definition)\s+(\w+)", l)
            if m and i <= line:
                name = m.group(2)
            if i > line:
                break
    return name


def run_case(work, scratch, rel=None, mutate=None):
    """-> dict(translator=..., text=..., gen_ok=..., lemmas_ok=..., where=..., log=...)"""
    gen = os.path.join(work, "Gen")
    lem = os.path.join(work, "Lemmas")
    os.makedirs(gen)
    os.makedirs(lem)
    path, orig = None, None
    if mutate:
        path = os.path.join(scratch, rel)
        with open(path, encoding="utf-8") as fh:
            orig = fh.read()
        new = mutate(orig)
        if new == orig:
            raise RuntimeError("mutation did not change the source")
        ast.parse(new)  # the mutant is valid Python
        with open(path, "w", encoding="utf-8") as fh:
            fh.write(new)
    try:
        rc, out = sh(f"{PY} {HERE}/translate_constraints.py {gen}", env={"VERIF_REPO": scratch})
    finally:
        if path:
            with open(path, "w", encoding="utf-8") as fh:
                fh.write(orig)
    res = {"translator": "ok" if rc == 0 else "STOPPED", "log": out.strip().replace(scratch + "/", ""), "text": None, "gen_ok": None, "lemmas_ok": None, "where": None}
    if rc != 0:
        if rc != 2 or "translator:" not in out:
            res["translator"] = "CRASHED"
        return res
    with open(os.path.join(gen, "ConstraintsGen.v"), encoding="utf-8") as fh:
        res["text"] = fh.read()
    # the other generated files are taken (compiled) from the built tree
    for f in ("Tables.vo", "Leaves.vo", "KeysGen.vo", "SingleGen.vo", "AssertedGen.vo", "GraphGen.vo", "SearchGen.vo"):
        os.symlink(os.path.join(COQ, "Gen", f), os.path.join(gen, f))
    lemv = os.path.join(lem, "ConstraintsGenLemmas.v")
    shutil.copy(os.path.join(COQ, "Lemmas", "ConstraintsGenLemmas.v"), lemv)
    q = f"-Q {COQ}/Model Tealer -Q {gen} Tealer -Q {COQ}/Spec Tealer -Q {COQ}/Lemmas Tealer"
    rc, out = sh(f"timeout 300 coqc {q} {gen}/ConstraintsGen.v 2>&1")
    res["gen_ok"] = rc == 0
    res["log"] += "\n" + out[-1500:]
    if rc == 0:
        rc, out = sh(f"timeout 900 coqc {q} {lemv} 2>&1")
        res["lemmas_ok"] = rc == 0
        res["log"] += "\n" + out[-1500:]
        if rc != 0:
            m = re.search(r"line (\d+), characters", out)
            res["where"] = f"{enclosing(lemv, int(m.group(1)))} (line {m.group(1)})" if m else ("timeout" if rc == 124 else "?")
    return res


def main():
    verbose = "-v" in sys.argv
    for f in ("Model/Analysis.vo", "Gen/KeysGen.vo", "Gen/AssertedGen.vo", "Gen/GraphGen.vo", "Lemmas/GraphGenLemmas.vo", "Lemmas/EdgeRepair.vo", "Lemmas/CutExec.vo"):
        if not os.path.exists(os.path.join(COQ, f)):
            print(f"precondition: {COQ}/{f} missing -- build coq/ first (make)")
            sys.exit(3)
    top = tempfile.mkdtemp(prefix="tconstr_")
    scratch = os.path.join(top, "repo")
    shutil.copytree(os.path.join(REPO, "tealer"), os.path.join(scratch, "tealer"), ignore=shutil.ignore_patterns("__pycache__"))
    rows = []
    ok = True
    try:
        base = run_case(os.path.join(top, "base"), scratch)
        same = None
        cur = os.path.join(COQ, "Gen", "ConstraintsGen.v")
        if base["text"] is not None and os.path.exists(cur):
            with open(cur, encoding="utf-8") as fh:
                same = fh.read() == base["text"]
        good = base["translator"] == "ok" and base["gen_ok"] and base["lemmas_ok"] and same is True
        ok &= bool(good)
        rows.append(("(a) clean source", base["translator"], "= coq/Gen/ConstraintsGen.v" if same else ("DIFFERS from coq/Gen" if same is False else "-"), base["gen_ok"], base["lemmas_ok"], "PASS" if good else "FAIL"))
        if verbose or not good:
            print(base["log"])
        for i, (name, rel, fn) in enumerate(MUTATIONS):
            r = run_case(os.path.join(top, f"m{i}"), scratch, rel, fn)
            if r["translator"] == "STOPPED":
                verdict, good, diff = "caught: translator stops", True, "-"
            elif r["translator"] == "CRASHED":
                verdict, good, diff = "FAIL: translator crashed", False, "-"
            else:
                differs = r["text"] != base["text"]
                diff = "differs" if differs else "IDENTICAL"
                if differs and r["gen_ok"] and r["lemmas_ok"] is False:
                    verdict, good = f"caught: lemmas break in {r['where']}", True
                elif differs and not r["gen_ok"]:
                    verdict, good = "caught: ConstraintsGen.v ill-typed", True
                else:
                    verdict, good = "FAIL: NOT DETECTED", False
            ok &= good
            rows.append((name, r["translator"], diff, r["gen_ok"], r["lemmas_ok"], verdict))
            if verbose or not good:
                print(f"--- {name}\n{r['log']}\n")
            elif r["translator"] == "STOPPED":
                print(f"--- {name}: {r['log'].splitlines()[0][:260]}")
    finally:
        shutil.rmtree(top, ignore_errors=True)
    hdr = ("case", "translator", "generated Gallina", "ConstraintsGen.v compiles", "ConstraintsGenLemmas.v compiles", "verdict")
    fmt = lambda x: "-" if x is None else ("yes" if x is True else ("NO" if x is False else str(x)))  # noqa: E731
    table = [hdr] + [tuple(fmt(c) for c in r) for r in rows]
    widths = [max(len(r[i]) for r in table) for i in range(len(hdr))]
    print()
    for k, r in enumerate(table):
        print(" | ".join(c.ljust(w) for c, w in zip(r, widths)))
        if k == 0:
            print("-+-".join("-" * w for w in widths))
    print("\nRESULT:", "all mutations caught, clean source accepted" if ok else "FAILURE")
    sys.exit(0 if ok else 1)


if __name__ == "__main__":
    main()
