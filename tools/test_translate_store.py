#!/venv/bin/python
"""Self-test of tools/translate_store.py (the regenerated result-storing / reading layer, Gen/StoreGen.v).

(a) runs the translator on the clean source ($VERIF_REPO, default /tmp/cleanrepo) and checks that the output
    compiles, equals coq/Gen/StoreGen.v when that exists, and that Lemmas/StoreGenLemmas.v compiles against it
    (positive control);
(b) applies small mutations to a scratch copy of the Python sources and shows that, for each, either the translator
    stops (TranslateError) or the generated Gallina differs AND Lemmas/StoreGenLemmas.v no longer compiles against it.

Precondition: coq/ has been built (`make`): the .vo files of Model/, Gen/, Spec/, Lemmas/ are used.
Every coqc runs under `timeout`.  Exit status 0 iff every row has the expected verdict.
"""
import ast
import os
import shutil
import subprocess
import sys
import tempfile

HERE = os.path.dirname(os.path.abspath(__file__))
ROOT = os.path.dirname(HERE)
COQ = os.path.join(ROOT, "coq")
PY = "/venv/bin/python"
REPO = os.environ.get("VERIF_REPO", "/repo")

BTC = "tealer/teal/context/block_transaction_context.py"
FN = "tealer/teal/functions.py"
AF = "tealer/analyses/dataflow/transaction_context/addr_fields.py"
FF = "tealer/analyses/dataflow/transaction_context/fee_field.py"
TT = "tealer/analyses/dataflow/transaction_context/txn_types.py"
KH = "tealer/analyses/dataflow/transaction_context/utils/key_helpers.py"
NEEDED = [BTC, FN, AF, FF, TT, KH]
JOBS = int(os.environ.get("VERIF_JOBS", "6"))


def sh(cmd, cwd=None, env=None):
    e = dict(os.environ)
    if env:
        e.update(env)
    p = subprocess.run(cmd, shell=True, cwd=cwd, stdout=subprocess.PIPE, stderr=subprocess.STDOUT, env=e, check=False)
    return p.returncode, p.stdout.decode(errors="replace")


# ----------------------------------------------------------------------------- mutations (text -> text)
def replace_n(src, old, new, n=1):
    if src.count(old) != n:
        raise RuntimeError(f"mutation anchor found {src.count(old)} times, expected {n}: {old[:60]}")
    return src.replace(old, new)


def in_class(src, cls, old, new):
    """replace `old` once inside the text of class `cls`"""
    i = src.index(f"\nclass {cls}(")
    j = src.index("\nclass ", i + 1)
    body = src[i:j]
    if body.count(old) != 1:
        raise RuntimeError(f"mutation anchor found {body.count(old)} times in class {cls}: {old[:60]}")
    return src[:i] + body.replace(old, new) + src[j:]


def in_function(src, name, old, new):
    """replace `old` once inside the text of the top-level function `name`"""
    i = src.index(f"\ndef {name}(")
    j = src.find("\ndef ", i + 1)
    j = len(src) if j < 0 else j
    body = src[i:j]
    if body.count(old) != 1:
        raise RuntimeError(f"mutation anchor found {body.count(old)} times in function {name}: {old[:60]}")
    return src[:i] + body.replace(old, new) + src[j:]



def in_method(src, name, old, new, n=1):
    """replace `old` n times inside the text of the method `name` (up to the next def at the same indentation)"""
    i = src.index(f"    def {name}(")
    j = src.find("\n    def ", i + 1)
    j = len(src) if j < 0 else j
    body = src[i:j]
    if body.count(old) != n:
        raise RuntimeError(f"mutation anchor found {body.count(old)} times in {name}: {old[:60]}")
    return src[:i] + body.replace(old, new) + src[j:]


# --- block_transaction_context.py
def m_gtxn_reads_abs(s):
    return in_method(s, "gtxn_context", "return self._gtxn_at_index_context[txn_index]", "return self._abs_context[txn_index]")


def m_rel_mirrored(s):
    return in_method(s, "relative_context", "return self._relative_context[offset]", "return self._relative_context[-offset]")


def m_rel_off_by_one(s):
    return in_method(s, "relative_context", "return self._relative_context[offset]", "return self._relative_context[offset + 1]")


def m_abs_shifted(s):
    return in_method(s, "absolute_context", "return self._abs_context[txn_index]", "return self._abs_context[txn_index - 1]")


def m_init_abs_15(s):
    return replace_n(s, "self._abs_context = [BlockTransactionContext(True) for _ in range(MAX_GROUP_SIZE)]", "self._abs_context = [BlockTransactionContext(True) for _ in range(MAX_GROUP_SIZE - 1)]")


def m_init_rel_zero(s):
    return replace_n(s, "                if offset != 0\n", "")


def m_init_alias(s):
    return replace_n(s, "self._abs_context = [BlockTransactionContext(True) for _ in range(MAX_GROUP_SIZE)]", "self._abs_context = [BlockTransactionContext(True)] * MAX_GROUP_SIZE")


def m_init_unknown_default(s):
    return replace_n(s, "self.max_fee_unknown: bool = False", "self.max_fee_unknown: bool = True")


def m_addr_default(s):
    return replace_n(s, "    any_addr: bool = True\n", "    any_addr: bool = False\n")


def m_init_rel_range(s):
    return replace_n(s, "for offset in range(-(MAX_GROUP_SIZE - 1), MAX_GROUP_SIZE)\n", "for offset in range(-MAX_GROUP_SIZE, MAX_GROUP_SIZE)\n")


# --- fee_field.py
def m_fee_sign(s):
    return in_method(s, "_store_results", "                    self._function.transaction_context(block).relative_context(\n                        offset\n                    ).max_fee = rel_max_fee.value", "                    self._function.transaction_context(block).relative_context(\n                        -offset\n                    ).max_fee = rel_max_fee.value")


def m_fee_range15(s):
    return in_method(s, "_store_results", "for idx in range(MAX_GROUP_SIZE):", "for idx in range(15):")


def m_fee_keys_swapped(s):
    return in_method(s, "_store_results", "abs_max_fee = self._block_contexts[get_absolute_index_key(idx, FEE_KEY)][block]", "abs_max_fee = self._block_contexts[get_gtxn_at_index_key(idx, FEE_KEY)][block]")


def m_fee_rel_key_shift(s):
    return in_method(s, "_store_results", "get_relative_index_key(offset, FEE_KEY)", "get_relative_index_key(offset + 1, FEE_KEY)")


def m_fee_unknown_dropped(s):
    return in_method(s, "_store_results", "                self._function.transaction_context(block).max_fee_unknown = True\n", "                self._function.transaction_context(block).max_fee = max_fee.value\n")


def m_fee_break(s):
    return in_method(s, "_store_results", "                if offset == 0:\n                    continue\n", "                if offset == 0:\n                    break\n")


def m_fee_no_skip(s):
    return in_method(s, "_store_results", "                if offset == 0:\n                    continue\n", "")


def m_fee_rel_range(s):
    return in_method(s, "_store_results", "for offset in range(-(MAX_GROUP_SIZE - 1), MAX_GROUP_SIZE):", "for offset in range(-(MAX_GROUP_SIZE - 1), MAX_GROUP_SIZE - 1):")


def m_fee_target_swapped(s):
    return in_method(s, "_store_results", "                    self._function.transaction_context(block).absolute_context(\n                        idx\n                    ).max_fee = abs_max_fee.value", "                    self._function.transaction_context(block).gtxn_context(\n                        idx\n                    ).max_fee = abs_max_fee.value")


def m_fee_wrong_var(s):
    return in_method(s, "_store_results", ").max_fee = abs_max_fee.value", ").max_fee = max_fee.value")


# --- txn_types.py
def m_type_wrong_values(s):
    return in_method(s, "_store_results", ").transaction_types = list(abs_values)", ").transaction_types = list(values)")


def m_type_head_key(s):
    return in_method(s, "_store_results", "transaction_type_context = self._block_contexts[self.TRANSACTION_TYPE_KEY]", "transaction_type_context = self._block_contexts[get_absolute_index_key(0, self.TRANSACTION_TYPE_KEY)]")


def m_type_rel_mirror_key(s):
    return in_method(s, "_store_results", "get_relative_index_key(offset, self.TRANSACTION_TYPE_KEY)", "get_relative_index_key(-offset, self.TRANSACTION_TYPE_KEY)")


# --- addr_fields.py
def m_addr_sender_rekey(s):
    return in_method(s, "_store_results", "(SENDER_KEY, lambda ctx: ctx.sender)", "(SENDER_KEY, lambda ctx: ctx.rekeyto)")


def m_addr_range15(s):
    return in_method(s, "_store_results", "for idx in range(16):", "for idx in range(15):")


def m_addr_no_marker(s):
    return in_method(s, "_set_addr_values", "ctx_addr_value.no_addr = NO_ADDRESS in addr_values", "ctx_addr_value.no_addr = ANY_ADDRESS in addr_values")


def m_addr_possible_all(s):
    return in_method(s, "_set_addr_values", "list(addr_values - set([ANY_ADDRESS, NO_ADDRESS]))", "list(addr_values)")


def m_addr_base_keys_inverted(s):
    return in_method(s, "_store_results", "if key not in self.BASE_KEYS:", "if key in self.BASE_KEYS:")


def m_addr_break(s):
    return in_method(s, "_store_results", "                    if offset == 0:\n                        continue\n", "                    if offset == 0:\n                        break\n")


def m_addr_key_continue_break(s):
    return in_method(s, "_store_results", "            if key not in self.BASE_KEYS:\n                continue\n", "            if key not in self.BASE_KEYS:\n                break\n")


def m_addr_abs_from_gtxn(s):
    return in_method(s, "_store_results", "                        abs_addr_values,\n", "                        addr_values,\n")


def m_addr_tx_fields(s):
    return replace_n(s, "    ASSET_CLOSE_TO_KEY,\n    SENDER_KEY,\n]", "    ASSET_CLOSE_TO_KEY,\n]")


def m_addr_keys_swapped(s):
    return in_method(s, "_store_results", "addr_values = self._block_contexts[get_gtxn_at_index_key(idx, key)][block]", "addr_values = self._block_contexts[get_absolute_index_key(idx, key)][block]")


# --- key_helpers.py / functions.py
def m_key_format(s):
    return replace_n(s, 'return f"GTXN_ABS_{idx:02d}_{base_key}"', 'return f"GTXN_ABS_{idx}_{base_key}"')


def m_function_shared_ctx(s):
    return replace_n(s, "            block: BlockTransactionContext() for block in self._blocks\n", "            block: BlockTransactionContext(False) for block in self._blocks[:1]\n")


ST, GEN = "STOPPED", "ok"
MUTATIONS = [
    ("(c1) gtxn_context returns the absolute context", BTC, m_gtxn_reads_abs, ST),
    ("(c2) relative_context mirrored (-offset)", BTC, m_rel_mirrored, GEN),
    ("(c3) relative_context off by one (offset + 1)", BTC, m_rel_off_by_one, GEN),
    ("(c4) absolute_context shifted (txn_index - 1)", BTC, m_abs_shifted, GEN),
    ("(c5) __init__: 15 absolute contexts", BTC, m_init_abs_15, GEN),
    ("(c6) __init__: relative dictionary keeps offset 0", BTC, m_init_rel_zero, GEN),
    ("(c7) __init__: [ctx] * 16 (one shared object)", BTC, m_init_alias, ST),
    ("(c8) __init__: max_fee_unknown defaults to True", BTC, m_init_unknown_default, GEN),
    ("(c9) AddrFieldValue.any_addr defaults to False", BTC, m_addr_default, GEN),
    ("(c10) __init__: relative offsets from -16", BTC, m_init_rel_range, GEN),
    ("(f1) fee: offset sign flipped in relative_context", FF, m_fee_sign, GEN),
    ("(f2) fee: range(15) instead of range(MAX_GROUP_SIZE)", FF, m_fee_range15, GEN),
    ("(f3) fee: absolute value read from the at-index key", FF, m_fee_keys_swapped, GEN),
    ("(f4) fee: relative key off by one", FF, m_fee_rel_key_shift, GEN),
    ("(f5) fee: max_fee_unknown dropped (head)", FF, m_fee_unknown_dropped, GEN),
    ("(f6) fee: continue turned into break", FF, m_fee_break, ST),
    ("(f7) fee: offset 0 not skipped", FF, m_fee_no_skip, GEN),
    ("(f8) fee: offset 15 not stored", FF, m_fee_rel_range, GEN),
    ("(f9) fee: absolute value stored into gtxn_context", FF, m_fee_target_swapped, GEN),
    ("(f10) fee: absolute slot gets the at-index value", FF, m_fee_wrong_var, GEN),
    ("(t1) types: absolute slot gets the at-index values", TT, m_type_wrong_values, GEN),
    ("(t2) types: head reads the GTXN_ABS_00 key", TT, m_type_head_key, GEN),
    ("(t3) types: relative key mirrored", TT, m_type_rel_mirror_key, GEN),
    ("(a1) addr: sender read from / written to rekeyto", AF, m_addr_sender_rekey, GEN),
    ("(a2) addr: range(15) instead of range(16)", AF, m_addr_range15, GEN),
    ("(a3) addr: no_addr tests ANY_ADDRESS", AF, m_addr_no_marker, GEN),
    ("(a4) addr: markers stay in possible_addr", AF, m_addr_possible_all, GEN),
    ("(a5) addr: BASE_KEYS test inverted", AF, m_addr_base_keys_inverted, GEN),
    ("(a6) addr: continue turned into break (offset 0)", AF, m_addr_break, ST),
    ("(a7) addr: continue turned into break (BASE_KEYS)", AF, m_addr_key_continue_break, ST),
    ("(a8) addr: absolute slot gets the at-index values", AF, m_addr_abs_from_gtxn, GEN),
    ("(a9) addr: Sender dropped from TX_FIELDS / BASE_KEYS", AF, m_addr_tx_fields, GEN),
    ("(a10) addr: at-index values read from the absolute key", AF, m_addr_keys_swapped, GEN),
    ("(k1) key_helpers: GTXN_ABS_ without zero padding", KH, m_key_format, ST),
    ("(k2) Function.__init__: contexts only for the first block", FN, m_function_shared_ctx, ST),
]


# ----------------------------------------------------------------------------- one run
def prepare_repo(dst, rel=None, mutate=None):
    for f in NEEDED:
        os.makedirs(os.path.dirname(os.path.join(dst, f)), exist_ok=True)
        shutil.copy(os.path.join(REPO, f), os.path.join(dst, f))
    if mutate:
        path = os.path.join(dst, rel)
        with open(path, encoding="utf-8") as fh:
            src = fh.read()
        new = mutate(src)
        if new == src:
            raise RuntimeError("mutation did not change the source")
        ast.parse(new)  # the mutant is valid Python
        with open(path, "w", encoding="utf-8") as fh:
            fh.write(new)


def run_case(work, rel=None, mutate=None):
    repo, gen, lem = os.path.join(work, "repo"), os.path.join(work, "Gen"), os.path.join(work, "Lemmas")
    os.makedirs(gen)
    os.makedirs(lem)
    prepare_repo(repo, rel, mutate)
    rc, out = sh(f"{PY} {HERE}/translate_store.py {gen}", env={"VERIF_REPO": repo})
    res = {"translator": "ok" if rc == 0 else "STOPPED", "log": out.strip(), "text": None, "gen_ok": None, "lemmas_ok": None}
    if rc != 0:
        if rc != 2 or "translator:" not in out:
            res["translator"] = "CRASHED"
        return res
    with open(os.path.join(gen, "StoreGen.v"), encoding="utf-8") as fh:
        res["text"] = fh.read()
    # every other generated file is taken (compiled) from the built tree
    for f in os.listdir(os.path.join(COQ, "Gen")):
        if f.endswith(".vo") and f != "StoreGen.vo":
            os.symlink(os.path.join(COQ, "Gen", f), os.path.join(gen, f))
    shutil.copy(os.path.join(COQ, "Lemmas", "StoreGenLemmas.v"), os.path.join(lem, "StoreGenLemmas.v"))
    # the scratch Lemmas directory comes first: StoreGenLemmas is taken from there, everything else from the built tree
    q = f"-Q {COQ}/Model Tealer -Q {gen} Tealer -Q {COQ}/Spec Tealer -Q {COQ}/Lemmas Tealer"
    rc, out = sh(f"timeout 300 coqc {q} {gen}/StoreGen.v 2>&1")
    res["gen_ok"] = rc == 0
    res["log"] += "\n" + out[-1500:]
    if rc == 0:
        rc, out = sh(f"timeout 1500 coqc {q} -Q {lem} Scratch {lem}/StoreGenLemmas.v 2>&1")
        res["lemmas_ok"] = rc == 0
        res["log"] += "\n" + out[-1500:]
    return res


def main():
    verbose = "-v" in sys.argv
    for f in ("Model/Keys.vo", "Model/Detect.vo", "Gen/RunGen.vo", "Gen/SolverGen.vo", "Lemmas/RunGenLemmas.vo"):
        if not os.path.exists(os.path.join(COQ, f)):
            print(f"precondition: {COQ}/{f} missing -- build coq/ first (make)")
            sys.exit(3)
    top = tempfile.mkdtemp(prefix="tstore_")
    rows = []
    ok = True
    try:
        base = run_case(os.path.join(top, "base"))
        same = None
        cur = os.path.join(COQ, "Gen", "StoreGen.v")
        if base["text"] is not None and os.path.exists(cur):
            with open(cur, encoding="utf-8") as fh:
                same = fh.read() == base["text"]
        good = base["translator"] == "ok" and base["gen_ok"] and base["lemmas_ok"] and same is not False
        ok &= bool(good)
        rows.append(("(a) clean source", base["translator"], "= coq/Gen/StoreGen.v" if same else ("DIFFERS from coq/Gen" if same is False else "-"), base["gen_ok"], base["lemmas_ok"], "PASS" if good else "FAIL"))
        if verbose or not good:
            print(base["log"])
        from concurrent.futures import ThreadPoolExecutor

        with ThreadPoolExecutor(max_workers=JOBS) as ex:
            futs = [ex.submit(run_case, os.path.join(top, f"m{i}"), rel, fn) for i, (name, rel, fn, expect) in enumerate(MUTATIONS)]
            results = [fu.result() for fu in futs]
        for i, (name, rel, fn, expect) in enumerate(MUTATIONS):
            r = results[i]
            if r["translator"] == "STOPPED":
                verdict, good, diff = "caught: translator stops", True, "-"
            elif r["translator"] == "CRASHED":
                verdict, good, diff = "FAIL: translator crashed", False, "-"
            else:
                differs = r["text"] != base["text"]
                diff = "differs" if differs else "IDENTICAL"
                if differs and r["gen_ok"] and r["lemmas_ok"] is False:
                    verdict, good = "caught: Gallina differs, lemmas break", True
                elif differs and not r["gen_ok"]:
                    verdict, good = "caught: Gallina differs, StoreGen.v ill-typed", True
                else:
                    verdict, good = "FAIL: NOT DETECTED", False
            if good and r["translator"] != expect:
                verdict += f" (expected translator: {expect})"
            ok &= good
            rows.append((name, r["translator"], diff, r["gen_ok"], r["lemmas_ok"], verdict))
            if verbose or not good:
                print(f"--- {name}\n{r['log']}\n")
            elif r["translator"] == "STOPPED":
                print(f"--- {name}: {r['log'].splitlines()[0][:230]}")
            elif r["lemmas_ok"] is False:
                err = [l for l in r["log"].splitlines() if l.startswith("File ") and "StoreGenLemmas" in l]
                print(f"--- {name}: coqc StoreGenLemmas.v fails at {err[-1] if err else '?'}")
    finally:
        shutil.rmtree(top, ignore_errors=True)
    hdr = ("case", "translator", "generated Gallina", "StoreGen.v compiles", "StoreGenLemmas.v compiles", "verdict")
    fmt = lambda x: "-" if x is None else ("yes" if x is True else ("NO" if x is False else str(x)))  # noqa: E731
    table = [hdr] + [tuple(fmt(c) for c in r) for r in rows]
    widths = [max(len(r[i]) for r in table) for i in range(len(hdr))]
    print()
    for k, r in enumerate(table):
        print(" | ".join(c.ljust(w) for c, w in zip(r, widths)))
        if k == 0:
            print("-+-".join("-" * w for w in widths))
    print("\nRESULT:", "all mutations caught, clean source accepted" if ok else "FAILURE")
    sys.exit(0 if ok else 1)


if __name__ == "__main__":
    main()
