"""Statement-by-statement translation of tealer's per-domain comparison WRAPPERS into Gallina (Gen/SingleGen.v).

Translated (in this order):
  fee_field.py   _mirrored_comparison, FeeField._get_asserted_fee, FeeField._get_asserted_single
  int_fields.py  GroupIndices._get_asserted_groupsizes/_get_asserted_groupindices/_get_asserted_single
  txn_types.py   _known_constant, TxnType._get_asserted_transaction_types, TxnType._get_asserted_single
  addr_fields.py AddrFields._get_asserted_address, AddrFields._get_asserted_txn_gtxn, AddrFields._get_asserted_single

The wrappers are translated into the exception monad `option`: `None` models a Python exception
(IndexError of `args[i]`, AttributeError of `<unknown value>.instruction` / `None.attr`, a str/None used as int).
Python locals become `let`s (an assignment rebinds), a variable first bound to None and assigned conditionally
becomes an `option` (or the `PvNone` of `pyval`) threaded through, several fall-through paths of an `if` meet
in a local join function `kN` taking the variables assigned in the branches.

Supported subset (anything else -> TranslateError):
  statements : `x = e`, `x: T = e`, `a, b = e`, `a, b = e1, e2`, `if`/`elif`/`else`, `return e`,
               `try: return f(v) / except KeyError: return None` (only as the whole body of _known_constant)
  expressions: whitelisted names / attribute texts, None/int/str constants, and/or/not, `is None`, `is not None`,
               `==` (str,str | value,int), tuples, f"{A}_{ins}", `X.args[i]`, `v.instruction`, `ins.addr`,
               isinstance(v, UnknownStackValue), isinstance(ins, C | (C1,..)) for the whitelisted instruction
               classes, isinstance(ins.field, F) (only after isinstance(ins, Global|Txn) in the same test),
               isinstance(value, int), is_value_matches_key(key, v[, F]), is_int_push_ins(ins),
               FeeValue(...), C() for a comparison class, set([..]), set(x), list(x), set(a) - set(b),
               TealerTransactionType.X, and calls of the whitelisted functions/methods.
"""
import ast
import os

from tcommon import TranslateError, fail, parse, strip_doc, coq_str, T

TC = "analyses/dataflow/transaction_context"

# instruction classes usable in isinstance / as constructors, with the model constructor (pattern)
INS_CTORS = {
    "Eq": "IEq",
    "Neq": "INeq",
    "Less": "ILess",
    "LessE": "ILessE",
    "Greater": "IGreater",
    "GreaterE": "IGreaterE",
    "Not": "INot",
    "Global": "IGlobal _",
    "Txn": "ITxn _",
    "Addr": "IAddr _",
}
CMP_CLASSES = ("Eq", "Neq", "Less", "LessE", "Greater", "GreaterE")
INS_MODULE = "tealer.teal.instructions.instructions"
# instruction classes with a `.field`, and the module their field classes come from
FIELD_OWNER = {"Global": "tealer.teal.global_field", "Txn": "tealer.teal.instructions.transaction_field"}
EXPECTED_IMPORT = {
    "UnknownStackValue": "tealer.analyses.utils.stack_ast_builder",
    "is_value_matches_key": "tealer.analyses.dataflow.transaction_context.utils.key_helpers",
    "is_int_push_ins": "tealer.utils.analyses",
    "TealerTransactionType": "tealer.utils.teal_enums",
}

COQTY = {
    "instr": "instr",
    "sval": "sval",
    "bool": "bool",
    "pyval": "pyval",
    "fee": "feeval",
    "str": "string",
    "sset": "sset",
    "lset": "list string",
    "zset": "list Z",
    "Z": "Z",
    "cmpop": "cmpop",
}

RESERVED = {
    "intcs", "fam", "op", "pos", "args", "fld", "size", "in", "at", "as", "fun", "let", "match", "end", "if", "then",
    "else", "return", "with", "forall", "exists", "fix", "for", "Some", "None", "tt", "true", "false",
    # identifiers the generated terms refer to
    "op_of", "value_matches", "nth_error", "mkFee", "set_diff", "zset_diff", "set_of_list", "cmpop_of", "field_isa",
    "addr_of", "sv_is_unknown", "opt_is_none", "py_is_int_push_ins", "pv_is_none", "pv_is_int", "pv_as_int", "pv_eq_int",
    "str_of_instr", "negb", "andb", "orb", "SKnown", "SUnknown", "PvNone", "MAX_UINT64z",
}  # fmt: skip


def coqty(t):
    if t.startswith("opt:"):
        return f"option ({coqty(t[4:])})"
    if t.startswith("tup:"):
        return "(" + " * ".join(coqty(x) for x in t[4:].split(",")) + ")"
    if t not in COQTY:
        raise TranslateError(f"translator: no Coq type for {t}")
    return COQTY[t]


def unify(path, node, a, b):
    if a is None:
        return b
    if a == b:
        return a
    if a == "none":
        a, b = b, a
    if b == "none":
        if a == "pyval" or a.startswith("opt:"):
            return a
        return "opt:" + a
    if a == "opt:" + b:
        return a
    if b == "opt:" + a:
        return b
    fail(path, node, f"variable used with incompatible types {a} / {b}")


class Env:
    """translation context of one function"""

    def __init__(self, path, imports, names, funcs, settype, ret, monadic, keybase=None):
        self.path = path
        self.imports = imports  # imported name -> module
        self.names = names  # python expression text -> (coq term, type)
        self.funcs = funcs  # python callee text -> spec dict
        self.settype = settype  # type of set(...) values in this domain: zset | lset | sset
        self.ret = ret  # result type
        self.monadic = monadic  # result is wrapped in option (exception monad)
        self.keybase = keybase  # coq term of the base field name of `key`
        self.vt = {}  # local variable -> type (whole function)
        self.locals = frozenset()
        self.facts = frozenset()  # (variable, instruction class) established by enclosing isinstance tests
        self.counter = [0, 0]  # fresh temporaries, join functions
        self.dry = False

    def sub(self, locals_=None, facts=None):
        e = Env.__new__(Env)
        e.__dict__.update(self.__dict__)
        if locals_ is not None:
            e.locals = locals_
        if facts is not None:
            e.facts = facts
        return e

    def need_import(self, node, name, module):
        if self.imports.get(name) != module:
            fail(self.path, node, f"{name} is not imported from {module}")


def partial(env, node, pre, term):
    """sequence a partial (option-valued) term before the current statement; returns the bound temporary"""
    if pre is None:
        fail(env.path, node, "partial expression (may raise) in a position where it cannot be sequenced: " + ast.unparse(node)[:60])
    env.counter[0] += 1
    v = f"t{env.counter[0]}"
    pre.append((v, term))
    return v


def coerce(env, node, t, ty, want, pre):
    if want is None or ty == want:
        return t
    if ty == "none":
        if want == "pyval":
            return "PvNone"
        if want.startswith("opt:"):
            return "None"
    if want == "opt:" + ty:
        return f"(Some {t})"
    if ty == "opt:" + want:
        return partial(env, node, pre, t)  # attribute access / use of None raises
    if ty == "pyval" and want == "Z":
        return partial(env, node, pre, f"(pv_as_int {t})")  # a str/None where an int is needed raises
    if ty == "instr" and want == "cmpop":
        return f"(cmpop_of {t})"
    fail(env.path, node, f"type {ty} where {want} is expected: {ast.unparse(node)[:60]}")


def exw(env, e, want, pre):
    """translate e and coerce it to type `want`"""
    if isinstance(e, ast.Tuple) and want is not None and want.startswith("tup:"):
        ws = want[4:].split(",")
        if len(ws) != len(e.elts):
            fail(env.path, e, "tuple arity")
        return "(" + ", ".join(exw(env, x, w, pre) for x, w in zip(e.elts, ws)) + ")"
    t, ty = ex(env, e, pre)
    return coerce(env, e, t, ty, want, pre)


def conj_facts(test):
    out = set()
    if isinstance(test, ast.BoolOp) and isinstance(test.op, ast.And):
        for v in test.values:
            out |= conj_facts(v)
    elif isinstance(test, ast.Call) and ast.unparse(test.func) == "isinstance" and len(test.args) == 2:
        if isinstance(test.args[0], ast.Name) and isinstance(test.args[1], ast.Name):
            out.add((test.args[0].id, test.args[1].id))
    return out


def ex(env, e, pre):
    """returns (coq term, type); partial sub-expressions are pushed on `pre` (None = not allowed here)"""
    p = env.path
    u = ast.unparse(e)
    if not isinstance(e, ast.Name) and u in env.names:
        return env.names[u]
    if isinstance(e, ast.Constant):
        if e.value is None:
            return "None", "none"
        if e.value is True or e.value is False:
            return ("true" if e.value else "false"), "bool"
        if isinstance(e.value, int):
            return f"({e.value})%Z", "Z"
        if isinstance(e.value, str):
            return coq_str(e.value), "str"
        fail(p, e, "constant")
    if isinstance(e, ast.Name):
        if e.id in env.vt and (env.dry or e.id in env.locals):
            return e.id, env.vt[e.id]
        if e.id in env.names:
            return env.names[e.id]
        fail(p, e, f"unknown name {e.id}")
    if isinstance(e, ast.Attribute):
        if isinstance(e.value, ast.Name) and e.value.id == "TealerTransactionType":
            env.need_import(e, "TealerTransactionType", EXPECTED_IMPORT["TealerTransactionType"])
            if e.attr not in env.names.get("#enum", ()):
                fail(p, e, "unknown TealerTransactionType member")
            return coq_str(e.attr), "str"
        if e.attr == "instruction":
            t, ty = ex(env, e.value, pre)
            if ty != "sval":
                fail(p, e, ".instruction of a non stack value")
            return partial(env, e, pre, f"(op_of {t})"), "instr"
        if e.attr == "addr" and isinstance(e.value, ast.Name):
            t, ty = ex(env, e.value, pre)
            if ty != "instr" or (e.value.id, "Addr") not in env.facts:
                fail(p, e, ".addr without a preceding isinstance(.., Addr)")
            return f"(addr_of {t})", "str"
        fail(p, e, f"attribute {u}")
    if isinstance(e, ast.Subscript):
        t, ty = ex(env, e.value, pre)
        if ty == "svlist" and isinstance(e.slice, ast.Constant) and isinstance(e.slice.value, int) and e.slice.value >= 0:
            return partial(env, e, pre, f"(nth_error {t} {e.slice.value})"), "sval"
        fail(p, e, f"subscript {u}")
    if isinstance(e, ast.UnaryOp) and isinstance(e.op, ast.Not):
        t, ty = ex(env, e.operand, None)
        if ty != "bool":
            fail(p, e, "not of a non-bool")
        return f"(negb {t})", "bool"
    if isinstance(e, ast.BoolOp):
        f = "andb" if isinstance(e.op, ast.And) else "orb"
        terms = []
        cur = env
        for v in e.values:
            # short-circuit: operands after the first are evaluated conditionally -> nothing partial
            t, ty = ex(cur, v, None)
            if ty != "bool":
                fail(p, v, f"operand of and/or has type {ty}")
            terms.append(t)
            if isinstance(e.op, ast.And):
                cur = cur.sub(facts=cur.facts | conj_facts(v))
        out = terms[-1]
        for t in reversed(terms[:-1]):
            out = f"({f} {t} {out})"
        return out, "bool"
    if isinstance(e, ast.Compare):
        if len(e.ops) != 1:
            fail(p, e, "chained comparison")
        op, l, r = e.ops[0], e.left, e.comparators[0]
        if isinstance(op, (ast.Is, ast.IsNot)) and isinstance(r, ast.Constant) and r.value is None:
            t, ty = ex(env, l, None)
            if ty.startswith("opt:"):
                b = f"(opt_is_none {t})"
            elif ty == "pyval":
                b = f"(pv_is_none {t})"
            else:
                fail(p, e, f"`is None` on type {ty}")
            return (b if isinstance(op, ast.Is) else f"(negb {b})"), "bool"
        if isinstance(op, ast.Eq):
            lt, lty = ex(env, l, None)
            rt, rty = ex(env, r, None)
            if lty == "str" and rty == "str":
                return f"(String.eqb {lt} {rt})", "bool"
            if lty == "pyval" and rty == "Z":
                return f"(pv_eq_int {lt} {rt})", "bool"
            fail(p, e, f"== on types {lty}, {rty}")
        fail(p, e, "comparison")
    if isinstance(e, ast.Tuple):
        ts = [ex(env, x, pre) for x in e.elts]
        for x, (_, ty) in zip(e.elts, ts):
            if ty == "none" or ty.startswith("tup:"):
                fail(p, x, "tuple component")
        return "(" + ", ".join(t for t, _ in ts) + ")", "tup:" + ",".join(ty for _, ty in ts)
    if isinstance(e, ast.JoinedStr):
        parts = []
        for v in e.values:
            if isinstance(v, ast.Constant) and isinstance(v.value, str):
                parts.append(coq_str(v.value))
            elif isinstance(v, ast.FormattedValue) and v.conversion == -1 and v.format_spec is None:
                t, ty = ex(env, v.value, None)
                if ty == "str":
                    parts.append(t)
                elif ty == "instr":
                    parts.append(f"str_of_instr {t}")  # str(ins)
                else:
                    fail(p, v, "formatted value type")
            else:
                fail(p, v, "f-string piece")
        return "(" + " ++ ".join(parts) + ")%string", "str"
    if isinstance(e, ast.BinOp) and isinstance(e.op, ast.Sub):
        lt, lty = ex(env, e.left, pre)
        rt, rty = ex(env, e.right, pre)
        if lty == rty == "lset":
            return f"(set_diff {lt} {rt})", "lset"
        if lty == rty == "zset":
            return f"(zset_diff {lt} {rt})", "zset"
        fail(p, e, f"`-` on types {lty}, {rty}")
    if isinstance(e, ast.Call):
        return call(env, e, pre)
    fail(p, e, "expression " + u[:60])


def call(env, e, pre):
    p = env.path
    fu = ast.unparse(e.func)
    if e.keywords and fu != "FeeValue":
        fail(p, e, "keyword arguments")
    if fu == "isinstance" and len(e.args) == 2:
        c = e.args[1]
        classes = [ast.unparse(x) for x in (c.elts if isinstance(c, ast.Tuple) else [c])]
        x = e.args[0]
        if isinstance(x, ast.Attribute) and x.attr == "field" and isinstance(x.value, ast.Name) and len(classes) == 1:
            t, ty = ex(env, x.value, None)
            owners = [o for (v, o) in env.facts if v == x.value.id and o in FIELD_OWNER]
            if ty != "instr" or len(owners) != 1:
                fail(p, e, ".field without a preceding isinstance(.., Global|Txn)")
            env.need_import(e, classes[0], FIELD_OWNER[owners[0]])
            return f"(field_isa {t} {coq_str(classes[0])})", "bool"
        t, ty = ex(env, x, None)
        if ty == "sval" and classes == ["UnknownStackValue"]:
            env.need_import(e, "UnknownStackValue", EXPECTED_IMPORT["UnknownStackValue"])
            return f"(sv_is_unknown {t})", "bool"
        if ty == "instr" and all(k in INS_CTORS for k in classes):
            for k in classes:
                env.need_import(e, k, INS_MODULE)
            out = f"(isa_{classes[-1]} {t})"
            for k in reversed(classes[:-1]):
                out = f"(orb (isa_{k} {t}) {out})"
            return out, "bool"
        if ty == "pyval" and classes == ["int"]:
            return f"(pv_is_int {t})", "bool"
        fail(p, e, f"isinstance of type {ty} against {classes}")
    if fu == "is_value_matches_key" and len(e.args) in (2, 3):
        env.need_import(e, fu, EXPECTED_IMPORT[fu])
        if not (isinstance(e.args[0], ast.Name) and e.args[0].id == "key" and env.names.get("key", (None, None))[1] == "key"):
            fail(p, e, "first argument of is_value_matches_key")
        v = exw(env, e.args[1], "sval", None)
        if len(e.args) == 3:
            f = e.args[2]
            if not isinstance(f, ast.Name):
                fail(p, e, "key_field argument")
            env.need_import(e, f.id, FIELD_OWNER["Txn"])
            base = coq_str(f.id)
        else:
            if env.keybase is None:
                fail(p, e, "is_value_matches_key without key_field in a domain without base key")
            base = env.keybase
        return f"(value_matches intcs {env.names['key'][0]} {base} {v})", "bool"
    if fu == "is_int_push_ins" and len(e.args) == 1:
        env.need_import(e, fu, EXPECTED_IMPORT[fu])
        t = exw(env, e.args[0], "instr", pre)
        return f"(py_is_int_push_ins intcs {t})", "tup:bool,pyval"
    if fu == "FeeValue":
        iu, val = "false", "MAX_UINT64z"
        if e.args:
            fail(p, e, "FeeValue positional args")
        for kw in e.keywords:
            if kw.arg == "is_unknown":
                iu = exw(env, kw.value, "bool", pre)
            elif kw.arg == "value":
                val = exw(env, kw.value, "Z", pre)
            else:
                fail(p, e, "FeeValue keyword")
        return f"(mkFee {iu} {val})", "fee"
    if fu in CMP_CLASSES and not e.args and env.names.get("#ctor"):
        env.need_import(e, fu, INS_MODULE)
        return INS_CTORS[fu], "instr"
    if fu in ("set", "list") and len(e.args) == 1:
        a = e.args[0]
        if isinstance(a, ast.List):
            if fu != "set":
                fail(p, e, "list literal")
            elts = "; ".join(exw(env, x, "str", pre) for x in a.elts)
            if env.settype == "sset":
                return f"(set_of_list [{elts}])", "sset"
            if env.settype == "lset":
                return f"[{elts}]", "lset"
            fail(p, e, "set literal in this domain")
        t, ty = ex(env, a, pre)
        if ty in ("zset", "lset"):
            return t, ty  # sets of this domain are represented by lists
        fail(p, e, f"{fu}() of type {ty}")
    if fu in env.funcs:
        spec = env.funcs[fu]
        if "exact" in spec:
            if [ast.unparse(a) for a in e.args] != spec["exact"]:
                fail(p, e, f"arguments of {fu}")
            t = spec["coq"]
        else:
            if len(e.args) != len(spec["params"]):
                fail(p, e, f"arity of {fu}")
            ts = []
            for a, w in zip(e.args, spec["params"]):
                if w.startswith("="):  # the argument must be exactly one of the listed names
                    au = ast.unparse(a)
                    if au not in spec[w]:
                        fail(p, a, f"argument {au} of {fu}")
                    ts.append(spec[w][au])
                else:
                    ts.append(exw(env, a, w, pre))
            t = "(" + " ".join([spec["coq"]] + ts) + ")"
        if spec.get("monadic"):
            return partial(env, e, pre, t), spec["ret"]
        return t, spec["ret"]
    fail(p, e, "call " + ast.unparse(e)[:60])


# ----------------------------------------------------------------------------- statements


def assigned_names(stmts):
    out = []
    for st in stmts:
        for n in ast.walk(st):
            if isinstance(n, ast.Name) and isinstance(n.ctx, ast.Store) and n.id not in out:
                out.append(n.id)
    return out


def wrap_pre(pre, body):
    for v, pt in reversed(pre):
        body = f"(match {pt} with None => None | Some {v} =>\n {body} end)"
    return body


def targets_of(env, st):
    """(kind, names, value) of an assignment statement"""
    if isinstance(st, ast.AnnAssign):
        if not isinstance(st.target, ast.Name) or st.value is None:
            fail(env.path, st, "annotated assignment")
        return "one", [st.target.id], st.value
    if len(st.targets) != 1:
        fail(env.path, st, "multiple assignment")
    tg = st.targets[0]
    if isinstance(tg, ast.Name):
        return "one", [tg.id], st.value
    if isinstance(tg, ast.Tuple) and all(isinstance(x, ast.Name) for x in tg.elts):
        return "tuple", [x.id for x in tg.elts], st.value
    fail(env.path, st, "assignment target")


def infer(env, stmts):
    """whole-function type of every local variable"""
    for st in strip_doc(stmts):
        if isinstance(st, (ast.Assign, ast.AnnAssign)):
            kind, names, value = targets_of(env, st)
            for n in names:
                if n in RESERVED or n in env.names or n.endswith("_gen") or n.startswith(("isa_", "py_")) or (n[0] in "tk" and n[1:].isdigit()):
                    fail(env.path, st, f"local name {n} clashes with a name of the translation")
            if kind == "one":
                tys = [ex(env, value, [])[1]]
            elif isinstance(value, ast.Tuple):
                if len(value.elts) != len(names):
                    fail(env.path, st, "tuple assignment arity")
                tys = [ex(env, x, [])[1] for x in value.elts]
            else:
                ty = ex(env, value, [])[1]
                if not ty.startswith("tup:") or len(ty[4:].split(",")) != len(names):
                    fail(env.path, st, "unpacking of a non-tuple")
                tys = ty[4:].split(",")
            for n, ty in zip(names, tys):
                if ty in ("svlist", "key"):
                    fail(env.path, st, f"variable of type {ty}")
                env.vt[n] = unify(env.path, st, env.vt.get(n), ty)
        elif isinstance(st, ast.If):
            infer(env, st.body)
            infer(env, st.orelse)
        elif isinstance(st, ast.Return):
            pass
        else:
            fail(env.path, st, "statement " + ast.unparse(st)[:60])


def ret_term(env, t):
    return f"(Some {t})" if env.monadic else t


def blk(env, stmts, k):
    """translate a statement list; k(env) gives the term for falling off its end (None: must not happen)"""
    p = env.path
    stmts = strip_doc(stmts)
    if not stmts:
        if k is None:
            raise TranslateError(f"translator: {p}: control reaches the end of the function without return")
        return k(env)
    st, rest = stmts[0], stmts[1:]
    pre = [] if env.monadic else None
    if isinstance(st, ast.Return):
        if rest:
            fail(p, rest[0], "statement after return")
        if st.value is None:
            fail(p, st, "bare return")
        # tail call of a translated (monadic) function
        if env.monadic and isinstance(st.value, ast.Call) and env.funcs.get(ast.unparse(st.value.func), {}).get("monadic"):
            inner = []
            t, ty = call(env, st.value, inner)
            if ty != env.ret or len(inner) != 1 or inner[0][0] != t:
                fail(p, st, "tail call")
            return inner[0][1]
        t = exw(env, st.value, env.ret, pre)
        return wrap_pre(pre or [], ret_term(env, t))
    if isinstance(st, (ast.Assign, ast.AnnAssign)):
        kind, names, value = targets_of(env, st)
        env2 = env.sub(locals_=env.locals | set(names))
        if kind == "one":
            t = exw(env, value, env.vt[names[0]], pre)
            out = f"(let {names[0]} := {t} in\n {blk(env2, rest, k)})"
        elif isinstance(value, ast.Tuple):
            used = {n.id for n in ast.walk(value) if isinstance(n, ast.Name)}
            if used & set(names):
                fail(p, st, "tuple assignment whose right-hand side reads its targets")
            ts = [exw(env, x, env.vt[n], pre) for n, x in zip(names, value.elts)]
            out = blk(env2, rest, k)
            for n, t in reversed(list(zip(names, ts))):
                out = f"(let {n} := {t} in\n {out})"
        else:
            t, ty = ex(env, value, pre)
            if ty != "tup:" + ",".join(env.vt[n] for n in names):
                fail(p, st, f"unpacking {ty} into variables of other types")
            out = f"(let '({', '.join(names)}) := {t} in\n {blk(env2, rest, k)})"
        return wrap_pre(pre or [], out)
    if isinstance(st, ast.If):
        if not rest:
            return if_term(env, st, k)
        # how often would the continuation be used?
        uses = [0]

        def probe(_env):
            uses[0] += 1
            return "K"

        saved = list(env.counter)
        if_term(env, st, probe)
        env.counter[:] = saved
        if uses[0] == 0:
            fail(p, rest[0], "unreachable statement")
        if uses[0] == 1:
            return if_term(env, st, lambda env2: blk(env2, rest, k))
        env.counter[1] += 1
        kn = f"k{env.counter[1]}"
        join = [v for v in assigned_names([st]) if v in env.locals]
        body = blk(env.sub(facts=frozenset()), rest, k)
        params = " ".join(f"({v} : {coqty(env.vt[v])})" for v in join) or "(_ : unit)"
        callk = f"({kn} {' '.join(join) or 'tt'})"
        return f"(let {kn} := (fun {params} =>\n {body}) in\n {if_term(env, st, lambda _e: callk)})"
    fail(p, st, "statement " + ast.unparse(st)[:60])


def if_term(env, st, k):
    t, ty = ex(env, st.test, None)
    if ty != "bool":
        fail(env.path, st, f"condition of type {ty}")
    then_t = blk(env.sub(facts=env.facts | conj_facts(st.test)), st.body, k)
    if st.orelse:
        else_t = blk(env, st.orelse, k)
    else:
        if k is None:
            raise TranslateError(f"translator: {env.path}:{st.lineno}: if without else at the end of the function")
        else_t = k(env)
    return f"(if {t}\n then {then_t}\n else {else_t})"


def translate_body(env, fn):
    body = strip_doc(fn.body)
    for _ in range(2):
        env.dry = True
        infer(env, body)
    env.dry = False
    for v, ty in env.vt.items():
        if ty == "none":
            fail(env.path, fn, f"variable {v} is only ever None")
    env.counter[:] = [0, 0]
    return blk(env, body, None)


# ----------------------------------------------------------------------------- source lookups / checks


def imports_of(tree):
    out = {}
    for node in ast.walk(tree):
        if isinstance(node, ast.ImportFrom):
            for a in node.names:
                out[a.asname or a.name] = node.module
    return out


def module_func(tree, name, path):
    for node in tree.body:
        if isinstance(node, ast.FunctionDef) and node.name == name:
            return node
    raise TranslateError(f"translator: {path}: function {name} not found")


def method(tree, cls, name, path):
    for node in tree.body:
        if isinstance(node, ast.ClassDef) and node.name == cls:
            for m in node.body:
                if isinstance(m, ast.FunctionDef) and m.name == name:
                    return m
    raise TranslateError(f"translator: {path}: {cls}.{name} not found")


def sig(path, fn, want):
    a = fn.args
    got = [x.arg for x in a.args]
    if got != want or a.vararg or a.kwarg or a.kwonlyargs or a.posonlyargs or a.defaults:
        fail(path, fn, f"signature of {fn.name}: {got}")
    for d in fn.decorator_list:
        fail(path, fn, "decorator")


def module_consts(tree):
    out = {}
    for node in tree.body:
        if isinstance(node, ast.Assign) and len(node.targets) == 1 and isinstance(node.targets[0], ast.Name):
            out[node.targets[0].id] = ast.unparse(node.value)
        elif isinstance(node, ast.AnnAssign) and isinstance(node.target, ast.Name) and node.value is not None:
            out[node.target.id] = ast.unparse(node.value)
    return out


def class_consts(tree, cls):
    out = {}
    for node in tree.body:
        if isinstance(node, ast.ClassDef) and node.name == cls:
            for m in node.body:
                if isinstance(m, ast.Assign) and len(m.targets) == 1 and isinstance(m.targets[0], ast.Name):
                    out[m.targets[0].id] = ast.unparse(m.value)
                elif isinstance(m, ast.AnnAssign) and isinstance(m.target, ast.Name) and m.value is not None:
                    out[m.target.id] = ast.unparse(m.value)
    return out


def expect(path, what, got, want):
    if got != want:
        raise TranslateError(f"translator: {path}: {what} changed: {got!r} (expected {want!r})")


def check_no_subclasses():
    """isinstance(x, C) is translated as a test of the constructor: C must not have subclasses"""
    path = os.path.join(T, "teal/instructions/instructions.py")
    tree = parse(path)
    seen = set()
    for node in tree.body:
        if isinstance(node, ast.ClassDef):
            seen.add(node.name)
            for b in node.bases:
                if ast.unparse(b) in INS_CTORS:
                    fail(path, node, f"class {node.name} derives from {ast.unparse(b)}")
    for c in INS_CTORS:
        if c not in seen:
            raise TranslateError(f"translator: {path}: class {c} not found")


PREAMBLE = r"""(* GENERATED by tools/translate.py (translate_single) from /repo/tealer -- do not edit *)
From Coq Require Import String List NArith ZArith Bool.
From Tealer Require Import Tables LeafPrelude Leaves Syntax Parse StackAst Keys.
Import ListNotations.
Open Scope string_scope.
Open Scope list_scope.

(* ---------------------------------------------------------------- fixed glue: the Python object model
   The functions below this block are statement-by-statement translations; their result type is
   `option _`, None = a Python exception (IndexError, AttributeError, TypeError). *)
(* isinstance(ins, C): the classes have no subclasses (checked by the translator) *)
@ISA@
(* the comparison class as Gen/Leaves.v takes it *)
Definition cmpop_of (i : instr) : cmpop :=
  match i with
  | IEq => CEq | INeq => CNeq | ILess => CLess | ILessE => CLessE | IGreater => CGreater | IGreaterE => CGreaterE
  | _ => COther
  end.
(* isinstance(ins.field, F) for Global / Txn (field classes are represented by their names) *)
Definition field_isa (i : instr) (cls : string) : bool :=
  match i with IGlobal f => f =? cls | ITxn (f, _) => f =? cls | _ => false end.
(* ins.addr of an Addr instruction *)
Definition addr_of (i : instr) : string := match i with IAddr a => a | _ => "" end.
Definition sv_is_unknown (v : sval) : bool := match v with SUnknown => true | SKnown _ _ _ _ => false end.
Definition opt_is_none {A} (o : option A) : bool := match o with None => true | Some _ => false end.
(* second component of is_int_push_ins: None | int | str *)
Inductive pyval := PvNone | PvInt (n : N) | PvStr (s : string).
Definition py_is_int_push_ins (intcs : option (list N)) (i : instr) : bool * pyval :=
  match is_int_push_ins intcs i with
  | NotInt => (false, PvNone) | IntUnknown => (true, PvNone) | IntNum n => (true, PvInt n) | IntName s => (true, PvStr s)
  end.
Definition pv_is_none (v : pyval) : bool := match v with PvNone => true | _ => false end.
Definition pv_is_int (v : pyval) : bool := match v with PvInt _ => true | _ => false end.
Definition pv_as_int (v : pyval) : option Z := match v with PvInt n => Some (Z.of_N n) | _ => None end.
Definition pv_eq_int (v : pyval) (k : Z) : bool := match v with PvInt n => Z.eqb (Z.of_N n) k | _ => false end.
Definition zset_diff (a b : list Z) : list Z := filter (fun x => negb (mem_any x b)) a.
(* teal_enums.<f>(value): `if not isinstance(value, int): value = NAMES[value]; return INTS[value]`, None = KeyError
   (the shape of the two conversion functions is checked by translate.read_enums) *)
Fixpoint assoc_N {A} (k : N) (l : list (N * A)) : option A :=
  match l with [] => None | (k', v) :: t => if N.eqb k' k then Some v else assoc_N k t end.
Definition py_to_tealer_type (names : list (string * N)) (ints : list (N * string)) (v : pyval) : option string :=
  match v with
  | PvInt n => assoc_N n ints
  | PvStr s => match assoc s names with Some n => assoc_N n ints | None => None end
  | PvNone => None
  end.
Definition py_transaction_type_to_tealer_type :=
  py_to_tealer_type transaction_type_to_tealer_type_names transaction_type_to_tealer_type_ints.
Definition py_oncompletion_to_tealer_type :=
  py_to_tealer_type oncompletion_to_tealer_type_names oncompletion_to_tealer_type_ints.
"""

BINDERS = "(intcs : option (list N)) (fam : keyfam) (op : instr) (pos : nat) (args : list sval)"
SV_NAMES = {
    "ins_stack_value": ("(SKnown op pos args 0)", "sval"),
    "ins_stack_value.instruction": ("op", "instr"),
    "ins_stack_value.args": ("args", "svlist"),
}


def emit_single(outdir, stop_after=None):
    check_no_subclasses()
    L = []
    w = L.append
    isa = []
    for c, pat in INS_CTORS.items():
        isa.append(f"Definition isa_{c} (i : instr) : bool := match i with {pat} => true | _ => false end.")
    w(PREAMBLE.replace("@ISA@", "\n".join(isa)))
    n = 0
    # ================================================================ fee_field.py
    path = os.path.join(T, TC, "fee_field.py")
    tree = parse(path)
    imps = imports_of(tree)
    mc = module_consts(tree)
    cc = class_consts(tree, "FeeField")
    expect(path, "FEE_KEY", mc.get("FEE_KEY"), "'Fee'")
    expect(path, "FeeField.BASE_KEYS", cc.get("BASE_KEYS"), "[FEE_KEY]")
    f = module_func(tree, "_mirrored_comparison", path)
    sig(path, f, ["ins"])
    env = Env(path, imps, {"ins": ("ins", "instr"), "#ctor": (True, "")}, {}, None, "instr", False)
    w("(* fee_field._mirrored_comparison *)")
    w(f"Definition mirrored_comparison_gen (ins : instr) : instr :=\n {translate_body(env, f)}.")
    w("")
    n += 1
    f = method(tree, "FeeField", "_get_asserted_fee", path)
    sig(path, f, ["self", "key", "ins_stack_value"])
    names = dict(SV_NAMES, key=("fam", "key"))
    funcs = {
        "_mirrored_comparison": {"coq": "mirrored_comparison_gen", "params": ["instr"], "ret": "instr"},
        "self._get_asserted_max_value": {"coq": "fee_get_asserted_max_value", "params": ["cmpop", "fee"], "ret": "tup:fee,fee"},
    }
    # _get_asserted_max_value is a staticmethod(comparison_ins, compared_value): checked by translate_leaves
    env = Env(path, imps, names, funcs, None, "tup:fee,fee", True, keybase=coq_str("Fee"))
    w("(* FeeField._get_asserted_fee *)")
    w(f"Definition fee_get_asserted_fee_gen {BINDERS}\n  : option (feeval * feeval) :=\n {translate_body(env, f)}.")
    w("")
    n += 1
    f = method(tree, "FeeField", "_get_asserted_single", path)
    sig(path, f, ["self", "key", "ins_stack_value"])
    funcs = {
        "self._get_asserted_fee": {
            "coq": "(fee_get_asserted_fee_gen intcs fam op pos args)",
            "exact": ["key", "ins_stack_value"],
            "ret": "tup:fee,fee",
            "monadic": True,
        }
    }
    env = Env(path, imps, names, funcs, None, "tup:fee,fee", True)
    w("(* FeeField._get_asserted_single *)")
    w(f"Definition fee_single_gen {BINDERS}\n  : option (feeval * feeval) :=\n {translate_body(env, f)}.")
    w("")
    n += 1
    if stop_after == "fee":
        return finish(outdir, L, n)
    # ================================================================ int_fields.py
    path = os.path.join(T, TC, "int_fields.py")
    tree = parse(path)
    imps = imports_of(tree)
    mc = module_consts(tree)
    cc = class_consts(tree, "GroupIndices")
    expect(path, "group_size_key", mc.get("group_size_key"), "'GroupSize'")
    expect(path, "group_index_key", mc.get("group_index_key"), "'GroupIndex'")
    expect(path, "GroupIndices.GROUP_SIZE_KEY", cc.get("GROUP_SIZE_KEY"), "group_size_key")
    expect(path, "GroupIndices.GROUP_INDEX_KEY", cc.get("GROUP_INDEX_KEY"), "group_index_key")
    expect(path, "GroupIndices.UNIVERSAL_SETS", cc.get("UNIVERSAL_SETS"), "universal_sets")
    ibinders = "(intcs : option (list N)) (op : instr) (pos : nat) (args : list sval)"
    for py, coq in (("_get_asserted_groupsizes", "int_groupsizes_gen"), ("_get_asserted_groupindices", "int_groupindices_gen")):
        f = method(tree, "GroupIndices", py, path)
        sig(path, f, ["self", "ins_stack_value"])
        names = dict(SV_NAMES)
        # contents of the universal sets are checked by translate_leaves
        names["self.UNIVERSAL_SETS[self.GROUP_SIZE_KEY]"] = ("int_universal_groupsize", "zset")
        names["self.UNIVERSAL_SETS[self.GROUP_INDEX_KEY]"] = ("int_universal_groupindex", "zset")
        funcs = {"self._get_asserted_int_values": {"coq": "int_get_asserted_int_values", "params": ["cmpop", "Z", "zset"], "ret": "zset"}}
        env = Env(path, imps, names, funcs, "zset", "tup:zset,zset", True)
        w(f"(* GroupIndices.{py} *)")
        w(f"Definition {coq} {ibinders}\n  : option (list Z * list Z) :=\n {translate_body(env, f)}.")
        w("")
        n += 1
    f = method(tree, "GroupIndices", "_get_asserted_single", path)
    sig(path, f, ["self", "key", "ins_stack_value"])
    names = dict(SV_NAMES)
    names["key == self.GROUP_SIZE_KEY"] = ("size", "bool")  # the model's key of this domain: size : bool
    funcs = {
        "self._get_asserted_groupsizes": {"coq": "(int_groupsizes_gen intcs op pos args)", "exact": ["ins_stack_value"], "ret": "tup:zset,zset", "monadic": True},
        "self._get_asserted_groupindices": {"coq": "(int_groupindices_gen intcs op pos args)", "exact": ["ins_stack_value"], "ret": "tup:zset,zset", "monadic": True},
    }
    env = Env(path, imps, names, funcs, "zset", "tup:zset,zset", True)
    w("(* GroupIndices._get_asserted_single; `key == self.GROUP_SIZE_KEY` is the model's `size` *)")
    w(f"Definition int_single_gen (size : bool) {ibinders}\n  : option (list Z * list Z) :=\n {translate_body(env, f)}.")
    w("")
    n += 1
    if stop_after == "int":
        return finish(outdir, L, n)
    # ================================================================ txn_types.py
    path = os.path.join(T, TC, "txn_types.py")
    tree = parse(path)
    imps = imports_of(tree)
    mc = module_consts(tree)
    cc = class_consts(tree, "TxnType")
    expect(path, "transaction_type_key", mc.get("transaction_type_key"), "'TransactionType'")
    expect(path, "TxnType.TRANSACTION_TYPE_KEY", cc.get("TRANSACTION_TYPE_KEY"), "transaction_type_key")
    expect(path, "TxnType.UNIVERSAL_SETS", cc.get("UNIVERSAL_SETS"), "universal_sets")
    us = [ast.unparse(node) for node in tree.body if isinstance(node, ast.Assign) and ast.unparse(node.targets[0]).startswith("universal_sets[")]
    expect(path, "universal sets", us, ["universal_sets[transaction_type_key] = list(ALL_TRANSACTION_TYPES)"])
    for c in ("ALL_TRANSACTION_TYPES", "APPLICATION_TRANSACTION_TYPES", "TYPEENUM_TRANSACTION_TYPES", "oncompletion_to_tealer_type", "transaction_type_to_tealer_type"):
        if imps.get(c) != "tealer.utils.teal_enums":
            raise TranslateError(f"translator: {path}: {c} is not imported from tealer.utils.teal_enums")
    f = module_func(tree, "_known_constant", path)
    sig(path, f, ["convert", "value"])
    body = strip_doc(f.body)
    if [ast.unparse(s) for s in body] != ["try:\n    return convert(value)\nexcept KeyError:\n    return None"]:
        fail(path, f, "body of _known_constant")
    w("(* txn_types._known_constant: `try: return convert(value) except KeyError: return None` *)")
    w("Definition known_constant_gen (convert : pyval -> option string) (value : pyval) : option string :=\n convert value.")
    w("")
    n += 1
    etree = parse(os.path.join(T, "utils/teal_enums.py"))
    members = ()
    for node in etree.body:
        if isinstance(node, ast.ClassDef) and node.name == "TealerTransactionType":
            members = tuple(m.targets[0].id for m in node.body if isinstance(m, ast.Assign) and isinstance(m.targets[0], ast.Name))
    f = method(tree, "TxnType", "_get_asserted_transaction_types", path)
    sig(path, f, ["self", "key", "ins_stack_value"])
    names = dict(SV_NAMES, key=("fam", "key"))
    names["#enum"] = members
    names["self.UNIVERSAL_SETS[self.TRANSACTION_TYPE_KEY]"] = ("ALL_TRANSACTION_TYPES", "lset")
    names["APPLICATION_TRANSACTION_TYPES"] = ("APPLICATION_TRANSACTION_TYPES", "lset")
    names["TYPEENUM_TRANSACTION_TYPES"] = ("TYPEENUM_TRANSACTION_TYPES", "lset")
    funcs = {
        "_known_constant": {
            "coq": "known_constant_gen",
            "params": ["=conv", "pyval"],
            "=conv": {
                "transaction_type_to_tealer_type": "py_transaction_type_to_tealer_type",
                "oncompletion_to_tealer_type": "py_oncompletion_to_tealer_type",
            },
            "ret": "opt:str",
        }
    }
    env = Env(path, imps, names, funcs, "lset", "tup:lset,lset", True)
    w("(* TxnType._get_asserted_transaction_types *)")
    w(f"Definition type_get_asserted_transaction_types_gen {BINDERS}\n  : option (list string * list string) :=\n {translate_body(env, f)}.")
    w("")
    n += 1
    f = method(tree, "TxnType", "_get_asserted_single", path)
    sig(path, f, ["self", "key", "ins_stack_value"])
    funcs = {
        "self._get_asserted_transaction_types": {
            "coq": "(type_get_asserted_transaction_types_gen intcs fam op pos args)",
            "exact": ["key", "ins_stack_value"],
            "ret": "tup:lset,lset",
            "monadic": True,
        }
    }
    env = Env(path, imps, dict(SV_NAMES, key=("fam", "key")), funcs, "lset", "tup:lset,lset", True)
    w("(* TxnType._get_asserted_single *)")
    w(f"Definition type_single_gen {BINDERS}\n  : option (list string * list string) :=\n {translate_body(env, f)}.")
    w("")
    n += 1
    if stop_after == "type":
        return finish(outdir, L, n)
    # ================================================================ addr_fields.py
    path = os.path.join(T, TC, "addr_fields.py")
    tree = parse(path)
    imps = imports_of(tree)
    if imps.get("ZERO_ADDRESS") != "tealer.utils.algorand_constants":
        raise TranslateError(f"translator: {path}: ZERO_ADDRESS is not imported from tealer.utils.algorand_constants")
    abinders = "(intcs : option (list N)) (fam : keyfam) (fld : string) (op : instr) (pos : nat) (args : list sval)"
    consts = {k: (k, "str") for k in ("ANY_ADDRESS", "NO_ADDRESS", "SOME_ADDRESS", "CREATOR_ADDRESS", "ZERO_ADDRESS")}
    # (the four marker constants are emitted by translate_leaves from the same module)
    sets = {
        "self._universal_set": {"coq": "addr_universal_set", "exact": [], "ret": "sset"},
        "self._null_set": {"coq": "addr_null_set", "exact": [], "ret": "sset"},
    }
    f = method(tree, "AddrFields", "_get_asserted_address", path)
    sig(path, f, ["self", "ins"])
    env = Env(path, imps, dict(consts, ins=("ins", "instr")), dict(sets), "sset", "sset", False)
    w("(* AddrFields._get_asserted_address *)")
    w(f"Definition addr_get_asserted_address_gen (ins : instr) : sset :=\n {translate_body(env, f)}.")
    w("")
    n += 1
    f = method(tree, "AddrFields", "_get_asserted_txn_gtxn", path)
    sig(path, f, ["self", "key", "ins_stack_value"])
    names = dict(SV_NAMES, key=("fam", "key"), **consts)
    funcs = dict(sets)
    funcs["self._get_asserted_address"] = {"coq": "addr_get_asserted_address_gen", "params": ["instr"], "ret": "sset"}
    # the base field of `key` (one of AddrFields.BASE_KEYS) is the model's parameter fld
    env = Env(path, imps, names, funcs, "sset", "tup:sset,sset", True, keybase="fld")
    w("(* AddrFields._get_asserted_txn_gtxn *)")
    w(f"Definition addr_get_asserted_txn_gtxn_gen {abinders}\n  : option (sset * sset) :=\n {translate_body(env, f)}.")
    w("")
    n += 1
    f = method(tree, "AddrFields", "_get_asserted_single", path)
    sig(path, f, ["self", "key", "ins_stack_value"])
    funcs = {
        "self._get_asserted_txn_gtxn": {
            "coq": "(addr_get_asserted_txn_gtxn_gen intcs fam fld op pos args)",
            "exact": ["key", "ins_stack_value"],
            "ret": "tup:sset,sset",
            "monadic": True,
        }
    }
    env = Env(path, imps, dict(SV_NAMES, key=("fam", "key")), funcs, "sset", "tup:sset,sset", True)
    w("(* AddrFields._get_asserted_single *)")
    w(f"Definition addr_single_gen {abinders}\n  : option (sset * sset) :=\n {translate_body(env, f)}.")
    w("")
    n += 1
    return finish(outdir, L, n)


def finish(outdir, L, n):
    os.makedirs(outdir, exist_ok=True)
    with open(os.path.join(outdir, "SingleGen.v"), "w") as f:
        f.write("\n".join(L) + "\n")
    return n
