#!/venv/bin/python
"""Statement-by-statement translation of the worklist iteration of tealer's dataflow analysis into Gallina
(Gen/SolverGen.v).

Translated (read with `ast` only, never imported), all methods of DataflowTransactionContext in
analyses/dataflow/transaction_context/generic.py:
  _merge_information_forward   -> merge_information_forward_gen
  forward_analyis              -> forward_analyis_loop_gen (the `while worklist:` loop) + forward_analyis_gen
  _merge_information_backward  -> merge_information_backward_gen
  backward_analysis            -> backward_analysis_loop_gen (the `while worklist:` loop) + backward_analysis_gen
The hand-written counterparts are Model/Analysis.v (Section Domain): forward / backward (with fuel) and the start
states of Model/Domains.v: solve; Lemmas/SolverGenLemmas.v proves generated = hand-written for one analysis key.

Reading of Python in Gallina.  The exception monad (`py A := option A`, ret, bind, ifE, andE, notE, opt_is_some) is the
fixed prelude of Gen/KeysGen.v; the object graph is read through the fixed, fingerprinted glue table of Gen/GraphGen.v
(attr_*, next_blocks_global_gen, prev_blocks_global_gen, leaf_block_global_gen, calculate_reachin_gen,
calculate_livein_gen, dict_get), all imported, not repeated (tools/translate_graph.py: check_fingerprints is re-run
here).  In addition:
  * analysis keys.  `analysis_keys : List[str]` is a `list string`.  The abstract methods of DataflowTransactionContext
    take the key as their first argument: they are the Section parameters univ, null : string -> T and
    union, inter : string -> T -> T -> T (ONE carrier T for the values of all keys, the operations indexed by the key:
    a key list is a list of independent domain instances).  `a != b` on two such values is `dom_neq a b`
    (negb of the Section parameter t_eqb, the model's reading of Python's == on domain values).
    `self._calculate_reachin(key, b, d)` / `self._calculate_livein(key, b, d)` are the functions of Gen/GraphGen.v
    instantiated with the operations of `key` (call_calculate_reachin / call_calculate_livein).
    A function that uses one member of a group of same-typed parameters (univ / null, union / inter) takes the
    whole group (a dead `let`, tcommon.pin_twins; the functions of Gen/GraphGen.v do the same), so that writing one
    for the other cannot become a mere renaming of a parameter of the discharged function.
  * dictionaries.  Dict[BasicBlock, Any] is the model's association list `Analysis.state T` (GraphGen.dict_get =
    Analysis.lookup, KeyError = None); `d[b] = v` is dict_set (Analysis.update when b is a key, insertion at the end
    otherwise: a Python dict keeps insertion order); `{}` is dict_empty.  Dict[str, Dict[BasicBlock, Any]] is
    `gdict := list (string * state T)` with kdict_get (KeyError = None) / kdict_set (overwrite or insert) / kdict_empty.
    The nested store `g[key][b] = v` reads the inner dictionary, stores into it and writes it back
    (value semantics: sound because every inner dictionary is created by `g[key] = {}` in the same function, i.e. the
    inner dictionaries of different keys are never aliased; the translator checks that `{}` is the only value stored
    under `g[key]`).  self._block_contexts is a `defaultdict(dict)` (fingerprinted statement of __init__; never
    re-assigned as a whole in transaction_context/): a read `self._block_contexts[key]` never raises and a missing key
    reads as the empty dictionary (ddict_get); it is only accepted in `self._block_contexts[key][b]`, where the missing
    key then raises KeyError, so that the insertion of `key -> {}` that comes with the read is not observable.
  * mutable state.  The objects that are mutated are threaded as state: global_reachout / global_liveout (stores),
    worklist (`worklist.append(x)` is `worklist := worklist ++ [x]`; the first statement of the loop body re-binds
    the name to the fresh list `worklist[1:]`), and self._block_contexts (the variable self_block_contexts: an extra
    parameter of every translated method; forward_analyis / backward_analysis return its final value instead of
    None).  _merge_information_* mutates its parameter: the translated function returns the pair
    (returned bool, final dictionary) and the call statement `updated = self._merge_information_*(ks, b, g)`
    (third argument: a variable) re-binds g.  The final `self._block_contexts[key] = g[key]` aliases the two
    dictionaries: accepted only as the last statement of the function (nothing is mutated afterwards).
  * `for x in e: body` is `fold_left (fun acc x => bind acc (fun st => <body>)) <e> (ret <state>)` (state = the
    variables (re)assigned in the body and bound before the loop), as in tools/translate_graph.py; loops nest (the
    initialisation `for key ..: for b ..:`).  The loop over `analysis_keys` in _merge_information_* is such a fold with
    the accumulator `updated` in its state.
  * `while worklist: body` is a separate `Fixpoint <name>_loop_gen (fuel : nat) <all variables> {struct fuel} :
    py (option <state>)`: `O => ret None` (the iteration budget is exhausted: a distinguished result, not an exception
    -- Model/Analysis.v's OutOfFuel); `S fuel =>` if the list is non-empty, the body followed by the recursive call
    with the decremented fuel, else `ret (Some <state>)`.  One unit of fuel per test of the loop condition, as in
    Analysis.forward / backward, so that the comparison is with the same fuel.  The function containing the loop takes
    `fuel` as its first parameter and returns `py (option ..)`; after the loop `None` is passed on.
  * list expressions: `xs[0]` = list_head (IndexError on []), `xs[1:]` = list_tail, the truth value of a list =
    list_nonempty, `x not in xs` = negb (blk_in x xs) (BasicBlock defines no __eq__: identity, equality of ids),
    `xs + ys` = `xs ++ ys`, `[e]`, `[]`.
  * `e1 if c else e2` is `if`/`ifE`; when `c` is a conjunction containing `E is not None` for an attribute read E of
    type Optional[BasicBlock], E is used in e1 as a BasicBlock (as_block: the narrowing never fails there, the object
    graph is not mutated between the test and the use).
  * what follows an `if` is duplicated into the branches that fall through (as in translate_keys.py).

Fail-closed: every statement kind, expression kind, attribute name, call name and variable type that is not whitelisted
below raises TranslateError.
"""
import ast
import os
import sys

from tcommon import TranslateError, fail, parse, strip_doc, pin_twins, T
from translate_keys import check_imports, indent, same_text
from translate_asserted import (
    seq,
    as_monadic,
    projections,
    tuple_term,
    find_class,
    bound_names,
    is_self_call,
    need_origin,
    check_methods,
    check_no_override,
    DOMAIN_METHODS,
)
import translate_graph as TG

GEN_REL = TG.GEN_REL
FN_REL = TG.FN_REL
UA_MODULE = TG.UA_MODULE

# ----------------------------------------------------------------------------- types of the little typed language
BLK, OPTBLK, FUNC, BOOL, DOM, KEY, DICT, GDICT = "block", "optblock", "func", "bool", "T", "key", "dict", "gdict"
LBLK, LKEY, LIST_ANY = "list block", "list key", "list ?"
COQ_TYPE = {BLK: "nat", BOOL: "bool", DOM: "T", KEY: "string", DICT: "state T", GDICT: "gdict", LBLK: "list nat", LKEY: "list string"}
ANNOTATIONS = {
    "List[str]": LKEY,
    "'BasicBlock'": BLK,
    "List['BasicBlock']": LBLK,
    "Dict[str, Dict['BasicBlock', Any]]": GDICT,
    "bool": BOOL,
}
SELF_CTX = "self_block_contexts"  # the variable that stands for the object self._block_contexts

# the translated methods: python name -> spec
#   kind "merge": (analysis_keys, block, <dict>) -> bool, mutates its third parameter
#   kind "analysis": (analysis_keys, worklist) -> None, mutates self._block_contexts, contains the while loop
METHODS = {
    "_merge_information_forward": dict(gen="merge_information_forward_gen", kind="merge", dname="global_reachout"),
    "forward_analyis": dict(gen="forward_analyis_gen", loop="forward_analyis_loop_gen", kind="analysis"),
    "_merge_information_backward": dict(gen="merge_information_backward_gen", kind="merge", dname="global_liveout"),
    "backward_analysis": dict(gen="backward_analysis_gen", loop="backward_analysis_loop_gen", kind="analysis"),
}
# the translated methods of Gen/GraphGen.v: python name -> (glue function of the prelude, name of the dictionary parameter)
NEIGHBOURHOOD = {"_calculate_reachin": "call_calculate_reachin", "_calculate_livein": "call_calculate_livein"}
DOMAIN_OPS = {m: c for m, (c, _) in DOMAIN_METHODS.items()}

FINGERPRINTS = [
    (FN_REL, "Function", "blocks", "@property\ndef blocks(self) -> List['BasicBlock']:\n    return self._blocks"),
]
INIT_STATEMENT = "self._block_contexts: Dict[str, Dict['BasicBlock', Any]] = defaultdict(dict)"

RESERVED = {
    "f", "fuel", "acc", "st", "acc2", "st2", "l", "k", "d", "T", "t_eqb", "univ", "null", "union", "inter", "single", "ret", "bind", "py", "ifE", "notE",
    "andE", "orE", "assertE", "opt_is_some", "dict_get", "as_key", "as_block", "fold_left", "fst", "snd", "negb", "andb", "orb", "true",
    "false", "nil", "cons", "app", "length", "Some", "None", "O", "S", "state", "lookup", "update", "func", "nat", "bool", "string", "list",
    "option", "fblock", "gdict", "dict_empty", "dict_set", "kdict_empty", "kdict_get", "kdict_set", "ddict_get", "dom_neq", "list_head",
    "list_tail", "list_nonempty", "blk_in", "function_blocks", "call_calculate_reachin", "call_calculate_livein", SELF_CTX,
    "in", "at", "as", "fun", "let", "match", "end", "if", "then", "else", "return", "with", "forall", "exists", "fix", "cofix", "for",
    "where", "using", "Type", "Prop", "Set", "SProp", "struct", "self",
}  # fmt: skip
RESERVED |= {g for g, _, _ in TG.ATTRS.values()} | {g for g, _, _ in TG.GRAPH_FUNCS.values()}
RESERVED |= {s["gen"] for s in METHODS.values()} | {s["loop"] for s in METHODS.values() if "loop" in s}

PRELUDE = r"""
(* ====================================================================== *)
(* PRELUDE (fixed text).  The exception monad is the one of Gen/KeysGen.v, the glue table of the object graph   *)
(* (attr_*, *_blocks_global_gen, calculate_*_gen, dict_get) the one of Gen/GraphGen.v.                          *)
(* ====================================================================== *)
(* ---- list expressions *)
(* xs[0] : IndexError on the empty list *)
Definition list_head {A : Type} (xs : list A) : py A := match xs with [] => None | x :: _ => Some x end.
(* xs[1:] : a fresh list, the empty list for the empty list *)
Definition list_tail {A : Type} (xs : list A) : list A := tl xs.
(* the truth value of a list (`while xs:`) *)
Definition list_nonempty {A : Type} (xs : list A) : bool := match xs with [] => false | _ :: _ => true end.
(* `x in xs` for BasicBlock objects: the class defines no __eq__ (fingerprinted by translate_graph), so `in` is identity,
   i.e. equality of block ids *)
Definition blk_in (x : nat) (xs : list nat) : bool := existsb (Nat.eqb x) xs.
(* a value of type Optional[BasicBlock] used as a BasicBlock after an `is not None` test *)
Definition as_block (o : option nat) : py nat := o.
(* function.blocks = self._blocks (fingerprinted property): the blocks of the function, as ids, in list order *)
Definition function_blocks (f : func) : list nat := map b_idx (fn_blocks f).

(* the abstract methods of DataflowTransactionContext, indexed by the analysis key (their first argument), the function
   under analysis and Python's == on the values of the domains *)
Section SolverGen.
  Variable T : Type.
  Variable t_eqb : T -> T -> bool.
  Variable univ null : string -> T.
  Variable union inter : string -> T -> T -> T.
  Variable single : string -> instr -> nat -> list sval -> T * T.
  Variable f : func.

  (* `a != b` on the values of a domain *)
  Definition dom_neq (a b : T) : bool := negb (t_eqb a b).
  (* Dict[BasicBlock, Any] = Analysis.state T.  {} ; d[b] = v (a Python dict keeps insertion order: a new key goes
     to the end, an existing key keeps its place) *)
  Definition dict_empty : state T := [].
  Definition dict_set (d : state T) (k : nat) (v : T) : state T :=
    match lookup T d k with Some _ => update T d k v | None => d ++ [(k, v)] end.
  (* Dict[str, Dict[BasicBlock, Any]] *)
  Definition gdict : Type := list (string * state T).
  Definition kdict_empty : gdict := [].
  Fixpoint kdict_get (d : gdict) (k : string) : py (state T) :=
    match d with [] => None | (k', v) :: t => if String.eqb k' k then Some v else kdict_get t k end.
  Fixpoint kdict_set (d : gdict) (k : string) (v : state T) : gdict :=
    match d with
    | [] => [(k, v)]
    | (k', w) :: t => if String.eqb k' k then (k', v) :: t else (k', w) :: kdict_set t k v
    end.
  (* self._block_contexts[key] on the defaultdict(dict): never raises, a missing key reads as {} *)
  Definition ddict_get (d : gdict) (k : string) : state T := match kdict_get d k with Some s => s | None => [] end.
  (* self._calculate_reachin(key, block, d) / self._calculate_livein(key, block, d): the functions of Gen/GraphGen.v
     with the operations of `key` (each takes both members of a group of same-typed operations: tcommon.pin_twins) *)
  Definition call_calculate_reachin (key : string) (block : nat) (d : state T) : py T :=
    calculate_reachin_gen T (univ key) (null key) (union key) (inter key) (single key) f block d.
  Definition call_calculate_livein (key : string) (block : nat) (d : state T) : py T :=
    calculate_livein_gen T (univ key) (null key) (union key) (inter key) f block d.
"""


# ----------------------------------------------------------------------------- environment
class Env:
    def __init__(self, path, vars_, spec, imports):
        self.path = path
        self.imports = imports
        self.vars = dict(vars_)  # python name -> type, in order of binding (the Coq name is the Python name)
        self.spec = spec
        self.counter = [0]
        self.depth = 0  # nesting depth of for loops
        self.in_while = False
        self.narrowed = frozenset()  # ast.dump of the Optional expressions known to be not None
        self.aux = []  # definitions emitted before the function (the while loop)
        self.closing = False  # in the body of the closing loop of an analysis method

    def child(self, **new):
        e = Env(self.path, self.vars, self.spec, self.imports)
        e.counter, e.depth, e.in_while, e.narrowed, e.aux = self.counter, self.depth, self.in_while, self.narrowed, self.aux
        e.closing = self.closing
        e.vars.update(new)
        return e

    def fresh(self):
        self.counter[0] += 1
        return f"tmp{self.counter[0]}"


def compatible(a, b):
    if a == b:
        return a
    if a == LIST_ANY and b.startswith("list "):
        return b
    if b == LIST_ANY and a.startswith("list "):
        return a
    return None


def is_none(e):
    return isinstance(e, ast.Constant) and e.value is None


def is_self_attr(e, name=None):
    return isinstance(e, ast.Attribute) and isinstance(e.value, ast.Name) and e.value.id == "self" and (name is None or e.attr == name)


def is_block_contexts(env, e):
    return is_self_attr(e, "_block_contexts") and "self" not in env.vars and SELF_CTX in env.vars


def not_none_tests(e):
    """the expressions E of the conjuncts `E is not None` of a test"""
    conj = e.values if isinstance(e, ast.BoolOp) and isinstance(e.op, ast.And) else [e]
    out = []
    for c in conj:
        if isinstance(c, ast.Compare) and len(c.ops) == 1 and isinstance(c.ops[0], ast.IsNot) and is_none(c.comparators[0]):
            out.append(ast.dump(c.left))
    return out


# ----------------------------------------------------------------------------- expressions
def expr(env, e):
    """-> (term, type, pure)"""
    p = env.path
    if isinstance(e, ast.Constant):
        if e.value is True:
            return "true", BOOL, True
        if e.value is False:
            return "false", BOOL, True
        fail(p, e, "constant " + ast.unparse(e))
    if isinstance(e, ast.Name):
        if e.id in env.vars and e.id != SELF_CTX:
            return e.id, env.vars[e.id], True
        fail(p, e, f"unknown name {e.id}")
    if isinstance(e, ast.Attribute):
        if is_self_attr(e):
            if e.attr == "_function" and "self" not in env.vars:
                return "f", FUNC, True
            fail(p, e, "attribute of self " + ast.unparse(e))
        t, ty, pure = expr(env, e.value)
        if ty == FUNC and e.attr == "blocks":
            return "(function_blocks f)", LBLK, True
        if ty != BLK or (e.attr, ty) not in TG.ATTRS:
            fail(p, e, f"attribute .{e.attr} of a value of type {ty}")
        g, rty, gpure = TG.ATTRS[(e.attr, ty)]
        if gpure:
            fail(p, e, f"attribute .{e.attr}")
        out, _ = seq(env, [(t, pure)], lambda a: f"({g} f {a})", monadic_result=True)
        if rty == OPTBLK and ast.dump(e) in env.narrowed:
            # tested `is not None` by the enclosing conditional expression
            out, _ = seq(env, [(out, False)], lambda a: f"(as_block {a})", monadic_result=True)
            return out, BLK, False
        return out, rty, False
    if isinstance(e, ast.Subscript):
        return subscript(env, e)
    if isinstance(e, ast.UnaryOp):
        if isinstance(e.op, ast.Not):
            t, ty, pure = expr(env, e.operand)
            if ty != BOOL:
                fail(p, e, f"`not` of a value of type {ty}")
            return (f"(negb {t})" if pure else f"(notE {t})"), BOOL, pure
        fail(p, e, "unary operator")
    if isinstance(e, ast.BoolOp):
        parts = [expr(env, v) for v in e.values]
        for (_, ty, _), v in zip(parts, e.values):
            if ty != BOOL:
                fail(p, v, f"operand of and/or of type {ty}")
        allpure = all(pure for _, _, pure in parts)
        if isinstance(e.op, ast.And):
            fn = "andb" if allpure else "andE"
        elif isinstance(e.op, ast.Or):
            fn = "orb" if allpure else "orE"
        else:
            fail(p, e, "boolean operator")
        terms = [t if allpure else as_monadic(t, pure) for t, _, pure in parts]
        out = terms[-1]
        for t in reversed(terms[:-1]):
            out = f"({fn} {t} {out})"
        return out, BOOL, allpure
    if isinstance(e, ast.Compare):
        if len(e.ops) != 1:
            fail(p, e, "comparison chain " + ast.unparse(e))
        op, rhs = e.ops[0], e.comparators[0]
        if isinstance(op, (ast.Is, ast.IsNot)):
            if not is_none(rhs):
                fail(p, e, "`is` with something else than None")
            tenv = env.child()
            tenv.narrowed = frozenset()
            t, ty, pure = expr(tenv, e.left)
            if ty != OPTBLK:
                fail(p, e, f"`is None` test of a value of type {ty}")
            build = (lambda a: f"(opt_is_some {a})") if isinstance(op, ast.IsNot) else (lambda a: f"(negb (opt_is_some {a}))")
            out, pure2 = seq(env, [(t, pure)], build)
            return out, BOOL, pure2
        if isinstance(op, (ast.In, ast.NotIn)):
            x, xty, xp = expr(env, e.left)
            l, lty, lp = expr(env, rhs)
            if xty != BLK or lty != LBLK:
                fail(p, e, f"`in` on values of types {xty}, {lty}")
            neg = isinstance(op, ast.NotIn)
            out, pure = seq(env, [(x, xp), (l, lp)], lambda a, b: (f"(negb (blk_in {a} {b}))" if neg else f"(blk_in {a} {b})"))
            return out, BOOL, pure
        if isinstance(op, ast.NotEq):
            l, lty, lp = expr(env, e.left)
            r, rty, rp = expr(env, rhs)
            if not lty == rty == DOM:
                fail(p, e, f"`!=` on values of types {lty}, {rty}")
            out, pure = seq(env, [(l, lp), (r, rp)], lambda a, b: f"(dom_neq {a} {b})")
            return out, BOOL, pure
        fail(p, e, "comparison " + ast.unparse(e))
    if isinstance(e, ast.List):
        if not e.elts:
            return "[]", LIST_ANY, True
        parts = [expr(env, x) for x in e.elts]
        if {ty for _, ty, _ in parts} != {BLK}:
            fail(p, e, "list literal " + ast.unparse(e) + " with elements of types " + ", ".join(ty for _, ty, _ in parts))
        out, pure = seq(env, [(t, pu) for t, _, pu in parts], lambda *a: "[" + "; ".join(a) + "]")
        return out, LBLK, pure
    if isinstance(e, ast.BinOp):
        if isinstance(e.op, ast.Add):
            l, lty, lp = expr(env, e.left)
            r, rty, rp = expr(env, e.right)
            ty = compatible(lty, rty)
            if ty is None or not ty.startswith("list ") or ty == LIST_ANY:
                fail(p, e, f"`+` on values of types {lty}, {rty}")
            out, pure = seq(env, [(l, lp), (r, rp)], lambda a, b: f"({a} ++ {b})")
            return out, ty, pure
        fail(p, e, "binary operator " + ast.unparse(e))
    if isinstance(e, ast.IfExp):
        c, cty, cp = expr(env, e.test)
        if cty != BOOL:
            fail(p, e, f"condition of type {cty}")
        benv = env.child()
        benv.narrowed = env.narrowed | frozenset(not_none_tests(e.test))
        a, aty, ap = expr(benv, e.body)
        b, bty, bp = expr(env, e.orelse)
        ty = compatible(aty, bty)
        if ty is None or ty == LIST_ANY:
            fail(p, e, f"branches of types {aty}, {bty}")
        if cp and ap and bp:
            return f"(if {c} then {a} else {b})", ty, True
        return f"(ifE {as_monadic(c, cp)} {as_monadic(a, ap)} {as_monadic(b, bp)})", ty, False
    if isinstance(e, ast.Call):
        return call(env, e)
    fail(p, e, "expression " + ast.unparse(e)[:60])


def subscript(env, e):
    p = env.path
    s = e.slice
    # self._block_contexts[key][b] (the defaultdict read is only accepted inside this shape)
    if isinstance(e.value, ast.Subscript) and is_block_contexts(env, e.value.value):
        k, kty, kp = expr(env, e.value.slice)
        b, bty, bp = expr(env, s)
        if kty != KEY or bty != BLK:
            fail(p, e, f"self._block_contexts subscripted with values of types {kty}, {bty}")
        out, _ = seq(env, [(k, kp), (b, bp)], lambda x, y: f"(dict_get T (ddict_get {SELF_CTX} {x}) {y})", monadic_result=True)
        return out, DOM, False
    if is_block_contexts(env, e.value):
        fail(p, e, "self._block_contexts[..] outside self._block_contexts[key][block]: " + ast.unparse(e))
    v, vty, vp = expr(env, e.value)
    if vty == LBLK:
        if isinstance(s, ast.Constant) and s.value == 0 and not isinstance(s.value, bool):
            out, _ = seq(env, [(v, vp)], lambda a: f"(list_head {a})", monadic_result=True)
            return out, BLK, False
        if (
            isinstance(s, ast.Slice)
            and s.upper is None
            and s.step is None
            and isinstance(s.lower, ast.Constant)
            and s.lower.value == 1
            and not isinstance(s.lower.value, bool)
        ):
            out, pure = seq(env, [(v, vp)], lambda a: f"(list_tail {a})")
            return out, LBLK, pure
        fail(p, e, "subscript of a list " + ast.unparse(e))
    if isinstance(s, ast.Slice):
        fail(p, e, "slice " + ast.unparse(e))
    k, kty, kp = expr(env, s)
    if vty == GDICT:
        if kty != KEY:
            fail(p, e, f"dictionary key of type {kty}")
        out, _ = seq(env, [(v, vp), (k, kp)], lambda x, y: f"(kdict_get {x} {y})", monadic_result=True)
        return out, DICT, False
    if vty == DICT:
        if kty != BLK:
            fail(p, e, f"dictionary key of type {kty}")
        out, _ = seq(env, [(v, vp), (k, kp)], lambda x, y: f"(dict_get T {x} {y})", monadic_result=True)
        return out, DOM, False
    fail(p, e, f"subscript of a value of type {vty}")


def key_arg(env, e, what):
    """the first argument of an abstract method / neighbourhood method: a variable holding an analysis key"""
    if not isinstance(e, ast.Name) or env.vars.get(e.id) != KEY:
        fail(env.path, e, f"the key argument of {what} is not a key variable: " + ast.unparse(e)[:40])
    return e.id


def call(env, e):
    p = env.path
    if e.keywords:
        fail(p, e, "keyword arguments " + ast.unparse(e)[:60])
    if is_self_call(e):
        if "self" in env.vars:
            fail(p, e, "self is re-bound")
        m = e.func.attr
        if m in DOMAIN_OPS and m in ("_universal_set", "_null_set", "_union", "_intersection"):
            coq, n = DOMAIN_METHODS[m]
            if len(e.args) != n + 1:
                fail(p, e, f"self.{m} with {len(e.args)} arguments")
            k = key_arg(env, e.args[0], "self." + m)
            parts = [expr(env, a) for a in e.args[1:]]
            for (_, ty, _), a in zip(parts, e.args[1:]):
                if ty != DOM:
                    fail(p, a, f"argument of self.{m} of type {ty}")
            if n == 0:
                return f"({coq} {k})", DOM, True
            out, pure = seq(env, [(t, pu) for t, _, pu in parts], lambda *a: f"({coq} {k} " + " ".join(a) + ")")
            return out, DOM, pure
        if m in NEIGHBOURHOOD:
            if len(e.args) != 3:
                fail(p, e, f"self.{m} with {len(e.args)} arguments")
            k = key_arg(env, e.args[0], "self." + m)
            b, bty, bp = expr(env, e.args[1])
            d, dty, dp = expr(env, e.args[2])
            if bty != BLK or dty != DICT:
                fail(p, e, f"arguments of self.{m} of types {bty}, {dty}")
            out, _ = seq(env, [(b, bp), (d, dp)], lambda x, y: f"({NEIGHBOURHOOD[m]} {k} {x} {y})", monadic_result=True)
            return out, DOM, False
        if m in METHODS:
            fail(p, e, f"self.{m}(..) is only accepted as the statement `x = self.{m}(keys, block, <variable>)`")
        fail(p, e, "method call " + ast.unparse(e)[:60])
    if not isinstance(e.func, ast.Name):
        fail(p, e, "call " + ast.unparse(e)[:60])
    fn = e.func.id
    if fn in env.vars:
        fail(p, e, f"call of the local variable {fn}")
    if fn in TG.GRAPH_FUNCS:
        need_origin(env, e, fn, {UA_MODULE + "." + fn})
        g, atys, rty = TG.GRAPH_FUNCS[fn]
        if len(e.args) != len(atys):
            fail(p, e, f"{fn} with {len(e.args)} arguments")
        parts = [expr(env, a) for a in e.args]
        for (_, ty, _), a, aty in zip(parts, e.args, atys):
            if ty != aty:
                fail(p, a, f"argument of {fn} of type {ty}, expected {aty}")
        rest = [(t, pu) for (t, ty, pu) in parts if ty != FUNC]
        out, _ = seq(env, rest, lambda *a: f"({g} f " + " ".join(a) + ")", monadic_result=True)
        return out, rty, False
    fail(p, e, "call " + ast.unparse(e)[:60])


# ----------------------------------------------------------------------------- statements
FORBIDDEN = (
    ast.Try, ast.With, ast.FunctionDef, ast.AsyncFunctionDef, ast.Lambda, ast.NamedExpr, ast.AugAssign, ast.Delete, ast.Global,
    ast.Nonlocal, ast.ListComp, ast.GeneratorExp, ast.SetComp, ast.DictComp, ast.Yield, ast.YieldFrom, ast.Raise, ast.Break, ast.Continue,
    ast.Await, ast.ClassDef, ast.Import, ast.ImportFrom, ast.Starred, ast.Assert,
)  # fmt: skip


def check_name(env, name, node):
    if name in RESERVED or name.startswith("tmp"):
        fail(env.path, node, f"variable name {name} is reserved by the translator")
    if not name.isidentifier() or not name.isascii():
        fail(env.path, node, f"variable name {name}")


def is_append(st):
    v = st.value
    return (
        isinstance(v, ast.Call)
        and isinstance(v.func, ast.Attribute)
        and v.func.attr == "append"
        and isinstance(v.func.value, ast.Name)
        and len(v.args) == 1
        and not v.keywords
    )


def merge_call(st):
    """`x = self._merge_information_*(a, b, g)` -> the Call, else None"""
    if isinstance(st, ast.Assign) and is_self_call(st.value) and st.value.func.attr in METHODS and METHODS[st.value.func.attr]["kind"] == "merge":
        return st.value
    return None


def store_root(env, tg):
    """the variable a subscript store `root[..] = ` / `root[..][..] = ` mutates"""
    v = tg
    while isinstance(v, ast.Subscript):
        v = v.value
    if isinstance(v, ast.Name):
        return v.id
    if is_self_attr(v, "_block_contexts"):
        return SELF_CTX
    fail(env.path, tg, "assignment target " + ast.unparse(tg)[:60])


def assigned_in(env, stmts, in_for):
    """names (re)bound / objects mutated by the statements, in order of first occurrence"""
    out = []

    def add(n):
        if n not in out:
            out.append(n)

    def visit(st):
        # statements in source order
        for node in ast.walk(st):
            if isinstance(node, FORBIDDEN) or (in_for and isinstance(node, (ast.Return, ast.While))):
                fail(env.path, node, "statement/expression not accepted in a loop body: " + type(node).__name__)
        if isinstance(st, (ast.Assign, ast.AnnAssign)):
            tgs = st.targets if isinstance(st, ast.Assign) else [st.target]
            if len(tgs) != 1:
                fail(env.path, st, "chained assignment")
            tg = tgs[0]
            if isinstance(tg, ast.Name):
                add(tg.id)
            elif isinstance(tg, ast.Subscript):
                add(store_root(env, tg))
            else:
                fail(env.path, st, "assignment target " + ast.unparse(tg)[:60])
            mc = merge_call(st)
            if mc is not None and len(mc.args) == 3 and isinstance(mc.args[2], ast.Name):
                add(mc.args[2].id)
        elif isinstance(st, ast.Expr) and is_append(st):
            add(st.value.func.value.id)
        elif isinstance(st, ast.If):
            for s in st.body + st.orelse:
                visit(s)
        elif isinstance(st, (ast.For, ast.While)):
            if st.orelse:
                fail(env.path, st, "loop with else")
            for s in st.body:
                visit(s)
        elif isinstance(st, (ast.Return, ast.Pass)) or (isinstance(st, ast.Expr) and isinstance(st.value, ast.Constant) and isinstance(st.value.value, str)):
            pass
        else:
            fail(env.path, st, "statement " + ast.unparse(st)[:60])

    for st in stmts:
        visit(st)
    return out


def bind_var(env, name, node, t, ty, pure, rest_of):
    """`name = <t>`; a re-assignment must keep the type of the variable"""
    if name != SELF_CTX:
        check_name(env, name, node)
    if ty in (FUNC, LIST_ANY, OPTBLK):
        fail(env.path, node, f"assignment of a value of type {ty} to {name}")
    if name in env.vars and env.vars[name] != ty:
        fail(env.path, node, f"re-assignment of {name} changes its type from {env.vars[name]} to {ty}")
    rest = rest_of(env.child(**{name: ty}))
    if pure:
        return f"(let {name} := {t} in\n{rest})"
    return f"(bind {t} (fun {name} =>\n{rest}))"


def end_of_function(env, line):
    if env.spec["kind"] == "analysis":
        # the method returns None: the translated function returns the final self._block_contexts
        return f"(ret (Some {SELF_CTX}))"
    raise TranslateError(f"translator: {env.path}:{line}: control reaches the end of the function without return")


def store(env, st, tg, value, rest_of):
    """`root[k] = v` / `root[k][b] = v`"""
    p = env.path
    root = store_root(env, tg)
    if root not in env.vars or env.vars[root] != GDICT:
        fail(p, st, f"store into {root}, which is not a dictionary of dictionaries bound in the function")
    if isinstance(tg.value, ast.Subscript):
        # root[k][b] = v : the value first, then the inner dictionary, then the store (Python's order)
        if isinstance(tg.value.value, ast.Subscript) or root == SELF_CTX:
            fail(p, st, "assignment target " + ast.unparse(tg)[:60])
        v, vty, vp = expr(env, value)
        k, kty, kp = expr(env, tg.value.slice)
        b, bty, bp = expr(env, tg.slice)
        if vty != DOM or kty != KEY or bty != BLK:
            fail(p, st, f"store {root}[{kty}][{bty}] = {vty}")
        if not kp or not bp:
            fail(p, st, "store whose keys can raise")
        inner = env.fresh() if not vp else None
        get = f"(kdict_get {root} {k})"
        d = env.fresh()
        vt = inner if inner else v
        out = bind_var(env, root, st, f"(kdict_set {root} {k} (dict_set {d} {b} {vt}))", GDICT, True, rest_of)
        out = f"(bind {get} (fun {d} =>\n{out}))"
        if inner:
            out = f"(bind {v} (fun {inner} =>\n{out}))"
        return out
    # root[k] = v
    k, kty, kp = expr(env, tg.slice)
    if kty != KEY or not kp:
        fail(p, st, f"store {root}[{kty}]")
    if isinstance(value, ast.Dict) and not value.keys:
        if root == SELF_CTX:
            fail(p, st, "self._block_contexts[key] = {}")
        return bind_var(env, root, st, f"(kdict_set {root} {k} dict_empty)", GDICT, True, rest_of)
    if root == SELF_CTX:
        # self._block_contexts[key] = g[key]: aliases the inner dictionary; only as the closing loop of the function
        if not (env.spec["kind"] == "analysis" and env.depth == 1 and not env.in_while and env.closing):
            fail(p, st, "self._block_contexts[key] = .. outside the closing loop of the function")
        v, vty, vp = expr(env, value)
        if vty != DICT or not isinstance(value, ast.Subscript):
            fail(p, st, f"store self._block_contexts[key] = <{vty}>")
        out, pure = seq(env, [(v, vp)], lambda a: f"(kdict_set {root} {k} {a})")
        return bind_var(env, root, st, out, GDICT, pure, rest_of)
    fail(p, st, f"store {root}[key] = {ast.unparse(value)[:40]}: only {{}} may be stored under a key")


def block(env, stmts, fall):
    """stmts: statement list; fall: function env -> term for what follows the block (None: the function ends).
    Returns a term of type py R."""
    p = env.path
    stmts = strip_doc(stmts)
    if not stmts:
        if fall is None:
            return end_of_function(env, "?")
        return fall(env)
    st, rest = stmts[0], stmts[1:]
    rest_of = lambda env2: block(env2, rest, fall)  # noqa: E731
    if isinstance(st, ast.Return):
        if env.depth or env.in_while:
            fail(p, st, "return in a loop body")
        if rest:
            fail(p, rest[0], "statement after return")
        if env.spec["kind"] != "merge" or st.value is None:
            fail(p, st, "return " + ast.unparse(st)[:40])
        t, ty, pure = expr(env, st.value)
        if ty != BOOL:
            fail(p, st, f"return of a value of type {ty}, expected bool")
        d = env.spec["dname"]
        out, _ = seq(env, [(t, pure)], lambda a: f"(ret ({a}, {d}))", monadic_result=True)
        return out
    if isinstance(st, ast.Pass):
        return rest_of(env)
    if isinstance(st, ast.AnnAssign):
        # g: Dict[str, Dict[BasicBlock, Any]] = {}
        if not isinstance(st.target, ast.Name) or st.value is None or not isinstance(st.value, ast.Dict) or st.value.keys:
            fail(p, st, "annotated assignment " + ast.unparse(st)[:60])
        if ANNOTATIONS.get(ast.unparse(st.annotation)) != GDICT:
            fail(p, st, "annotation " + ast.unparse(st.annotation))
        if st.target.id in env.vars or env.depth or env.in_while:
            fail(p, st, f"{st.target.id} is created twice / in a loop")
        return bind_var(env, st.target.id, st, "kdict_empty", GDICT, True, rest_of)
    if isinstance(st, ast.Assign):
        if len(st.targets) != 1:
            fail(p, st, "chained assignment")
        tg = st.targets[0]
        if isinstance(tg, ast.Subscript):
            return store(env, st, tg, st.value, rest_of)
        if not isinstance(tg, ast.Name):
            fail(p, st, "assignment target " + ast.unparse(tg)[:60])
        mc = merge_call(st)
        if mc is not None:
            # x = self._merge_information_*(keys, b, g): g is mutated by the callee
            spec = METHODS[mc.func.attr]
            if env.spec["kind"] != "analysis" or mc.keywords or len(mc.args) != 3 or "self" in env.vars:
                fail(p, st, "call " + ast.unparse(mc)[:60])
            g = mc.args[2]
            if not isinstance(g, ast.Name) or env.vars.get(g.id) != GDICT or g.id == SELF_CTX:
                fail(p, st, f"the third argument of self.{mc.func.attr} must be a dictionary variable")
            a, aty, ap = expr(env, mc.args[0])
            b, bty, bp = expr(env, mc.args[1])
            if aty != LKEY or bty != BLK:
                fail(p, st, f"arguments of self.{mc.func.attr} of types {aty}, {bty}")
            out, _ = seq(env, [(a, ap), (b, bp)], lambda x, y: f"({spec['gen']} {x} {y} {g.id} {SELF_CTX})", monadic_result=True)
            tmp = env.fresh()
            inner = bind_var(env, tg.id, st, f"(fst {tmp})", BOOL, True, lambda env2: bind_var(env2, g.id, st, f"(snd {tmp})", GDICT, True, rest_of))
            return f"(bind {out} (fun {tmp} =>\n{inner}))"
        if isinstance(st.value, ast.Dict):
            fail(p, st, "dictionary literal outside `g: Dict[..] = {}` / `g[key] = {}`")
        t, ty, pure = expr(env, st.value)
        return bind_var(env, tg.id, st, t, ty, pure, rest_of)
    if isinstance(st, ast.Expr):
        if is_append(st):
            x = st.value.func.value.id
            if env.vars.get(x) != LBLK:
                fail(p, st, f".append on {x}")
            t, ty, pure = expr(env, st.value.args[0])
            if ty != BLK:
                fail(p, st, f".append of a value of type {ty}")
            out, pure2 = seq(env, [(t, pure)], lambda a: f"({x} ++ [{a}])")
            return bind_var(env, x, st, out, LBLK, pure2, rest_of)
        fail(p, st, "expression statement " + ast.unparse(st)[:60])
    if isinstance(st, ast.If):
        t, ty, pure = expr(env, st.test)
        if ty != BOOL:
            fail(p, st, f"if-condition of type {ty}")
        cont = lambda env2: block(env2, rest, fall)  # noqa: E731
        then_t = block(env, st.body, cont)
        else_t = block(env, st.orelse, cont) if st.orelse else cont(env)
        if pure:
            return f"(if {t}\n then\n{indent(then_t)}\n else\n{indent(else_t)})"
        return f"(ifE {t}\n{indent(then_t)}\n{indent(else_t)})"
    if isinstance(st, ast.For):
        return for_term(env, st, rest, fall)
    if isinstance(st, ast.While):
        return while_term(env, st, rest, fall)
    fail(p, st, "statement " + ast.unparse(st)[:60])


def for_term(env, st, rest, fall):
    p = env.path
    if st.orelse or getattr(st, "type_comment", None) or env.depth >= 2 or env.in_while and env.depth >= 1:
        fail(p, st, "for-else / loops nested too deeply")
    if not isinstance(st.target, ast.Name):
        fail(p, st, "loop header " + ast.unparse(st)[:60])
    x = st.target.id
    check_name(env, x, st)
    if x in env.vars:
        fail(p, st, f"loop variable {x} shadows a variable")
    # the iterated list is evaluated once, before the loop
    it, lty, ipure = expr(env, st.iter)
    if lty not in (LBLK, LKEY):
        fail(p, st, f"iteration over a value of type {lty}")
    body = strip_doc(st.body)
    assigned = assigned_in(env, body, True)
    if x in assigned:
        fail(p, st, "loop body assigns the loop variable")
    state = [n for n in assigned if n in env.vars]
    if not state:
        fail(p, st, "loop without carried variable")
    if isinstance(st.iter, ast.Name) and st.iter.id in state:
        fail(p, st, "loop body mutates the list it iterates over")
    stys = [env.vars[n] for n in state]
    benv = env.child(**{x: lty[len("list "):]})
    benv.depth = env.depth + 1
    # the closing loop of an analysis method: for key in analysis_keys: self._block_contexts[key] = g[key]
    benv.closing = env.spec["kind"] == "analysis" and env.depth == 0 and not env.in_while and not rest and fall is None

    def body_end(env2):
        for n, ty in zip(state, stys):
            if env2.vars[n] != ty:
                fail(p, st, f"loop body changes the type of {n} from {ty} to {env2.vars[n]}")
        return f"(ret {tuple_term(state)})"

    stv = "st" if env.depth == 0 else "st" + str(env.depth + 1)
    accv = "acc" if env.depth == 0 else "acc" + str(env.depth + 1)
    lst = it if ipure else env.fresh()
    body_t = block(benv, body, body_end)
    for n, pr in reversed(list(zip(state, projections(len(state), stv)))):
        body_t = f"(let {n} := {pr} in\n{body_t})"
    loop = f"(fold_left (fun {accv} {x} => (bind {accv} (fun {stv} =>\n{indent(body_t, 2)})))\n  {lst} (ret {tuple_term(state)}))"
    tmp = env.fresh()
    after = block(env, rest, fall)
    for n, pr in reversed(list(zip(state, projections(len(state), tmp)))):
        after = f"(let {n} := {pr} in\n{after})"
    out = f"(bind {loop} (fun {tmp} =>\n{after}))"
    if not ipure:
        out = f"(bind {it} (fun {lst} =>\n{out}))"
    return out


def while_term(env, st, rest, fall):
    """`while xs: body` -> a separate Fixpoint over the fuel (env.aux), called here"""
    p = env.path
    spec = env.spec
    if spec["kind"] != "analysis" or env.depth or env.in_while or st.orelse or "loop_done" in spec:
        fail(p, st, "while loop (only one, at the top level of forward_analyis / backward_analysis)")
    if not isinstance(st.test, ast.Name) or env.vars.get(st.test.id) != LBLK:
        fail(p, st, "loop condition " + ast.unparse(st.test)[:40] + " (expected: a list variable)")
    body = strip_doc(st.body)
    assigned = assigned_in(env, body, False)
    for node in ast.walk(st):
        if isinstance(node, (ast.Return, ast.While)) and node is not st:
            fail(p, node, "return / while in the body of the while loop")
    state = [n for n in assigned if n in env.vars]
    if st.test.id not in state:
        fail(p, st, "the loop body does not re-bind the list of the loop condition")
    params = [n for n in env.vars]
    name = spec["loop"]
    stys = [env.vars[n] for n in state]
    sty = " * ".join(COQ_TYPE[t] if " " not in COQ_TYPE[t] else f"({COQ_TYPE[t]})" for t in stys)
    call_t = lambda: f"({name} fuel " + " ".join(params) + ")"  # noqa: E731

    def again(env2):
        for n, ty in zip(state, stys):
            if env2.vars[n] != ty:
                fail(p, st, f"loop body changes the type of {n}")
        return call_t()

    benv = env.child()
    benv.in_while = True
    body_t = block(benv, body, again)
    ptxt = " ".join(f"({n} : {COQ_TYPE[env.vars[n]]})" for n in params)
    fix = (
        f"Fixpoint {name} (fuel : nat) {ptxt} {{struct fuel}} : py (option ({sty})) :=\n"
        f"  match fuel with\n"
        f"  | O => (ret None) (* the iteration budget is exhausted *)\n"
        f"  | S fuel =>\n"
        f"    (if (list_nonempty {st.test.id})\n"
        f"     then\n{indent(body_t, 8)}\n"
        f"     else\n"
        f"        (ret (Some {tuple_term(state)})))\n"
        f"  end."
    )
    env.aux.append(fix)
    spec["loop_done"] = True
    tmp, tmp2 = env.fresh(), env.fresh()
    after = block(env, rest, fall)
    for n, pr in reversed(list(zip(state, projections(len(state), tmp2)))):
        after = f"(let {n} := {pr} in\n{after})"
    return f"(bind {call_t()} (fun {tmp} =>\n(match {tmp} with\n | None => (ret None)\n | Some {tmp2} =>\n{indent(after)}\n end)))"


# ----------------------------------------------------------------------------- source checks
def check_fingerprints():
    for rel, cname, mname, text in FINGERPRINTS:
        path = os.path.join(T, rel)
        cls = find_class(parse(path), cname, path)
        got = TG.member_text(TG.member(path, cls, mname))
        if not same_text(ast.parse(got), text):
            raise TranslateError(f"translator: {path}: {cname}.{mname} changed (its entry in the glue table of Gen/SolverGen.v is no longer justified):\n{got}")


def check_block_contexts(path, cls):
    """self._block_contexts is the defaultdict(dict) created in __init__ and is never re-assigned as a whole"""
    init = TG.member(path, cls, "__init__")
    texts = [ast.unparse(s) for s in strip_doc(init.body)]
    if sum(1 for t in texts if same_text(ast.parse(t), INIT_STATEMENT)) != 1:
        fail(path, init, f"__init__ of {cls.name} no longer contains exactly once: {INIT_STATEMENT}")
    hits = []
    tc = os.path.join(T, os.path.dirname(GEN_REL))
    for root, _, files in os.walk(tc):
        for fn in sorted(files):
            if fn.endswith(".py"):
                fp = os.path.join(root, fn)
                for node in ast.walk(parse(fp)):
                    tgs = node.targets if isinstance(node, (ast.Assign, ast.Delete)) else [node.target] if isinstance(node, (ast.AnnAssign, ast.AugAssign)) else []
                    for tg in tgs:
                        for n in tg.elts if isinstance(tg, (ast.Tuple, ast.List)) else [tg]:
                            n = n.value if isinstance(n, ast.Starred) else n
                            if isinstance(n, ast.Attribute) and n.attr == "_block_contexts":
                                hits.append(f"{fp}:{node.lineno}")
    if len(hits) != 1 or not hits[0].startswith(path + ":"):
        raise TranslateError(f"translator: {tc}: self._block_contexts must be assigned (as a whole) once, in __init__ of generic.py; found {hits}")


def signature(path, fn, expected, returns):
    TG.signature(path, fn, expected, returns)


# ----------------------------------------------------------------------------- emission
def emit_method(w, gp, cls, gbound, name):
    spec = dict(METHODS[name])
    fn = TG.find_method(gp, cls, name)
    check_no_override(name)
    if spec["kind"] == "merge":
        d = spec["dname"]
        signature(gp, fn, [("self", None), ("analysis_keys", "List[str]"), ("block", "'BasicBlock'"), (d, "Dict[str, Dict['BasicBlock', Any]]")], "bool")
        vars_ = {"analysis_keys": LKEY, "block": BLK, d: GDICT, SELF_CTX: GDICT}
        head = f"Definition {spec['gen']} (analysis_keys : list string) (block : nat) ({d} : gdict) ({SELF_CTX} : gdict) : py (bool * gdict) :="
        note = f"returns (the returned bool, the final state of the dictionary {d})"
    else:
        signature(gp, fn, [("self", None), ("analysis_keys", "List[str]"), ("worklist", "List['BasicBlock']")], "None")
        vars_ = {"analysis_keys": LKEY, "worklist": LBLK, SELF_CTX: GDICT}
        head = f"Definition {spec['gen']} (fuel : nat) (analysis_keys : list string) (worklist : list nat) ({SELF_CTX} : gdict) : py (option gdict) :="
        note = "returns the final state of self._block_contexts; Some None: the iteration budget of the while loop is exhausted"
    for node in ast.walk(fn):
        if isinstance(node, ast.Name) and node.id == "self" and isinstance(node.ctx, (ast.Store, ast.Del)):
            fail(gp, node, "self is re-bound")
    env = Env(gp, vars_, spec, gbound)
    body = block(env, fn.body, None)
    if spec["kind"] == "analysis" and "loop_done" not in spec:
        fail(gp, fn, f"{name} no longer contains the while loop")
    for a in env.aux:
        w(f"  (* {GEN_REL}: DataflowTransactionContext.{name} (line {fn.lineno}), the `while` loop *)")
        w(indent(a, 2))
        w("")
    w(f"  (* {GEN_REL}: DataflowTransactionContext.{name} (line {fn.lineno});")
    w(f"     {note} *)")
    # a definition that uses one of univ / null (union / inter) takes both: see tcommon.pin_twins
    w(f"  {head}\n{indent(pin_twins(body), 4)}.")
    w("")


def emit_solver(outdir):
    gp = os.path.join(T, GEN_REL)
    gtree = parse(gp)
    TG.check_fingerprints()  # the glue table of Gen/GraphGen.v, used here as well
    check_fingerprints()
    check_imports(gp, gtree, {**{n: UA_MODULE + "." + n for n in TG.GRAPH_FUNCS}, "defaultdict": "collections.defaultdict"})
    TG.check_single_binding(gp, gtree, list(TG.GRAPH_FUNCS) + ["defaultdict"])
    cls = find_class(gtree, "DataflowTransactionContext", gp)
    check_methods(gp, cls)  # the domain operations are the abstract methods
    TG.check_init(gp, cls)  # self._function
    check_block_contexts(gp, cls)
    for m in NEIGHBOURHOOD:
        check_no_override(m)

    L = []
    w = L.append
    w("(* GENERATED by tools/translate.py (translate_solver) from /repo/tealer -- do not edit *)")
    w("(* transaction_context/generic.py: DataflowTransactionContext._merge_information_forward, forward_analyis,")
    w("   _merge_information_backward, backward_analysis, statement by statement.  See tools/translate_solver.py for the reading. *)")
    w("From Coq Require Import String List NArith ZArith Bool Arith.")
    w("From Tealer Require Import Syntax Cfg StackAst Keys KeysGen Analysis GraphGen.")
    w("Import ListNotations.")
    w("Open Scope list_scope.")
    w(PRELUDE.rstrip("\n"))
    w("")
    w("  (* ====================================================================== *)")
    w("  (* TRANSLATED functions                                                     *)")
    w("  (* ====================================================================== *)")
    gbound = bound_names(gtree)
    for name in METHODS:
        emit_method(w, gp, cls, gbound, name)
    w("End SolverGen.")
    os.makedirs(outdir, exist_ok=True)
    with open(os.path.join(outdir, "SolverGen.v"), "w") as fh:
        fh.write("\n".join(L) + "\n")
    return len(METHODS)


def main():
    outdir = sys.argv[1] if len(sys.argv) > 1 else os.path.join(os.path.dirname(os.path.abspath(__file__)), "..", "coq", "Gen")
    try:
        n = emit_solver(outdir)
    except TranslateError as e:
        print(str(e))
        sys.exit(2)
    print(f"translate_solver: {n} worklist-solver functions -> {outdir}/SolverGen.v")


if __name__ == "__main__":
    main()
