#!/venv/bin/python
"""Self-test of tools/translate_version.py (the regenerated version / mode / cost reporting logic, Gen/VersionGen.v).

(a) runs the translator on the clean source ($VERIF_REPO, default /tmp/cleanrepo) and checks that the output is the
    committed coq/Gen/VersionGen.v, compiles, and that Lemmas/VersionGenLemmas.v compiles against it;
(b) applies small mutations to a scratch copy of teal/parse_teal.py / teal.py / basic_blocks.py / instructions.py /
    the enums / a field table and shows that, for each, either the translator stops (TranslateError) or the generated
    Gallina differs AND Lemmas/VersionGenLemmas.v no longer compiles against it.  For the mutants the translator accepts,
    the PROBE section of VersionGenLemmas.v (statements about the generated functions alone on two concrete programs,
    proved by vm_compute) is compiled on its own against the mutant as well: it tells whether the instances distinguish
    the mutant semantically, independently of the proof scripts.

Precondition: coq/ has been built (`make`).  Every coqc runs under `timeout`.  Exit status 0 iff every row has the
expected verdict.

usage: VERIF_REPO=/tmp/cleanrepo /venv/bin/python tools/test_translate_version.py [-v]
"""
import ast
import os
import re
import shutil
import subprocess
import sys
import tempfile

HERE = os.path.dirname(os.path.abspath(__file__))
ROOT = os.path.dirname(HERE)
COQ = os.path.join(ROOT, "coq")
PY = "/venv/bin/python"
REPO = os.environ.get("VERIF_REPO", "/tmp/cleanrepo")

PT = "tealer/teal/parse_teal.py"
TL = "tealer/teal/teal.py"
BB = "tealer/teal/basic_blocks.py"
INS = "tealer/teal/instructions/instructions.py"
EN = "tealer/utils/teal_enums.py"
CMP = "tealer/utils/comparable_enum.py"
TXF = "tealer/teal/instructions/transaction_field.py"

PROBE_HEAD = """From Coq Require Import String List NArith ZArith Bool Arith.
From Tealer Require Import Tables Syntax Parse Cfg KeysGen CfgGen VersionGen.
Import ListNotations.
Open Scope string_scope.
Open Scope list_scope.
"""


def sh(cmd, cwd=None, env=None):
    e = dict(os.environ)
    if env:
        e.update(env)
    p = subprocess.run(cmd, shell=True, cwd=cwd, stdout=subprocess.PIPE, stderr=subprocess.STDOUT, env=e, check=False)
    return p.returncode, p.stdout.decode(errors="replace")


# ----------------------------------------------------------------------------- mutations (text -> text)
def replace_once(src, old, new):
    if src.count(old) != 1:
        raise RuntimeError(f"mutation anchor found {src.count(old)} times: " + old[:60])
    return src.replace(old, new, 1)


def mut_cmp_le(src):
    """(1) _verify_version: `program_version <= ins.version` (an instruction of exactly the declared version is reported)"""
    return replace_once(src, "        if program_version < ins.version:\n", "        if program_version <= ins.version:\n")


def mut_field_ignored(src):
    """(2) _verify_version: the field's own version is ignored (the instruction's version is compared again)"""
    return replace_once(src, "                if program_version < field.version:\n", "                if program_version < ins.version:\n")


def mut_field_only(src):
    """(3) REGRESSION _verify_version: only the field version is checked (the instruction test is dead)"""
    return replace_once(src, "        if program_version < ins.version:\n", "        if program_version < ins.version and False:\n")


def mut_field_also(src):
    """(3') _verify_version: the field is checked even when the instruction itself is reported (two reports per line)"""
    return replace_once(src, "        else:\n            field = getattr(ins, \"field\", None)\n", "        if True:\n            field = getattr(ins, \"field\", None)\n")


def mut_mode_last(src):
    """(4) _detect_execution_mode: the LAST mode-specific instruction wins"""
    return replace_once(
        src,
        "    for ins in instructions:\n        if ins.mode != ExecutionMode.ANY:\n            return ins.mode\n    return ExecutionMode.ANY\n",
        "    mode = ExecutionMode.ANY\n    for ins in instructions:\n        if ins.mode != ExecutionMode.ANY:\n            mode = ins.mode\n    return mode\n",
    )


def mut_mode_pruned(src):
    """(5) parse_teal: the mode is detected on the pruned instruction list"""
    src = replace_once(src, "    mode = _detect_execution_mode(instructions)\n\n    version = 1\n", "    version = 1\n")
    return replace_once(
        src,
        "    all_reachable_blocks = sorted(list(set(all_reachable_blocks)), key=lambda bi: bi.idx)\n",
        "    mode = _detect_execution_mode(instructions)\n    all_reachable_blocks = sorted(list(set(all_reachable_blocks)), key=lambda bi: bi.idx)\n",
    )


def mut_verify_pruned(src):
    """(5') parse_teal: the versions are verified on the pruned instruction list"""
    src = replace_once(src, "    _verify_version(instructions, version)\n\n", "")
    return replace_once(
        src,
        "    all_reachable_blocks = sorted(list(set(all_reachable_blocks)), key=lambda bi: bi.idx)\n",
        "    _verify_version(instructions, version)\n    all_reachable_blocks = sorted(list(set(all_reachable_blocks)), key=lambda bi: bi.idx)\n",
    )


def mut_modes_swapped(src):
    """(6) _verify_version: Stateless / Stateful swapped in the classification"""
    src = replace_once(src, "        if ins.mode == ExecutionMode.STATEFUL:\n            stateful_ins.append(ins)\n", "        if ins.mode == ExecutionMode.STATELESS:\n            stateful_ins.append(ins)\n")
    return replace_once(src, "        elif ins.mode == ExecutionMode.STATELESS:\n            stateless_ins.append(ins)\n", "        elif ins.mode == ExecutionMode.STATEFUL:\n            stateless_ins.append(ins)\n")


def mut_ctype_swapped(src):
    """(6', teal.py) Teal.__init__: ApprovalProgram for a Stateless contract"""
    return replace_once(src, "            if mode == ExecutionMode.STATEFUL\n", "            if mode == ExecutionMode.STATELESS\n")


def mut_ctype_any(src):
    """(6'', teal.py) Teal.__init__: every contract that is not Stateless is an ApprovalProgram"""
    return replace_once(src, "            if mode == ExecutionMode.STATEFUL\n", "            if mode != ExecutionMode.STATELESS\n")


def mut_cost_tail(src):
    """(7, basic_blocks.py) BasicBlock.cost: summed over self.instructions[1:]"""
    return replace_once(src, "        return sum(ins.cost for ins in self.instructions)\n", "        return sum(ins.cost for ins in self.instructions[1:])\n")


def mut_mixed_or(src):
    """(8) _verify_version: the mixed report is made when EITHER list is non-empty"""
    return replace_once(src, "    if stateless_ins and stateful_ins:\n", "    if stateless_ins or stateful_ins:\n")


def mut_mixed_no_error(src):
    """(9) _verify_version: a mixed program no longer sets the returned flag"""
    return replace_once(src, "            print(f\"\\t{ins.line}: {ins}\", file=sys.stderr)\n        error = True\n", "            print(f\"\\t{ins.line}: {ins}\", file=sys.stderr)\n")


def mut_default_version(src):
    """(10) parse_teal: the version of a program without pragma is 2"""
    return replace_once(src, "    version = 1\n", "    version = 2\n")


def mut_pragma_ignored(src):
    """(11) parse_teal: the pragma is looked for in the second instruction"""
    return replace_once(src, "    if isinstance(instructions[0], Pragma):\n", "    if isinstance(instructions[1:][0], Pragma):\n")


def mut_default_mode(src):
    """(12) _detect_execution_mode: a program without mode-specific instruction is Stateless"""
    return replace_once(src, "            return ins.mode\n    return ExecutionMode.ANY\n", "            return ins.mode\n    return ExecutionMode.STATELESS\n")


def mut_verify_skip_first(src):
    """(13) parse_teal: the first instruction is not verified"""
    return replace_once(src, "    _verify_version(instructions, version)\n", "    _verify_version(instructions[1:], version)\n")


def mut_kinds_tuple(src):
    """(14) _verify_version: GlobalField dropped from the isinstance tuple (global fields are never reported)"""
    return replace_once(src, "                    TransactionField,\n                    GlobalField,\n", "                    TransactionField,\n")


def mut_cmp_reversed(src):
    """(15) _verify_version: the comparison is reversed (old instructions are reported)"""
    return replace_once(src, "        if program_version < ins.version:\n", "        if ins.version < program_version:\n")


def mut_field_flag_no_error(src):
    """(16) _verify_version: an unsupported field no longer sets the returned flag"""
    return replace_once(src, "                        file=sys.stderr,\n                    )\n                    error = True\n", "                        file=sys.stderr,\n                    )\n")


def mut_report_order(src):
    """(17) _verify_version: the report lists the Application-only instructions under the Signature header"""
    return replace_once(src, "        for ins in stateless_ins:\n            print(f\"\\t{ins.line}: {ins}\", file=sys.stderr)\n", "        for ins in stateful_ins:\n            print(f\"\\t{ins.line}: {ins}\", file=sys.stderr)\n")


def mut_mode_any_first(src):
    """(18) _detect_execution_mode: the mode of the first instruction, whatever it is"""
    return replace_once(src, "        if ins.mode != ExecutionMode.ANY:\n            return ins.mode\n", "        if ins.mode == ins.mode:\n            return ins.mode\n")


def mut_message(src):
    """(s1) _verify_version: the text of a message edited (the harness matches it with a regular expression)"""
    return replace_once(src, "instruction is not supported in Teal version", "opcode is not supported in Teal version")


def mut_print_stdout(src):
    """(s2) _verify_version: the mixed header is written to stdout"""
    return replace_once(
        src,
        "            \"\\nprogram contains instructions specific to both Application and Signature Mode\",\n            file=sys.stderr,\n",
        "            \"\\nprogram contains instructions specific to both Application and Signature Mode\",\n",
    )


def mut_mode_getter(src):
    """(s3, instructions.py) Instruction.mode edited"""
    return replace_once(src, "        return self._mode\n", "        return ExecutionMode.ANY\n")


def mut_version_override(src):
    """(s4, instructions.py) a subclass overrides Instruction.version"""
    return replace_once(src, "class Err(Instruction):\n", "class Err(Instruction):\n    @property\n    def version(self) -> int:\n        return 9\n\n")


def mut_new_field_class(src):
    """(s5, instructions.py) a further opcode class gets a `.field` (unknown to Model/Cfg.ins_field)"""
    return replace_once(src, "class Err(Instruction):\n", "class Err(Instruction):\n    @property\n    def field(self) -> TransactionField:\n        return self._field\n\n")


def mut_enum_values(src):
    """(s6, teal_enums.py) two members of ExecutionMode share a value (== no longer separates them)"""
    return replace_once(src, "    STATELESS = 0\n    STATEFUL = 1\n    ANY = 2\n", "    STATELESS = 0\n    STATEFUL = 1\n    ANY = 1\n")


def mut_enum_ne(src):
    """(s7, comparable_enum.py) ComparableEnum.__ne__ edited"""
    return replace_once(src, "            return self.value != other.value\n", "            return self.value > other.value\n")


def mut_teal_mode_store(src):
    """(s8, teal.py) Teal.__init__ stores another mode than the one it derives the contract type from"""
    return replace_once(src, "        self._mode = mode\n", "        self._mode = ExecutionMode.ANY\n")


def mut_teal_ctor_args(src):
    """(s9) parse_teal: Teal(..) is built with another version"""
    return replace_once(src, "    teal = Teal(version, mode, instructions,", "    teal = Teal(1, mode, instructions,")


def mut_cost_len(src):
    """(s10, basic_blocks.py) BasicBlock.cost: the number of instructions"""
    return replace_once(src, "        return sum(ins.cost for ins in self.instructions)\n", "        return len(self.instructions)\n")


def mut_bb_teal(src):
    """(s11) parse_teal: the blocks are no longer attached to the contract (ins.cost reads bb.teal.version)"""
    return replace_once(src, "        bb.teal = teal\n        bb.tealer_comments.insert", "        bb.tealer_comments.insert")


def mut_field_base(src):
    """(s12, transaction_field.py) a field class no longer derives from TransactionField"""
    return replace_once(src, "class Sender(TransactionField):\n", "class Sender:\n")


def mut_instructions_rebound(src):
    """(s13) parse_teal: `instructions` filtered before the version / mode handling"""
    return replace_once(src, "    all_bbs = _add_basic_blocks_idx(all_bbs)\n", "    all_bbs = _add_basic_blocks_idx(all_bbs)\n    instructions = [i for i in instructions if i.bb in all_bbs]\n")


def mut_version_rebound(src):
    """(s14) parse_teal: the version is changed after it has been verified"""
    return replace_once(src, "    contract_entry_block = all_bbs[0]\n", "    contract_entry_block = all_bbs[0]\n    version = max(version, 2)\n")


def mut_break(src):
    """(s15) _verify_version: the loop stops at the first unsupported instruction"""
    return replace_once(src, "                file=sys.stderr,\n            )\n            error = True\n        else:\n", "                file=sys.stderr,\n            )\n            error = True\n            break\n        else:\n")


def mut_pragma_getter(src):
    """(s16, instructions.py) Pragma.program_version edited"""
    return replace_once(src, "        return self._program_version\n", "        return self._program_version + 1\n")


def mut_field_not_none(src):
    """[neutral] _verify_version: `field is not None and` dropped (isinstance(None, ..) is False anyway)"""
    return replace_once(src, "            if field is not None and isinstance(\n", "            if isinstance(\n")


MUTATIONS = [
    ("(1) version comparison `<=` for `<`", PT, mut_cmp_le),
    ("(2) field version ignored", PT, mut_field_ignored),
    ("(3) only the field version is checked", PT, mut_field_only),
    ("(3') field checked although the instruction is reported", PT, mut_field_also),
    ("(4) mode of the LAST mode-specific instruction", PT, mut_mode_last),
    ("(5) mode detected on the pruned list", PT, mut_mode_pruned),
    ("(5') versions verified on the pruned list", PT, mut_verify_pruned),
    ("(6) Stateless / Stateful swapped in _verify_version", PT, mut_modes_swapped),
    ("(6') contract type: Stateless -> ApprovalProgram", TL, mut_ctype_swapped),
    ("(6'') contract type: Any -> ApprovalProgram", TL, mut_ctype_any),
    ("(7) cost summed over self.instructions[1:]", BB, mut_cost_tail),
    ("(8) mixed report with `or`", PT, mut_mixed_or),
    ("(9) mixed program does not set the returned flag", PT, mut_mixed_no_error),
    ("(10) default version 2", PT, mut_default_version),
    ("(11) pragma looked for in the second instruction", PT, mut_pragma_ignored),
    ("(12) default mode Stateless", PT, mut_default_mode),
    ("(13) first instruction not verified", PT, mut_verify_skip_first),
    ("(14) GlobalField dropped from the isinstance tuple", PT, mut_kinds_tuple),
    ("(15) version comparison reversed", PT, mut_cmp_reversed),
    ("(16) unsupported field does not set the returned flag", PT, mut_field_flag_no_error),
    ("(17) report: wrong list under the Signature header", PT, mut_report_order),
    ("(18) mode of the first instruction, even Any", PT, mut_mode_any_first),
    ("(s1) text of a message edited", PT, mut_message),
    ("(s2) a message written to stdout", PT, mut_print_stdout),
    ("(s3) Instruction.mode edited", INS, mut_mode_getter),
    ("(s4) subclass overrides Instruction.version", INS, mut_version_override),
    ("(s5) further class with a `.field`", INS, mut_new_field_class),
    ("(s6) ExecutionMode: two members share a value", EN, mut_enum_values),
    ("(s7) ComparableEnum.__ne__ edited", CMP, mut_enum_ne),
    ("(s8) Teal.__init__ stores another mode", TL, mut_teal_mode_store),
    ("(s9) Teal(..) built with another version", PT, mut_teal_ctor_args),
    ("(s10) cost = len(self.instructions)", BB, mut_cost_len),
    ("(s11) bb.teal no longer set", PT, mut_bb_teal),
    ("(s12) field class outside TransactionField", TXF, mut_field_base),
    ("(s13) `instructions` re-bound before the slice", PT, mut_instructions_rebound),
    ("(s14) version re-bound after the slice", PT, mut_version_rebound),
    ("(s15) break in the loop of _verify_version", PT, mut_break),
    ("(s16) Pragma.program_version edited", INS, mut_pragma_getter),
]
# behaviour-preserving rewrites: reported, not required to be caught (the lemma file is tied to the generated text)
NEUTRAL = [("[neutral] `field is not None and` dropped", PT, mut_field_not_none)]


# ----------------------------------------------------------------------------- one run
def enclosing(vfile, line):
    name = "?"
    with open(vfile, encoding="utf-8") as f:
        for i, l in enumerate(f, 1):
            m = re.match(r"\s*(Lemma|Theorem|Corollary|Definition|Example)\s+(\w+)", l)
            if m and i <= line:
                name = m.group(2)
            if i > line:
                break
    return name


def probe_text():
    with open(os.path.join(COQ, "Lemmas", "VersionGenLemmas.v"), encoding="utf-8") as fh:
        src = fh.read()
    m = re.search(r"\(\* PROBE BEGIN \*\)(.*?)\(\* PROBE END \*\)", src, re.S)
    if not m:
        raise RuntimeError("PROBE section not found in VersionGenLemmas.v")
    return PROBE_HEAD + m.group(1)


def run_case(work, scratch, rel=None, mutate=None):
    gen = os.path.join(work, "Gen")
    lem = os.path.join(work, "Lemmas")
    os.makedirs(gen)
    os.makedirs(lem)
    path, orig = None, None
    if mutate:
        path = os.path.join(scratch, rel)
        with open(path, encoding="utf-8") as fh:
            orig = fh.read()
        new = mutate(orig)
        if new == orig:
            raise RuntimeError("mutation did not change the source")
        ast.parse(new)  # the mutant is valid Python
        with open(path, "w", encoding="utf-8") as fh:
            fh.write(new)
    try:
        rc, out = sh(f"{PY} {HERE}/translate_version.py {gen}", env={"VERIF_REPO": scratch})
    finally:
        if path:
            with open(path, "w", encoding="utf-8") as fh:
                fh.write(orig)
    res = {"translator": "ok" if rc == 0 else "STOPPED", "log": out.strip().replace(scratch + "/", ""), "text": None, "gen_ok": None, "lemmas_ok": None, "where": None, "probe_ok": None, "probe_where": None}
    if rc != 0:
        if rc != 2 or "translator:" not in out:
            res["translator"] = "CRASHED"
        return res
    with open(os.path.join(gen, "VersionGen.v"), encoding="utf-8") as fh:
        res["text"] = fh.read()
    # the other generated files are taken (compiled) from the built tree
    for f in os.listdir(os.path.join(COQ, "Gen")):
        if f.endswith(".vo") and f != "VersionGen.vo":
            os.symlink(os.path.join(COQ, "Gen", f), os.path.join(gen, f))
    lemv = os.path.join(lem, "VersionGenLemmas.v")
    shutil.copy(os.path.join(COQ, "Lemmas", "VersionGenLemmas.v"), lemv)
    q = f"-Q {COQ}/Model Tealer -Q {gen} Tealer -Q {COQ}/Spec Tealer -Q {COQ}/Lemmas Tealer"
    rc, out = sh(f"timeout 300 coqc {q} {gen}/VersionGen.v 2>&1")
    res["gen_ok"] = rc == 0
    res["log"] += "\n" + out[-1500:]
    if rc == 0:
        rc, out = sh(f"timeout 900 coqc {q} {lemv} 2>&1")
        res["lemmas_ok"] = rc == 0
        res["log"] += "\n" + out[-1500:]
        if rc != 0:
            m = re.search(r"line (\d+), characters", out)
            res["where"] = f"{enclosing(lemv, int(m.group(1)))} (line {m.group(1)})" if m else ("timeout" if rc == 124 else "?")
        prv = os.path.join(lem, "VersionProbe.v")
        with open(prv, "w", encoding="utf-8") as fh:
            fh.write(probe_text())
        rc, out = sh(f"timeout 300 coqc {q} {prv} 2>&1")
        res["probe_ok"] = rc == 0
        if rc != 0:
            m = re.search(r"line (\d+), characters", out)
            res["probe_where"] = enclosing(prv, int(m.group(1))) if m else ("timeout" if rc == 124 else "?")
    return res


def main():
    verbose = "-v" in sys.argv
    for f in ("Model/Cfg.vo", "Gen/KeysGen.vo", "Gen/CfgGen.vo", "Lemmas/CfgGenLemmas.vo", "Lemmas/VersionLemmas.vo", "Lemmas/TotalParse.vo"):
        if not os.path.exists(os.path.join(COQ, f)):
            print(f"precondition: {COQ}/{f} missing -- build coq/ first (make)")
            sys.exit(3)
    top = tempfile.mkdtemp(prefix="tver_")
    scratch = os.path.join(top, "repo")
    shutil.copytree(os.path.join(REPO, "tealer"), os.path.join(scratch, "tealer"), ignore=shutil.ignore_patterns("__pycache__"))
    rows = []
    ok = True
    try:
        base = run_case(os.path.join(top, "base"), scratch)
        same = None
        cur = os.path.join(COQ, "Gen", "VersionGen.v")
        if base["text"] is not None and os.path.exists(cur):
            with open(cur, encoding="utf-8") as fh:
                same = fh.read() == base["text"]
        good = base["translator"] == "ok" and base["gen_ok"] and base["lemmas_ok"] and base["probe_ok"] and same is True
        ok &= bool(good)
        rows.append(("(a) clean source", base["translator"], "= coq/Gen/VersionGen.v" if same else ("DIFFERS from coq/Gen" if same is False else "-"), base["gen_ok"], base["lemmas_ok"], "holds" if base["probe_ok"] else "FAILS", "PASS" if good else "FAIL"))
        if verbose or not good:
            print(base["log"])
        for i, (name, rel, fn) in enumerate(MUTATIONS + NEUTRAL):
            neutral = i >= len(MUTATIONS)
            r = run_case(os.path.join(top, f"m{i}"), scratch, rel, fn)
            probe = "-"
            if r["translator"] == "STOPPED":
                verdict, good, diff = "caught: translator stops", True, "-"
            elif r["translator"] == "CRASHED":
                verdict, good, diff = "FAIL: translator crashed", False, "-"
            else:
                differs = r["text"] != base["text"]
                diff = "differs" if differs else "IDENTICAL"
                if r["gen_ok"]:
                    probe = "holds (not distinguished)" if r["probe_ok"] else f"refuted: {r['probe_where']}"
                if differs and r["gen_ok"] and r["lemmas_ok"] is False:
                    verdict, good = f"caught: lemmas break in {r['where']}", True
                elif differs and not r["gen_ok"]:
                    verdict, good = "caught: VersionGen.v ill-typed", True
                elif neutral:
                    verdict, good = "accepted (behaviour-preserving rewrite)", True
                else:
                    verdict, good = "FAIL: NOT DETECTED", False
                if not neutral and r["gen_ok"] and r["probe_ok"]:
                    verdict += " [probe blind]"
            if neutral:
                verdict = "[not a defect] " + verdict
            ok &= good
            rows.append((name, r["translator"], diff, r["gen_ok"], r["lemmas_ok"], probe, verdict))
            if verbose or not good:
                print(f"--- {name}\n{r['log']}\n")
            elif r["translator"] == "STOPPED":
                print(f"--- {name}: {r['log'].splitlines()[0][:300]}")
    finally:
        shutil.rmtree(top, ignore_errors=True)
    hdr = ("case", "translator", "generated Gallina", "VersionGen.v compiles", "VersionGenLemmas.v compiles", "probe instances", "verdict")
    fmt = lambda x: "-" if x is None else ("yes" if x is True else ("NO" if x is False else str(x)))  # noqa: E731
    table = [hdr] + [tuple(fmt(c) for c in r) for r in rows]
    widths = [max(len(r[i]) for r in table) for i in range(len(hdr))]
    print()
    for k, r in enumerate(table):
        print(" | ".join(c.ljust(w) for c, w in zip(r, widths)))
        if k == 0:
            print("-+-".join("-" * w for w in widths))
    print("\nRESULT:", "all mutations caught, clean source accepted" if ok else "FAILURE")
    sys.exit(0 if ok else 1)


if __name__ == "__main__":
    main()
