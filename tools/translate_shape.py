#!/venv/bin/python
"""Expression-by-expression translation of the per-rule immediate-argument parsers of tealer's line parser into
Gallina (Gen/ShapeGen.v).

Translated (read with `ast` only, never imported):
  teal/instructions/parse_instruction.py
      _parse_int, _is_int (a lambda)            -> parse_int_x_gen, is_int_x_gen   (again: with exception classes)
      every lambda of `parser_rules`            -> the entries of shape_rules_gen : list (string * (string -> pyx pval))
      handle_gtxn / handle_gtxna / handle_gtxnas -> handle_gtxn_gen / handle_gtxna_gen / handle_gtxnas_gen
  teal/instructions/parse_transaction_field.py
      _parse_int (the module's own copy)        -> parse_int_tx_gen
      parse_transaction_field                   -> parse_transaction_field_gen (+ the hoisted loop .._for1)
  teal/instructions/parse_{global,asset_holding,asset_params,app_params,acct_params}_field.py
      parse_*_field                             -> parse_*_field_gen
The hand-written counterpart is Model/Parse.v (parse_shape, parse_tx_field, parse_named_field), which interprets the
shape TAG that tools/translate.py assigns to the unparsed text of each lambda; Lemmas/ShapeGenLemmas.v relates the
functions generated here to it, rule by rule of the regenerated table Gen/Tables.parser_rules.

Reading of Python in Gallina.  The value reading of tools/translate_line.py applies (its docstring: `str` = Coq `string`
under the ASCII assumption; lengths and indices are `nat`; the `int` returned by int() is a `Z`), and the str method
table of Gen/LineGen.v is imported, not repeated: startswith, isdigit, strip, split(c), slicing s[a:], xs[k], xs[k:],
join, int(s, base).  EXCEPTIONS, however, are read BY CLASS here: `pyx A := Val a | Raise e`, e one of ValueError
(raised by int()), IndexError (xs[k]), KeyError (D[k]); Gen/LineGen.v reads all of them as None (`erase`).  For that
`_parse_int` and `_is_int` of parse_instruction.py are translated again, into this monad (parse_int_x_gen,
is_int_x_gen; Lemmas/ShapeGenLemmas.v: erase of them = LineGen.parse_int_gen / is_int_gen).  Sub-expressions are
evaluated left to right, so the FIRST exception Python would raise is the one returned.  In addition (fixed prelude
below, fingerprinted; tools/test_translate_shape.py compares it with the running interpreter):
  * s.split() without argument        -> str_split_ws s       (runs of ASCII whitespace separate, no empty pieces)
  * s.replace(c, "") for a character  -> str_remove_char s c
  * list(map(f, xs))                  -> list_map_py f xs     (left to right, the first exception wins)
  * D[k] for a module-level dict of field classes -> table_get <table> k, where <table> is the association list
    Gen/Tables.v regenerates from THE SAME dict display (tx_fields, tx_array_fields, global_fields, ..): KeyError
  * `for field, obj in D.items(): body` -> a fold over <table> in insertion order (= Python's dict order); `field`
    is the key, `obj` the class object, read as its table entry (class name, version)
  * values.  A constructed object `C(a1, .., an)` is `VObj "C" [v1; ..; vn]` : pval -- the class NAME and the positional
    arguments, nothing else (what the constructor does with them is instructions.py / Gen/Tables.classes).  Arguments:
    int -> VInt z, str -> VStr s, List[int] -> VInts, List[str] -> VStrs, None -> VNone, an object -> itself.
    `obj(a)` for a class object of a field table is `new_field obj [v]`.
  * `e1 if c else e2` -> `if c then e1 else e2`; when the branches have different types both are wrapped as pval.
  * `-1` is the Z literal; other negative literals are rejected.
  * a keyword argument / a default value of a parameter (handle_gtxn(x, itxn=True)) is resolved against the signature.
  * statements: `name = e`, `return e`, `if c: <block ending in return>` followed by more statements, and the `for`
    above whose body has no effect but `return` (no variable bound outside is assigned in it).

Fail-closed: anything else raises TranslateError with file:line.
"""
import ast
import hashlib
import os
import sys

from tcommon import TranslateError, fail, parse, strip_doc, coq_str, T
from translate_keys import indent

PI_REL = "teal/instructions/parse_instruction.py"
PTF_REL = "teal/instructions/parse_transaction_field.py"

STR, NAT, BOOL, LSTR, ZT, LZ, VAL, NONE, CLS = "string", "nat", "bool", "list string", "Z", "list Z", "pval", "unit", "(string * N)"
FIELD_TABLE = "list (string * (string * N))"

# module -> (dict name -> table of Gen/Tables.v, emitted by tools/translate.py emit_tables from that very dict display)
FIELD_MODULES = {
    PTF_REL: {"TX_FIELD_TXT_TO_OBJECT": "tx_fields", "ARRAY_TX_FIELD_TO_OBJECT": "tx_array_fields"},
    "teal/instructions/parse_global_field.py": {"GLOBAL_FIELD_TXT_TO_OBJECT": "global_fields"},
    "teal/instructions/parse_asset_holding_field.py": {"ASSET_HOLDING_FIELD_TXT_TO_OBJECT": "asset_holding_fields"},
    "teal/instructions/parse_asset_params_field.py": {"ASSET_PARAMS_FIELD_TXT_TO_OBJECT": "asset_params_fields"},
    "teal/instructions/parse_app_params_field.py": {"APP_PARAMS_FIELD_TXT_TO_OBJECT": "app_params_fields"},
    "teal/instructions/parse_acct_params_field.py": {"ACCT_PARAMS_FIELD_TXT_TO_OBJECT": "acct_params_fields"},
}
# the field parsers: python name -> (module, coq name, [(param, annotation, type)])
FIELD_FUNCS = {
    "parse_transaction_field": (PTF_REL, "parse_transaction_field_gen", [("tx_field", "str", STR), ("use_stack", "bool", BOOL)]),
    "parse_global_field": ("teal/instructions/parse_global_field.py", "parse_global_field_gen", [("field", "str", STR)]),
    "parse_asset_holding_field": ("teal/instructions/parse_asset_holding_field.py", "parse_asset_holding_field_gen", [("field", "str", STR)]),
    "parse_asset_params_field": ("teal/instructions/parse_asset_params_field.py", "parse_asset_params_field_gen", [("field", "str", STR)]),
    "parse_app_params_field": ("teal/instructions/parse_app_params_field.py", "parse_app_params_field_gen", [("field", "str", STR)]),
    "parse_acct_params_field": ("teal/instructions/parse_acct_params_field.py", "parse_acct_params_field_gen", [("field", "str", STR)]),
}
HANDLERS = ["handle_gtxn", "handle_gtxna", "handle_gtxnas"]
ANNOT = {"str": STR, "bool": BOOL}
RESERVED = {"xs", "retx", "bindx", "pval", "pyx", "exn", "raising"}

PRELUDE = r"""
(* ====================================================================== *)
(* PRELUDE (fixed text; its sha256 is pinned in tools/translate_shape.py)                                   *)
(* ====================================================================== *)
(* The str method table is the one of Gen/LineGen.v (imported).  Added here: *)

(* ---- exceptions BY CLASS.  Gen/LineGen.v reads "an exception was raised" as None; here the class is kept, for the
   three classes the translated code can raise: int() raises ValueError, xs[k] IndexError, D[k] KeyError. *)
Inductive exn := ValueError | IndexError | KeyError
  | OtherError.   (* never raised by the translated code: the class of a model message that names none of the three *)
Inductive pyx (A : Type) : Type := Val (a : A) | Raise (e : exn).
Arguments Val {A} a.
Arguments Raise {A} e.
Definition retx {A : Type} (a : A) : pyx A := Val a.
Definition bindx {A B : Type} (m : pyx A) (k : A -> pyx B) : pyx B :=
  match m with Val a => k a | Raise e => Raise e end.
(* `a and b`, `a or b`, `not a`, `e1 if c else e2` on computations (short circuit = Python's) *)
Definition andEx (a b : pyx bool) : pyx bool :=
  match a with Val true => b | Val false => Val false | Raise e => Raise e end.
Definition orEx (a b : pyx bool) : pyx bool :=
  match a with Val true => Val true | Val false => b | Raise e => Raise e end.
Definition notEx (a : pyx bool) : pyx bool := match a with Val b => Val (negb b) | Raise e => Raise e end.
Definition ifEx {A : Type} (c : pyx bool) (a b : pyx A) : pyx A :=
  match c with Val true => a | Val false => b | Raise e => Raise e end.
(* a primitive of Gen/LineGen.v that raises one class only *)
Definition raising {A : Type} (e : exn) (m : py A) : pyx A := match m with Some a => Val a | None => Raise e end.
(* int(s, base): ValueError *)
Definition int_x (s : string) (base : N) : pyx Z := raising ValueError (py_int s base).
(* xs[k] for k >= 0: IndexError *)
Definition subscript_x {A : Type} (xs : list A) (k : nat) : pyx A := raising IndexError (subscript xs k).
(* the outcome with the class forgotten (the reading of Gen/LineGen.v) *)
Definition erase {A : Type} (m : pyx A) : py A := match m with Val a => Some a | Raise _ => None end.

(* ---- Python values handed to a constructor: C(a1, .., an) is VObj "C" [a1; ..; an] *)
Inductive pval :=
| VInt (z : Z)                 (* int *)
| VStr (s : string)            (* str *)
| VInts (l : list Z)           (* List[int] *)
| VStrs (l : list string)      (* List[str] *)
| VNone                        (* None *)
| VObj (cls : string) (args : list pval).   (* an object: class name, positional constructor arguments *)

(* ---- str *)
(* s.split(): the pieces between runs of whitespace, no empty piece; [cur] is the piece being read *)
Fixpoint str_split_ws_from (s : string) (cur : string) : list string :=
  match s with
  | EmptyString => if str_is_empty cur then [] else [cur]
  | String c t =>
      if ascii_isspace c then (if str_is_empty cur then str_split_ws_from t EmptyString else cur :: str_split_ws_from t EmptyString)
      else str_split_ws_from t (cur ++ String c EmptyString)
  end.
Definition str_split_ws (s : string) : list string := str_split_ws_from s EmptyString.
(* s.replace(c, "") for a one-character c: every occurrence removed *)
Fixpoint str_remove_char (s : string) (c : ascii) : string :=
  match s with
  | EmptyString => EmptyString
  | String d t => if Ascii.eqb d c then str_remove_char t c else String d (str_remove_char t c)
  end.

(* ---- list(map(f, xs)): f is applied left to right, the first exception propagates *)
Fixpoint list_map_py {A B : Type} (f : A -> pyx B) (xs : list A) : pyx (list B) :=
  match xs with
  | [] => retx []
  | x :: t => bindx (f x) (fun y => bindx (list_map_py f t) (fun r => retx (y :: r)))
  end.

(* ---- the module-level dicts of field classes: Gen/Tables.v lists (text, (class name, version)) in source order *)
(* D[k]: the class object; KeyError *)
Fixpoint table_get (d : list (string * (string * N))) (k : string) : pyx (string * N) :=
  match d with [] => Raise KeyError | (k', v) :: t => if String.eqb k' k then Val v else table_get t k end.
(* obj(a1, .., an) for a class object taken from such a dict *)
Definition new_field (obj : string * N) (args : list pval) : pval := VObj (fst obj) args.
"""

PRELUDE_SHA256 = "5da639e5ae752f1c918fd8896786dd31aa9b94e1423d455a3f1a55ac30d3adf9"


def table_fingerprint():
    h = hashlib.sha256()
    h.update(PRELUDE.encode())
    h.update(repr(sorted((m, sorted(d.items())) for m, d in FIELD_MODULES.items())).encode())
    return h.hexdigest()


# ----------------------------------------------------------------------------- environment
class Ctx:
    def __init__(self, path, pyname, coqname, funcs, tables):
        self.path = path
        self.pyname = pyname
        self.coq = coqname
        self.funcs = funcs  # callable python name -> (coq name, [(param, type, default term or None)], result type)
        self.tables = tables  # dict name -> coq table (the module's own dicts)
        self.counter = 0
        self.hoisted = []
        self.nfor = 0
        self.in_loop = False
        self.outer_vars = set()

    def fresh(self):
        self.counter += 1
        return f"tmp{self.counter}"


class Env:
    def __init__(self, ctx, vars_):
        self.ctx = ctx
        self.vars = dict(vars_)

    def child(self, **new):
        e = Env(self.ctx, self.vars)
        e.vars.update(new)
        return e

    @property
    def path(self):
        return self.ctx.path


def seq(env, parts, build, monadic_result=False):
    """parts: [(term, pure)]; impure parts are bound left to right (Python's evaluation order) to fresh names"""
    binds, atoms = [], []
    for t, pure in parts:
        if pure:
            atoms.append(t)
        else:
            v = env.ctx.fresh()
            binds.append((v, t))
            atoms.append(v)
    body = build(*atoms)
    if not binds and not monadic_result:
        return body, True
    out = body if monadic_result else f"(retx {body})"
    for v, t in reversed(binds):
        out = f"(bindx {t} (fun {v} =>\n{out}))"
    return out, False


def mon(t, pure):
    return f"(retx {t})" if pure else t


def str_const(n):
    return isinstance(n, ast.Constant) and isinstance(n.value, str)


def coq_char(ch):
    if len(ch) != 1 or ord(ch) < 32 or ord(ch) > 126:
        raise TranslateError(f"translator: character literal {ch!r}")
    return ('""""' if ch == '"' else f'"{ch}"') + "%char"


def wrap(ty, a):
    """a value of type ty as a pval"""
    return {ZT: f"(VInt {a})", STR: f"(VStr {a})", LZ: f"(VInts {a})", LSTR: f"(VStrs {a})", NONE: "VNone", VAL: a}.get(ty)


# ----------------------------------------------------------------------------- expressions
def expr(env, e):
    """-> (term, type, pure)"""
    p = env.path
    ctx = env.ctx
    if isinstance(e, ast.Constant):
        if e.value is True:
            return "true", BOOL, True
        if e.value is False:
            return "false", BOOL, True
        if e.value is None:
            return "tt", NONE, True
        if isinstance(e.value, int) and e.value >= 0:
            return str(e.value), NAT, True
        if isinstance(e.value, str):
            return coq_str(e.value), STR, True
        fail(p, e, "constant " + ast.unparse(e))
    if isinstance(e, ast.Name):
        if e.id in env.vars:
            return e.id, env.vars[e.id], True
        fail(p, e, f"unknown name {e.id}")
    if isinstance(e, ast.UnaryOp):
        if isinstance(e.op, ast.USub) and isinstance(e.operand, ast.Constant) and e.operand.value == 1 and not isinstance(e.operand.value, bool):
            return "(-1)%Z", ZT, True
        if isinstance(e.op, ast.Not):
            t, ty, pure = expr(env, e.operand)
            if ty != BOOL:
                fail(p, e, f"`not` on a value of type {ty}")
            return (f"(negb {t})" if pure else f"(notEx {t})"), BOOL, pure
        fail(p, e, "unary operator in " + ast.unparse(e))
    if isinstance(e, ast.BinOp):
        if not isinstance(e.op, ast.Add):
            fail(p, e, "binary operator in " + ast.unparse(e))
        l, lty, lp = expr(env, e.left)
        r, rty, rp = expr(env, e.right)
        if lty == rty == NAT:
            out, pure = seq(env, [(l, lp), (r, rp)], lambda a, b: f"({a} + {b})")
            return out, NAT, pure
        fail(p, e, f"+ on {lty} and {rty}")
    if isinstance(e, ast.BoolOp):
        parts = [expr(env, v) for v in e.values]
        for (t, ty, pure), v in zip(parts, e.values):
            if ty != BOOL:
                fail(p, v, f"operand of and/or of type {ty}")
        allpure = all(pure for _, _, pure in parts)
        f = ("andb" if allpure else "andEx") if isinstance(e.op, ast.And) else ("orb" if allpure else "orEx")
        terms = [t if allpure else mon(t, pure) for t, _, pure in parts]
        out = terms[-1]
        for t in reversed(terms[:-1]):
            out = f"({f} {t} {out})"
        return out, BOOL, allpure
    if isinstance(e, ast.Compare):
        if len(e.ops) != 1:
            fail(p, e, "chained comparison")
        l, lty, lp = expr(env, e.left)
        r, rty, rp = expr(env, e.comparators[0])
        table = {(ast.Eq, STR): "(String.eqb {a} {b})", (ast.NotEq, STR): "(negb (String.eqb {a} {b}))"}
        if lty != rty or (type(e.ops[0]), lty) not in table:
            fail(p, e, f"comparison {type(e.ops[0]).__name__} of {lty} with {rty}")
        fmt = table[(type(e.ops[0]), lty)]
        out, pure = seq(env, [(l, lp), (r, rp)], lambda a, b: fmt.format(a=a, b=b))
        return out, BOOL, pure
    if isinstance(e, ast.IfExp):
        c, cty, cp = expr(env, e.test)
        if cty != BOOL:
            fail(p, e, f"condition of type {cty} in a conditional expression")
        a, aty, ap = expr(env, e.body)
        b, bty, bp = expr(env, e.orelse)
        if aty != bty:
            wa, wb = wrap(aty, a) if ap else None, wrap(bty, b) if bp else None
            if wrap(aty, "_") is None or wrap(bty, "_") is None:
                fail(p, e, f"conditional expression with branches of type {aty} and {bty}")
            a, ap = (wa, True) if ap else seq(env, [(a, False)], lambda v: wrap(aty, v))
            b, bp = (wb, True) if bp else seq(env, [(b, False)], lambda v: wrap(bty, v))
            ty = VAL
        else:
            ty = aty
        if cp and ap and bp:
            return f"(if {c} then {a} else {b})", ty, True
        if cp:
            return f"(if {c}\n then {mon(a, ap)}\n else {mon(b, bp)})", ty, False
        return f"(ifEx {c}\n{indent(mon(a, ap))}\n{indent(mon(b, bp))})", ty, False
    if isinstance(e, ast.Subscript):
        return subscript_expr(env, e)
    if isinstance(e, ast.Call):
        return call_expr(env, e)
    fail(p, e, "expression " + ast.unparse(e))


def nat_expr(env, e):
    t, ty, pure = expr(env, e)
    if ty != NAT:
        fail(env.path, e, f"index of type {ty}")
    return t, pure


def subscript_expr(env, e):
    p = env.path
    b, bty, bp = expr(env, e.value)
    sl = e.slice
    if bty not in (STR, LSTR):
        fail(p, e, f"subscript of a value of type {bty}")
    if isinstance(sl, ast.Slice):
        if sl.step is not None or sl.lower is None or sl.upper is not None:
            fail(p, e, "slice " + ast.unparse(e) + " (only x[a:] is in the table)")
        l, lp = nat_expr(env, sl.lower)
        f = "str_slice_from" if bty == STR else "list_from"
        out, pure = seq(env, [(b, bp), (l, lp)], lambda a, x: f"({f} {a} {x})")
        return out, bty, pure
    if bty != LSTR:
        fail(p, e, "index into a str")
    i, ip = nat_expr(env, sl)
    out, _ = seq(env, [(b, bp), (i, ip)], lambda a, x: f"(subscript_x {a} {x})", monadic_result=True)
    return out, STR, False


def call_expr(env, e):
    p = env.path
    ctx = env.ctx
    fn = e.func
    # ---- D[k](): a class of a module-level dict, constructed without arguments
    if isinstance(fn, ast.Subscript):
        if not (isinstance(fn.value, ast.Name) and fn.value.id in ctx.tables and fn.value.id not in env.vars):
            fail(p, e, "call of " + ast.unparse(fn))
        if e.args or e.keywords:
            fail(p, e, "constructor arguments in " + ast.unparse(e))
        k, kty, kp = expr(env, fn.slice)
        if kty != STR:
            fail(p, e, f"dictionary key of type {kty}")
        tb = ctx.tables[fn.value.id]
        v = ctx.fresh()
        out, _ = seq(env, [(k, kp)], lambda a: f"(bindx (table_get {tb} {a}) (fun {v} =>\n(retx (new_field {v} []))))", monadic_result=True)
        return out, VAL, False
    # ---- method calls
    if isinstance(fn, ast.Attribute):
        m = fn.attr
        if e.keywords:
            fail(p, e, "keyword arguments in " + ast.unparse(e))
        if isinstance(fn.value, ast.Name) and fn.value.id == "instructions" and "instructions" not in env.vars:
            if ctx.path != os.path.join(T, PI_REL):
                fail(p, e, "instructions.* outside parse_instruction.py")
            c = fn.attr
            if c not in CLASS_PARAMS:
                fail(p, e, f"instructions.{c} is not a class of instructions.py")
            if CLASS_PARAMS[c] != len(e.args):
                fail(p, e, f"constructor {c} takes {CLASS_PARAMS[c]} parameters, {len(e.args)} given")
            return construct(env, e, coq_str(c), e.args)
        if m == "join":
            if not (str_const(fn.value) and len(e.args) == 1):
                fail(p, e, "join " + ast.unparse(e))
            a, aty, ap = expr(env, e.args[0])
            if aty != LSTR:
                fail(p, e, f"join of a value of type {aty}")
            out, pure = seq(env, [(a, ap)], lambda x: f"(str_join {coq_str(fn.value.value)} {x})")
            return out, STR, pure
        r, rty, rp = expr(env, fn.value)
        if rty != STR:
            fail(p, e, f"method .{m} of a value of type {rty}")
        if m == "startswith":
            if len(e.args) != 1:
                fail(p, e, "startswith arguments")
            a, aty, ap = expr(env, e.args[0])
            if aty != STR:
                fail(p, e, f"startswith of a value of type {aty}")
            out, pure = seq(env, [(r, rp), (a, ap)], lambda x, y: f"(str_startswith {x} {y})")
            return out, BOOL, pure
        if m == "split":
            if not e.args:
                out, pure = seq(env, [(r, rp)], lambda x: f"(str_split_ws {x})")
                return out, LSTR, pure
            if not (len(e.args) == 1 and str_const(e.args[0]) and len(e.args[0].value) == 1):
                fail(p, e, "split: only no argument or a one-character literal separator is in the table")
            ch = coq_char(e.args[0].value)
            out, pure = seq(env, [(r, rp)], lambda x: f"(str_split_char {x} {ch})")
            return out, LSTR, pure
        if m == "isdigit":
            if e.args:
                fail(p, e, "isdigit with arguments")
            out, pure = seq(env, [(r, rp)], lambda x: f"(str_isdigit {x})")
            return out, BOOL, pure
        if m == "strip":
            if e.args:
                fail(p, e, "strip with arguments")
            out, pure = seq(env, [(r, rp)], lambda x: f"(str_strip {x})")
            return out, STR, pure
        if m == "replace":
            if not (len(e.args) == 2 and str_const(e.args[0]) and len(e.args[0].value) == 1 and str_const(e.args[1]) and e.args[1].value == ""):
                fail(p, e, "replace: only replace(<one character>, '') is in the table")
            ch = coq_char(e.args[0].value)
            out, pure = seq(env, [(r, rp)], lambda x: f"(str_remove_char {x} {ch})")
            return out, STR, pure
        fail(p, e, f"method .{m} is not in the str method table")
    if not isinstance(fn, ast.Name):
        fail(p, e, "call " + ast.unparse(e))
    name = fn.id
    if name in env.vars:
        # obj(a1..an) for a class object bound by `for field, obj in D.items()`
        if env.vars[name] == CLS and not e.keywords:
            parts, kinds = [], []
            for a in e.args:
                t, ty, pure = expr(env, a)
                if wrap(ty, "_") is None:
                    fail(p, e, f"constructor argument of type {ty}")
                parts.append((t, pure))
                kinds.append(ty)
            out, pure = seq(env, parts, lambda *xs: f"(new_field {name} [" + "; ".join(wrap(k, x) for k, x in zip(kinds, xs)) + "])")
            return out, VAL, pure
        fail(p, e, f"call of the variable {name}")
    if name == "len" and len(e.args) == 1 and not e.keywords:
        a, aty, ap = expr(env, e.args[0])
        f = {STR: "String.length", LSTR: "List.length"}.get(aty)
        if f is None:
            fail(p, e, f"len of a value of type {aty}")
        out, pure = seq(env, [(a, ap)], lambda x: f"({f} {x})")
        return out, NAT, pure
    if name == "int" and len(e.args) in (1, 2) and not e.keywords:
        base = 10
        if len(e.args) == 2:
            b = e.args[1]
            if not (isinstance(b, ast.Constant) and b.value in (8, 10, 16) and not isinstance(b.value, bool)):
                fail(p, e, "int(): base other than the literals 8, 10, 16")
            base = b.value
        a, aty, ap = expr(env, e.args[0])
        if aty != STR:
            fail(p, e, f"int() of a value of type {aty}")
        out, _ = seq(env, [(a, ap)], lambda x: f"(int_x {x} {base}%N)", monadic_result=True)
        return out, ZT, False
    if name == "list" and len(e.args) == 1 and not e.keywords:
        m = e.args[0]
        if not (isinstance(m, ast.Call) and isinstance(m.func, ast.Name) and m.func.id == "map" and "map" not in env.vars and len(m.args) == 2 and not m.keywords and isinstance(m.args[0], ast.Name)):
            fail(p, e, "list(..) of something else than map(f, xs)")
        f = m.args[0].id
        if f in env.vars or f not in ctx.funcs:
            fail(p, e, f"map of {f}")
        coq, params, rty = ctx.funcs[f]
        if len(params) != 1 or params[0][1] != STR or rty != ZT:
            fail(p, e, f"map of {f}: only a function str -> int")
        a, aty, ap = expr(env, m.args[1])
        if aty != LSTR:
            fail(p, e, f"map over a value of type {aty}")
        out, _ = seq(env, [(a, ap)], lambda x: f"(list_map_py {coq} {x})", monadic_result=True)
        return out, LZ, False
    if name in ctx.funcs:
        coq, params, rty = ctx.funcs[name]
        if len(e.args) > len(params):
            fail(p, e, f"arity of {name}")
        given = {}
        for a, (pn, _, _) in zip(e.args, params):
            given[pn] = a
        for kw in e.keywords:
            if kw.arg is None or kw.arg in given or kw.arg not in [pn for pn, _, _ in params]:
                fail(p, e, f"keyword argument of {name}")
            given[kw.arg] = kw.value
        parts = []
        for pn, pty, default in params:
            if pn in given:
                t, ty, pure = expr(env, given[pn])
                if ty != pty:
                    fail(p, e, f"argument {pn} of {name}: {ty} where {pty} is expected")
                parts.append((t, pure))
            elif default is not None:
                parts.append((default, True))
            else:
                fail(p, e, f"argument {pn} of {name} missing")
        out, _ = seq(env, parts, lambda *xs: f"({coq} {' '.join(xs)})", monadic_result=True)
        return out, rty, False
    fail(p, e, "call " + ast.unparse(e))


CLASS_PARAMS = {}  # class -> number of constructor parameters (translate.read_instruction_classes)


def construct(env, e, cls_term, args):
    parts, kinds = [], []
    for a in args:
        t, ty, pure = expr(env, a)
        if wrap(ty, "_") is None:
            fail(env.path, e, f"constructor argument of type {ty}")
        parts.append((t, pure))
        kinds.append(ty)
    out, pure = seq(env, parts, lambda *xs: f"(VObj {cls_term} [" + "; ".join(wrap(k, x) for k, x in zip(kinds, xs)) + "])")
    return out, VAL, pure


# ----------------------------------------------------------------------------- statements
def assigned_names(stmts):
    out = set()
    for st in stmts:
        for node in ast.walk(st):
            if isinstance(node, (ast.Assign, ast.AugAssign, ast.AnnAssign, ast.For, ast.NamedExpr, ast.With, ast.comprehension)):
                tgs = node.targets if isinstance(node, ast.Assign) else [getattr(node, "target", None)]
                for tg in tgs:
                    if tg is not None:
                        out |= {n.id for n in ast.walk(tg) if isinstance(n, ast.Name)}
    return out


def ends_in_return(stmts):
    stmts = strip_doc(stmts)
    if not stmts:
        return False
    last = stmts[-1]
    if isinstance(last, ast.Return):
        return True
    if isinstance(last, ast.If):
        return ends_in_return(last.body) and ends_in_return(last.orelse)
    return False


def block(env, stmts, fall, retk, rty):
    """fall: env -> term for what follows the block (None: control must not reach the end); retk: term, pure -> term"""
    p = env.path
    ctx = env.ctx
    stmts = strip_doc(stmts)
    if not stmts:
        if fall is None:
            raise TranslateError(f"translator: {p}: control reaches the end of {ctx.pyname} without return")
        return fall(env)
    st, rest = stmts[0], stmts[1:]
    rest_of = lambda env2: block(env2, rest, fall, retk, rty)  # noqa: E731
    if isinstance(st, ast.Return):
        if rest:
            fail(p, rest[0], "statement after return")
        if st.value is None:
            fail(p, st, "bare return")
        t, ty, pure = expr(env, st.value)
        if ty != rty:
            fail(p, st, f"return of a value of type {ty} where {rty} is expected")
        return retk(t, pure)
    if isinstance(st, ast.Assign):
        if len(st.targets) != 1 or not isinstance(st.targets[0], ast.Name):
            fail(p, st, "assignment target " + ast.unparse(st)[:60])
        name = st.targets[0].id
        if name in RESERVED or name.startswith("tmp") or name.endswith("_gen") or name in ctx.funcs or name in ctx.tables:
            fail(p, st, f"variable name {name} is reserved by the translator")
        t, ty, pure = expr(env, st.value)
        if ty == NONE:
            fail(p, st, "None stored in a variable")
        if name in env.vars and env.vars[name] != ty:
            fail(p, st, f"re-assignment of {name} changes its type from {env.vars[name]} to {ty}")
        if ctx.in_loop and name in ctx.outer_vars:
            fail(p, st, f"the loop body assigns {name}, which is bound outside the loop (loop state is not supported)")
        rest_t = rest_of(env.child(**{name: ty}))
        if pure:
            return f"(let {name} := {t} in\n{rest_t})"
        return f"(bindx {t} (fun {name} =>\n{rest_t}))"
    if isinstance(st, ast.If):
        c, cty, cpure = expr(env, st.test)
        if cty != BOOL:
            fail(p, st, f"condition of type {cty} (only booleans)")
        if st.orelse:
            if rest:
                fail(p, st, "if .. else followed by more statements")
            then_t = block(env, st.body, fall, retk, rty)
            else_t = block(env, st.orelse, fall, retk, rty)
        else:
            if not ends_in_return(st.body):
                fail(p, st, "an `if` without else whose body does not end in return")
            then_t = block(env, st.body, None, retk, rty)
            else_t = rest_of(env)
        if cpure:
            return f"(if {c}\n then\n{indent(then_t)}\n else\n{else_t})"
        return f"(ifEx {c}\n{indent(then_t)}\n{else_t})"
    if isinstance(st, ast.For):
        return for_loop(env, st, rest_of, retk, rty)
    fail(p, st, "statement " + ast.unparse(st)[:60])


def for_loop(env, st, rest_of, retk, rty):
    p = env.path
    ctx = env.ctx
    if st.orelse:
        fail(p, st, "for .. else")
    if ctx.in_loop:
        fail(p, st, "nested loop")
    it, tg = st.iter, st.target
    ok = isinstance(it, ast.Call) and not it.args and not it.keywords and isinstance(it.func, ast.Attribute) and it.func.attr == "items" and isinstance(it.func.value, ast.Name)
    if not ok or it.func.value.id not in ctx.tables or it.func.value.id in env.vars:
        fail(p, st, "for over something else than <module-level dict of field classes>.items()")
    if not (isinstance(tg, ast.Tuple) and len(tg.elts) == 2 and all(isinstance(x, ast.Name) for x in tg.elts)):
        fail(p, st, "for target")
    a, b = (x.id for x in tg.elts)
    if a == b or a in env.vars or b in env.vars or a in RESERVED or b in RESERVED or a in ctx.funcs or b in ctx.funcs:
        fail(p, st, "for target names")
    if not any(isinstance(n, ast.Return) for s in st.body for n in ast.walk(s)):
        fail(p, st, "a loop without return and without state has no effect")
    if any(isinstance(n, (ast.Break, ast.Continue)) for s in st.body for n in ast.walk(s)):
        fail(p, st, "break / continue")
    ctx.nfor += 1
    fname = f"{ctx.coq}_for{ctx.nfor}"
    ro = [v for v in env.vars if any(isinstance(n, ast.Name) and n.id == v for s in st.body for n in ast.walk(s))]
    ctx.in_loop = True
    ctx.outer_vars = set(env.vars)
    envl = env.child(**{a: STR, b: CLS})
    call = f"({fname} xs {' '.join(ro)})"
    body_t = block(envl, st.body, lambda env2: call, lambda t, pure: seq(env, [(t, pure)], lambda v: f"(retx (Some {v}))", monadic_result=True)[0], rty)
    ctx.in_loop = False
    # names assigned in the body are local to the loop function: they must not be read after the loop
    local = assigned_names(st.body) | {a, b}
    params = " ".join(f"({v} : {env.vars[v]})" for v in ro)
    rel = os.path.relpath(p, T)
    L = [
        f"(* {rel}: the loop `for {a}, {b} in {it.func.value.id}.items()` of {ctx.pyname} (line {st.lineno}); no state; Some v: the function returns v *)",
        f"Fixpoint {fname} (xs : {FIELD_TABLE}) {params} {{struct xs}} : pyx (option {paren(rty)}) :=",
        "  match xs with",
        "  | [] => (retx None)",
        f"  | ({a}, {b}) :: xs =>\n{indent(body_t)}",
        "  end.",
    ]
    ctx.hoisted.append("\n".join(L))
    env_after = Env(ctx, {k: v for k, v in env.vars.items() if k not in local})
    if set(env_after.vars) != set(env.vars):
        fail(p, st, "the loop target shadows a variable")
    after = rest_of(env_after)
    r, v = ctx.fresh(), ctx.fresh()
    return f"(bindx ({fname} {ctx.tables[it.func.value.id]} {' '.join(ro)}) (fun {r} =>\n(match {r} with\n | Some {v} => {retk(v, True)}\n | None =>\n{indent(after)}\n end)))"


def paren(t):
    return f"({t})" if " " in t and not t.startswith("(") else t


# ----------------------------------------------------------------------------- source checks
def module_bindings(path, tree):
    bound = {}
    for node in tree.body:
        if isinstance(node, ast.Import):
            for al in node.names:
                bound.setdefault(al.asname or al.name, []).append("import " + al.name)
        elif isinstance(node, ast.ImportFrom):
            for al in node.names:
                bound.setdefault(al.asname or al.name, []).append(f"from {node.module} import {al.name}")
        elif isinstance(node, (ast.FunctionDef, ast.ClassDef)):
            bound.setdefault(node.name, []).append("def")
        elif isinstance(node, (ast.Assign, ast.AnnAssign)):
            tgs = node.targets if isinstance(node, ast.Assign) else [node.target]
            for tg in tgs:
                for n in ast.walk(tg):
                    if isinstance(n, ast.Name):
                        bound.setdefault(n.id, []).append("assign")
        elif isinstance(node, ast.Expr) and isinstance(node.value, ast.Constant):
            pass
        else:
            fail(path, node, "module-level statement " + ast.unparse(node)[:60])
    for node in ast.walk(tree):
        if isinstance(node, (ast.Global, ast.Nonlocal, ast.Delete)):
            fail(path, node, "global / nonlocal / del")
    for b in ("len", "int", "list", "map", "str"):
        if b in bound:
            raise TranslateError(f"translator: {path}: the builtin {b} is shadowed at module level")
    return bound


def expect_binding(path, bound, name, want):
    if bound.get(name) != [want]:
        raise TranslateError(f"translator: {path}: name {name} is bound by {bound.get(name)}, expected [{want!r}]")


def find_function(path, tree, name):
    found = [n for n in tree.body if isinstance(n, ast.FunctionDef) and n.name == name]
    if len(found) != 1:
        raise TranslateError(f"translator: {path}: expected exactly one top-level function {name}")
    return found[0]


def read_signature(path, fn, want_params=None, want_ret=None):
    """-> [(name, type, default term)]"""
    a = fn.args
    if a.vararg or a.kwarg or a.kwonlyargs or a.posonlyargs or fn.decorator_list:
        fail(path, fn, "signature of " + fn.name)
    defaults = [None] * (len(a.args) - len(a.defaults)) + list(a.defaults)
    out = []
    for x, d in zip(a.args, defaults):
        ann = ast.unparse(x.annotation) if x.annotation else None
        if ann not in ANNOT:
            fail(path, fn, f"parameter {x.arg} of {fn.name}: annotation {ann}")
        dt = None
        if d is not None:
            if not (ANNOT[ann] == BOOL and isinstance(d, ast.Constant) and isinstance(d.value, bool)):
                fail(path, fn, f"default value of {x.arg}")
            dt = "true" if d.value else "false"
        out.append((x.arg, ANNOT[ann], dt))
    if want_params is not None and [(n, t) for n, t, _ in out] != [(n, t) for n, _, t in want_params]:
        fail(path, fn, f"signature of {fn.name}: {[(n, t) for n, t, _ in out]}")
    if want_params is not None and any(d is not None for _, _, d in out):
        fail(path, fn, f"default values in the signature of {fn.name}")
    ret = ast.unparse(fn.returns) if fn.returns else None
    if want_ret is not None and ret not in want_ret:
        fail(path, fn, f"return annotation of {fn.name}: {ret}")
    return out


def translate_function(path, fn, coq, params, rty, funcs, tables):
    ctx = Ctx(path, fn.name, coq, funcs, tables)
    for n, _, _ in params:
        if n in RESERVED or n.startswith("tmp") or n in funcs or n in tables:
            fail(path, fn, f"parameter name {n} is reserved by the translator")
    env = Env(ctx, {n: t for n, t, _ in params})
    body = block(env, fn.body, None, lambda t, pure: mon(t, pure), rty)
    ps = " ".join(f"({n} : {t})" for n, t, _ in params)
    rel = os.path.relpath(path, T)
    return list(ctx.hoisted) + [f"(* {rel}: {fn.name} (line {fn.lineno}) *)\nDefinition {coq} {ps} : pyx {paren(rty)} :=\n{indent(body, 2)}."]


def dict_is_plain(path, tree, name):
    """the module-level dict is a display `NAME = {"txt": Class, ..}` (what translate.py reads into Gen/Tables.v)"""
    for node in tree.body:
        tg = None
        if isinstance(node, ast.Assign) and len(node.targets) == 1 and isinstance(node.targets[0], ast.Name):
            tg = node.targets[0].id
        elif isinstance(node, ast.AnnAssign) and isinstance(node.target, ast.Name):
            tg = node.target.id
        if tg == name:
            if not (isinstance(node.value, ast.Dict) and all(str_const(k) for k in node.value.keys)):
                fail(path, node, f"{name} is not a dict display with literal keys")
            if len({k.value for k in node.value.keys}) != len(node.value.keys):
                fail(path, node, f"duplicate key in {name}")
            return
    raise TranslateError(f"translator: {path}: {name} not found")


def emit_shape(outdir):
    from translate import read_instruction_classes, resolve
    import translate_line

    if table_fingerprint() != PRELUDE_SHA256:
        raise TranslateError(f"translator: translate_shape: the fixed prelude / dict table was edited (sha256 {table_fingerprint()}); re-pin PRELUDE_SHA256 after review")
    pi = os.path.join(T, PI_REL)
    tree = parse(pi)
    # _parse_int, _is_int, ParseError, parser_rules are what Gen/LineGen.v says they are
    translate_line.check_module(pi, tree)
    bound = module_bindings(pi, tree)
    for h in HANDLERS:
        expect_binding(pi, bound, h, "def")
    for f, (mod, _, _) in FIELD_FUNCS.items():
        expect_binding(pi, bound, f, f"from tealer.{mod[:-3].replace('/', '.')} import {f}")
    classes, _ = read_instruction_classes()
    CLASS_PARAMS.clear()
    for name in classes:
        ps = resolve(classes, name, "params")
        if ps is not None:
            CLASS_PARAMS[name] = len(ps)

    L = []
    w = L.append
    w("(* GENERATED by tools/translate.py (translate_shape) from /repo/tealer -- do not edit *)")
    w("(* teal/instructions/parse_instruction.py: _parse_int, _is_int, the lambdas of parser_rules, handle_gtxn / handle_gtxna / handle_gtxnas;")
    w("   parse_transaction_field.py, parse_global_field.py, parse_asset_holding_field.py, parse_asset_params_field.py,")
    w("   parse_app_params_field.py, parse_acct_params_field.py: the field parsers.  See tools/translate_shape.py. *)")
    w(f"(* prelude sha256: {PRELUDE_SHA256} *)")
    w("From Coq Require Import String List NArith ZArith Bool Ascii Arith.")
    w("From Tealer Require Import Tables Syntax Parse KeysGen LineGen.")
    w("Import ListNotations.")
    w("Open Scope string_scope.")
    w("Open Scope list_scope.")
    w("Open Scope nat_scope.")
    w(PRELUDE.rstrip("\n"))
    w("")
    w("(* ====================================================================== *)")
    w("(* TRANSLATED functions                                                     *)")
    w("(* ====================================================================== *)")
    nfun = 0
    # ---- the field parser modules
    pfn = find_function(pi, tree, "_parse_int")
    sig = read_signature(pi, pfn, [("x", "str", STR)], ("int",))
    for t in translate_function(pi, pfn, "parse_int_x_gen", sig, ZT, {}, {}):
        w(t)
        w("")
    isint = [n for n in tree.body if isinstance(n, ast.AnnAssign) and isinstance(n.target, ast.Name) and n.target.id == "_is_int"]
    if len(isint) != 1 or not isinstance(isint[0].value, ast.Lambda):
        raise TranslateError(f"translator: {pi}: _is_int is not a single annotated lambda")
    lam = isint[0].value
    if [a.arg for a in lam.args.args] != ["x"] or lam.args.defaults or lam.args.vararg or lam.args.kwarg or lam.args.kwonlyargs or lam.args.posonlyargs or ast.unparse(isint[0].annotation) != "Callable[[str], bool]":
        fail(pi, isint[0], "signature of _is_int")
    ctx = Ctx(pi, "_is_int", "is_int_x_gen", {}, {})
    t, ty, pure = expr(Env(ctx, {"x": STR}), lam.body)
    if ty != BOOL:
        fail(pi, lam, f"_is_int returns a value of type {ty}")
    w(f"(* {PI_REL}: _is_int, a lambda (line {isint[0].lineno}) *)\nDefinition is_int_x_gen (x : string) : pyx bool :=\n{indent(mon(t, pure), 2)}.")
    w("")
    nfun += 2
    pi_funcs = {"_parse_int": ("parse_int_x_gen", [("x", STR, None)], ZT), "_is_int": ("is_int_x_gen", [("x", STR, None)], BOOL)}
    for f, (mod, coq, params) in FIELD_FUNCS.items():
        path = os.path.join(T, mod)
        mtree = parse(path)
        mbound = module_bindings(path, mtree)
        tables = FIELD_MODULES[mod]
        for d in tables:
            expect_binding(path, mbound, d, "assign")
            dict_is_plain(path, mtree, d)
        expect_binding(path, mbound, f, "def")
        funcs = {}
        if mod == PTF_REL:
            expect_binding(path, mbound, "_parse_int", "def")
            pfn = find_function(path, mtree, "_parse_int")
            sig = read_signature(path, pfn, [("x", "str", STR)], ("int",))
            for t in translate_function(path, pfn, "parse_int_tx_gen", sig, ZT, {}, {}):
                w(t)
                w("")
            nfun += 1
            funcs["_parse_int"] = ("parse_int_tx_gen", [("x", STR, None)], ZT)
        fn = find_function(path, mtree, f)
        sig = read_signature(path, fn, params)
        for t in translate_function(path, fn, coq, sig, VAL, funcs, tables):
            w(t)
            w("")
        nfun += 1
        pi_funcs[f] = (coq, [(n, t, None) for n, _, t in params], VAL)
    # ---- the handlers
    for h in HANDLERS:
        fn = find_function(pi, tree, h)
        sig = read_signature(pi, fn, None, ("Instruction", "instructions.Instruction"))
        coq = h + "_gen"
        for t in translate_function(pi, fn, coq, sig, VAL, dict(pi_funcs), {}):
            w(t)
            w("")
        nfun += 1
        pi_funcs[h] = (coq, sig, VAL)
    # ---- the rule lambdas
    rules = [n for n in tree.body if isinstance(n, ast.AnnAssign) and isinstance(n.target, ast.Name) and n.target.id == "parser_rules"]
    if len(rules) != 1 or not isinstance(rules[0].value, ast.List):
        raise TranslateError(f"translator: {pi}: parser_rules is not a single annotated list display")
    if ast.unparse(rules[0].annotation) != "List[Tuple[str, Callable[[str], Instruction]]]":
        fail(pi, rules[0], "annotation of parser_rules")
    entries = []
    for elt in rules[0].value.elts:
        if not (isinstance(elt, ast.Tuple) and len(elt.elts) == 2 and str_const(elt.elts[0]) and isinstance(elt.elts[1], ast.Lambda)):
            fail(pi, elt, "rule " + ast.unparse(elt)[:60])
        key, lam = elt.elts[0].value, elt.elts[1]
        a = lam.args
        if a.vararg or a.kwarg or a.kwonlyargs or a.posonlyargs or a.defaults or len(a.args) != 1 or a.args[0].arg not in ("x", "_x"):
            fail(pi, lam, "parameters of the rule lambda")
        x = a.args[0].arg
        ctx = Ctx(pi, f"the rule {key!r}", "rule", pi_funcs, {})
        env = Env(ctx, {x: STR})
        body = lam.body
        is_ctor = isinstance(body, ast.Call) and isinstance(body.func, ast.Attribute) and isinstance(body.func.value, ast.Name) and body.func.value.id == "instructions"
        is_handler = isinstance(body, ast.Call) and isinstance(body.func, ast.Name) and body.func.id in HANDLERS
        if not (is_ctor or is_handler):
            fail(pi, lam, "rule body is neither instructions.C(..) nor a handler call: " + ast.unparse(body)[:60])
        t, ty, pure = expr(env, body)
        if ty != VAL:
            fail(pi, lam, f"rule returns a value of type {ty}")
        entries.append(f"  (* line {elt.lineno} *) ({coq_str(key)}, fun {x} =>\n{indent(mon(t, pure), 6)})")
    w(f"(* {PI_REL}: parser_rules (line {rules[0].lineno}): for each rule the key and the lambda, in source order *)")
    w("Definition shape_rules_gen : list (string * (string -> pyx pval)) := [")
    w(";\n".join(entries))
    w("].")
    os.makedirs(outdir, exist_ok=True)
    with open(os.path.join(outdir, "ShapeGen.v"), "w") as fh:
        fh.write("\n".join(L) + "\n")
    return nfun + len(entries)


def main():
    outdir = sys.argv[1] if len(sys.argv) > 1 else os.path.join(os.path.dirname(os.path.abspath(__file__)), "..", "coq", "Gen")
    try:
        n = emit_shape(outdir)
    except TranslateError as e:
        print(str(e))
        sys.exit(2)
    print(f"translate_shape: {n} argument-parser functions and rule lambdas -> {outdir}/ShapeGen.v")


if __name__ == "__main__":
    main()
