#!/venv/bin/python
"""Self-test of tools/translate_stack.py (the regenerated operand reconstruction, Gen/StackGen.v) together with the part of
tools/translate_asserted.py that Lemmas/StackGenLemmas.v covers (_flatten_ast / compute_equations, Gen/AssertedGen.v).

(a) runs both translators on the clean source ($VERIF_REPO, default /tmp/cleanrepo) and checks that the outputs are the
    committed coq/Gen/StackGen.v and coq/Gen/AssertedGen.v, compile, and that Lemmas/StackGenLemmas.v compiles against them;
(b) applies small mutations to a scratch copy of stack_ast_builder.py (and of basic_blocks.py / instructions.py for the
    fingerprint rows) and shows that, for each, either a translator stops (TranslateError) or the generated Gallina
    differs AND Lemmas/StackGenLemmas.v no longer compiles against it.

Precondition: coq/ has been built (`make`); the .vo files of Model/, Gen/ (all but StackGen, AssertedGen), Spec/, Lemmas/
are used.  Lemmas/StackGenLemmas.v does not load Lemmas/AssertedGenLemmas.vo, so a regenerated AssertedGen.vo is
consistent with everything it loads.  Every coqc runs under `timeout`.  Exit status 0 iff every row has the expected
verdict.

usage: VERIF_REPO=/tmp/cleanrepo /venv/bin/python tools/test_translate_stack.py [-v]
"""
import ast
import os
import re
import shutil
import subprocess
import sys
import tempfile

HERE = os.path.dirname(os.path.abspath(__file__))
ROOT = os.path.dirname(HERE)
COQ = os.path.join(ROOT, "coq")
PY = "/venv/bin/python"
REPO = os.environ.get("VERIF_REPO", "/tmp/cleanrepo")

SB = "tealer/analyses/utils/stack_ast_builder.py"
BB = "tealer/teal/basic_blocks.py"
INS = "tealer/teal/instructions/instructions.py"
REGENERATED = ("StackGen", "AssertedGen")


def sh(cmd, cwd=None, env=None):
    e = dict(os.environ)
    if env:
        e.update(env)
    p = subprocess.run(cmd, shell=True, cwd=cwd, stdout=subprocess.PIPE, stderr=subprocess.STDOUT, env=e, check=False)
    return p.returncode, p.stdout.decode(errors="replace")


# ----------------------------------------------------------------------------- mutations (text -> text)
def replace_once(src, old, new):
    if src.count(old) != 1:
        raise RuntimeError(f"mutation anchor found {src.count(old)} times: " + old[:60])
    return src.replace(old, new, 1)


def mut_pop_wrong_end(src):
    """(i) pop_n_values takes the values from the bottom of the stack (the two slices swapped)"""
    return replace_once(
        src,
        "            vals = self._values[-count:]\n            self._values = self._values[:-count]\n",
        "            vals = self._values[:-count]\n            self._values = self._values[-count:]\n",
    )


def mut_pop_reversed(src):
    """(i') pop_n_values returns the popped values in reverse order"""
    return replace_once(src, "            vals = self._values[-count:]\n", "            vals = list(reversed(self._values[-count:]))\n")


def mut_padding_side(src):
    """(ii) the unknown bottom is padded on the top side"""
    return replace_once(src, "vals = remaining_elements + self._values", "vals = self._values + remaining_elements")


def mut_out_index_dict(src):
    """(iii) off-by-one in the out-value index of the stored value"""
    return replace_once(src, "ins_stack_value[ins] = KnownStackValue(ins, ins_in_values)", "ins_stack_value[ins] = KnownStackValue(ins, ins_in_values, 1)")


def mut_out_index_range(src):
    """(iii') off-by-one in the number of out values"""
    return replace_once(src, "for i in range(ins.stack_push_size):", "for i in range(ins.stack_push_size - 1):")


def mut_out_index_plus(src):
    """(iii'') out-value index i + 1"""
    return replace_once(src, "KnownStackValue(ins, ins_in_values, i)", "KnownStackValue(ins, ins_in_values, i + 1)")


def mut_out_index_default(src):
    """(iii''') default out-value index 1"""
    return replace_once(src, "ins_out_values_index: int = 0", "ins_out_values_index: int = 1")


def mut_sizes_swapped(src):
    """(iv) pop size and push size swapped"""
    src = replace_once(src, "stack.pop_n_values(ins.stack_pop_size)", "stack.pop_n_values(ins.stack_push_size)")
    return replace_once(src, "for i in range(ins.stack_push_size):", "for i in range(ins.stack_pop_size):")


def mut_flatten_wrong_class(src):
    """(v) _flatten_ast descends into Or nodes whatever node_ins is"""
    src = replace_once(src, "from tealer.teal.instructions.instructions import (\n    Instruction,\n)", "from tealer.teal.instructions.instructions import (\n    Instruction,\n    Or,\n)")
    return replace_once(src, "    if not isinstance(root.instruction, node_ins):\n", "    if not isinstance(root.instruction, Or):\n")


def mut_flatten_through_not(src):
    """(v') _flatten_ast descends through Not"""
    src = replace_once(src, "from tealer.teal.instructions.instructions import (\n    Instruction,\n)", "from tealer.teal.instructions.instructions import (\n    Instruction,\n    Not,\n)")
    return replace_once(
        src,
        "    if not isinstance(root.instruction, node_ins):\n",
        "    if isinstance(root.instruction, Not):\n        return _flatten_ast(root.args[0], node_ins)\n    if not isinstance(root.instruction, node_ins):\n",
    )


def mut_flatten_order(src):
    """(v'') _flatten_ast visits the right operand first"""
    return replace_once(src, "left, right = root.args[0], root.args[1]", "left, right = root.args[1], root.args[0]")


def mut_compute_keeps_unknown(src):
    """(x1) compute_equations keeps the unknown values among the equations"""
    return replace_once(
        src,
        "            has_unkown_value = True\n        else:\n            known_equations.append(eq)\n",
        "            has_unkown_value = True\n        known_equations.append(eq)\n",
    )


def mut_compute_flag(src):
    """(x2) compute_equations never reports an unknown value"""
    return replace_once(src, "            has_unkown_value = True\n", "            has_unkown_value = False\n")


def mut_no_zero_test(src):
    """(x3) pop_n_values without the count == 0 test (xs[-0:] is the whole list)"""
    return replace_once(src, "        if count == 0:\n            return []\n", "")


def mut_push_bottom(src):
    """(x4) push_n_values inserts below the stack"""
    return replace_once(src, "        self._values.extend(values)\n", "        self._values = values + self._values\n")


def mut_pop_keeps(src):
    """(x5) pop_n_values empties the stack (xs[:-0] is [])"""
    return replace_once(src, "            self._values = self._values[:-count]\n", "            self._values = self._values[:-0]\n")


def mut_underflow_keeps(src):
    """(x6) on underflow the stack is not emptied"""
    return replace_once(src, "        vals = remaining_elements + self._values\n        self._values = []\n", "        vals = remaining_elements + self._values\n        self._values = self._values[-count:]\n")


def mut_padding_count(src):
    """(x7) one unknown value too many on underflow"""
    return replace_once(src, "for _ in range(count - len(self._values))", "for _ in range(count)")


def mut_no_push(src):
    """(x8) the out values are not pushed"""
    return replace_once(src, "        stack.push_n_values(ins_out_values)\n", "        stack.push_n_values([])\n")


def mut_out_args(src):
    """(x9) the out values carry the empty argument list"""
    return replace_once(
        src,
        "        ins_out_values: List[StackValue] = []\n",
        "        ins_out_values: List[StackValue] = []\n        no_values: List[StackValue] = []\n",
    ).replace("KnownStackValue(ins, ins_in_values, i)", "KnownStackValue(ins, no_values, i)")


def mut_alias(src):
    """(s1) push_n_values aliases the caller's list"""
    return replace_once(src, "        self._values.extend(values)\n", "        self._values = values\n")


def mut_capture_mutated(src):
    """(s2) the stored value captures the list that is appended to"""
    return replace_once(src, "ins_stack_value[ins] = KnownStackValue(ins, ins_in_values)", "ins_stack_value[ins] = KnownStackValue(ins, ins_out_values)")


def mut_decorator_changed(src):
    """(s3) another cache size on construct_stack_ast"""
    return replace_once(src, "@lru_cache(maxsize=None)\ndef construct_stack_ast(", "@lru_cache(maxsize=16)\ndef construct_stack_ast(")


def mut_decorator_removed(src):
    """(s4) decorator removed from compute_equations"""
    return replace_once(src, "@lru_cache(maxsize=None)\ndef compute_equations(", "def compute_equations(")


def mut_decorator_added(src):
    """(s5) a decorator on Stack.pop_n_values"""
    return replace_once(src, "    def pop_n_values(self, count: int)", "    @lru_cache(maxsize=None)\n    def pop_n_values(self, count: int)")


def mut_fresh_stack(src):
    """(s6) a fresh Stack per instruction"""
    return replace_once(src, "        ins_in_values = stack.pop_n_values(ins.stack_pop_size)", "        stack = Stack()\n        ins_in_values = stack.pop_n_values(ins.stack_pop_size)")


def mut_reversed_block(src):
    """(s7) the block is walked backwards"""
    return replace_once(src, "    for ins in bb.instructions:\n", "    for ins in reversed(bb.instructions):\n")


def mut_args_property(src):
    """(s8) KnownStackValue.args returns a reversed copy"""
    return replace_once(src, "        return self._args\n", "        return self._args[::-1]\n")


def mut_stack_len(src):
    """(s9) class Stack gets a second attribute"""
    return replace_once(src, "        self._values: List[StackValue] = []\n\n    def push_n_values", "        self._values: List[StackValue] = []\n        self._depth = 0\n\n    def push_n_values")


def mut_bb_instructions(src):
    """(s10, basic_blocks.py) BasicBlock.instructions returns a reversed copy"""
    return replace_once(src, "        return self._instructions\n", "        return self._instructions[::-1]\n")


def mut_ins_eq(src):
    """(s11, instructions.py) Instruction defines __eq__ / __hash__"""
    return replace_once(
        src,
        "    @property\n    def mode(self) -> ExecutionMode:\n",
        "    def __eq__(self, other: object) -> bool:\n        return str(self) == str(other)\n\n    def __hash__(self) -> int:\n        return hash(str(self))\n\n"
        "    @property\n    def mode(self) -> ExecutionMode:\n",
    )


def mut_rebound(src):
    """(s12) the name Stack rebound at module level"""
    return src + "\n\nStack = list\n"


def mut_break(src):
    """(s13) break in the loop of construct_stack_ast"""
    return replace_once(src, "        stack.push_n_values(ins_out_values)\n", "        stack.push_n_values(ins_out_values)\n        if ins.stack_push_size == 0:\n            break\n")


# ---- twin audit (same-typed names written for each other, swapped argument order)
def mut_pop_size_only(src):
    """(t1) the number of out values is the POP size (twin int properties; the pop itself is unchanged)"""
    return replace_once(src, "for i in range(ins.stack_push_size):", "for i in range(ins.stack_pop_size):")


def mut_push_size_only(src):
    """(t2) the number of popped values is the PUSH size (twin int properties; the out values are unchanged)"""
    return replace_once(src, "stack.pop_n_values(ins.stack_pop_size)", "stack.pop_n_values(ins.stack_push_size)")


def mut_stored_out_values(src):
    """(t3) the stored value carries the OUT values as arguments (twin lists of StackValue)"""
    return replace_once(src, "ins_stack_value[ins] = KnownStackValue(ins, ins_in_values)", "ins_stack_value[ins] = KnownStackValue(ins, ins_out_values)")


def mut_keeps_popped_slice(src):
    """(t4) pop keeps the popped slice on the stack (the two slices of the same type: second one written twice)"""
    return replace_once(src, "            self._values = self._values[:-count]\n", "            self._values = self._values[-count:]\n")


def mut_ge_args(src):
    """(a1) pop: `count >= len(self._values)` for `len(self._values) >= count`"""
    return replace_once(src, "        if len(self._values) >= count:\n", "        if count >= len(self._values):\n")


def mut_minus_args(src):
    """(a2) underflow: range(len(self._values) - count)"""
    return replace_once(src, "range(count - len(self._values))", "range(len(self._values) - count)")


def mut_ctor_args(src):
    """(a3) KnownStackValue(ins, i, ins_in_values): two constructor arguments exchanged"""
    return replace_once(src, "KnownStackValue(ins, ins_in_values, i)", "KnownStackValue(ins, i, ins_in_values)")


MUTATIONS = [
    ("(i) pop takes the values from the wrong end", SB, mut_pop_wrong_end),
    ("(i') pop returns the values reversed", SB, mut_pop_reversed),
    ("(ii) unknown padding on the wrong side", SB, mut_padding_side),
    ("(iii) out-value index of the stored value 1", SB, mut_out_index_dict),
    ("(iii') one out value too few", SB, mut_out_index_range),
    ("(iii'') out-value index i + 1", SB, mut_out_index_plus),
    ("(iii''') default out-value index 1", SB, mut_out_index_default),
    ("(iv) pop size / push size swapped", SB, mut_sizes_swapped),
    ("(v) _flatten_ast descends into Or for every node_ins", SB, mut_flatten_wrong_class),
    ("(v') _flatten_ast descends through Not", SB, mut_flatten_through_not),
    ("(v'') _flatten_ast: right operand first", SB, mut_flatten_order),
    ("(x1) compute_equations keeps unknown values", SB, mut_compute_keeps_unknown),
    ("(x2) compute_equations: flag never set", SB, mut_compute_flag),
    ("(x3) pop without the count == 0 test", SB, mut_no_zero_test),
    ("(x4) push inserts below the stack", SB, mut_push_bottom),
    ("(x5) pop empties the stack", SB, mut_pop_keeps),
    ("(x6) underflow: stack not emptied", SB, mut_underflow_keeps),
    ("(x7) underflow: too many unknown values", SB, mut_padding_count),
    ("(x8) out values not pushed", SB, mut_no_push),
    ("(x9) out values carry no arguments", SB, mut_out_args),
    ("(s1) push aliases the caller's list", SB, mut_alias),
    ("(s2) captured list is mutated", SB, mut_capture_mutated),
    ("(s3) lru_cache(maxsize=16) on construct_stack_ast", SB, mut_decorator_changed),
    ("(s4) decorator removed from compute_equations", SB, mut_decorator_removed),
    ("(s5) decorator added to Stack.pop_n_values", SB, mut_decorator_added),
    ("(s6) a fresh Stack per instruction", SB, mut_fresh_stack),
    ("(s7) reversed(bb.instructions)", SB, mut_reversed_block),
    ("(s8) KnownStackValue.args changed", SB, mut_args_property),
    ("(s9) Stack with a second attribute", SB, mut_stack_len),
    ("(s10) BasicBlock.instructions changed", BB, mut_bb_instructions),
    ("(s11) Instruction defines __eq__/__hash__", INS, mut_ins_eq),
    ("(s12) name Stack rebound", SB, mut_rebound),
    ("(s13) break in the block walk", SB, mut_break),
    ("(t1) TWIN out values counted by the pop size", SB, mut_pop_size_only),
    ("(t2) TWIN values popped by the push size", SB, mut_push_size_only),
    ("(t3) TWIN stored value carries the out values", SB, mut_stored_out_values),
    ("(t4) TWIN pop keeps the popped slice", SB, mut_keeps_popped_slice),
    ("(a1) ARGS pop: count >= len(self._values)", SB, mut_ge_args),
    ("(a2) ARGS underflow: len(self._values) - count", SB, mut_minus_args),
    ("(a3) ARGS KnownStackValue(ins, i, ins_in_values)", SB, mut_ctor_args),
]


# ----------------------------------------------------------------------------- one run
def enclosing(vfile, line):
    name = "?"
    with open(vfile, encoding="utf-8") as f:
        for i, l in enumerate(f, 1):
            m = re.match(r"\s*(Lemma|Theorem|Corollary|Definition)\s+(\w+)", l)
            if m and i <= line:
                name = m.group(2)
            if i > line:
                break
    return name


def run_case(work, scratch, rel=None, mutate=None):
    """-> dict(translator=..., text=..., gen_ok=..., lemmas_ok=..., where=..., log=...)"""
    gen = os.path.join(work, "Gen")
    lem = os.path.join(work, "Lemmas")
    os.makedirs(gen)
    os.makedirs(lem)
    path, orig = None, None
    if mutate:
        path = os.path.join(scratch, rel)
        with open(path, encoding="utf-8") as fh:
            orig = fh.read()
        new = mutate(orig)
        if new == orig:
            raise RuntimeError("mutation did not change the source")
        ast.parse(new)  # the mutant is valid Python
        with open(path, "w", encoding="utf-8") as fh:
            fh.write(new)
    try:
        rc1, out1 = sh(f"{PY} {HERE}/translate_asserted.py {gen}", env={"VERIF_REPO": scratch})
        rc2, out2 = sh(f"{PY} {HERE}/translate_stack.py {gen}", env={"VERIF_REPO": scratch})
    finally:
        if path:
            with open(path, "w", encoding="utf-8") as fh:
                fh.write(orig)
    log = "\n".join(o.strip() for rc, o in ((rc2, out2), (rc1, out1)) if rc != 0) or (out1.strip() + "\n" + out2.strip())
    res = {"translator": "ok", "log": log.replace(scratch + "/", ""), "text": None, "gen_ok": None, "lemmas_ok": None, "where": None}
    for rc, out in ((rc1, out1), (rc2, out2)):
        if rc != 0:
            res["translator"] = "STOPPED" if rc == 2 and "translator:" in out else "CRASHED"
    if res["translator"] != "ok":
        res["who"] = "+".join(n for n, rc in (("asserted", rc1), ("stack", rc2)) if rc != 0)
        return res
    res["text"] = {}
    for f in REGENERATED:
        with open(os.path.join(gen, f + ".v"), encoding="utf-8") as fh:
            res["text"][f] = fh.read()
    # the other generated files are taken (compiled) from the built tree
    for f in sorted(os.listdir(os.path.join(COQ, "Gen"))):
        if f.endswith(".vo") and f[:-3] not in REGENERATED:
            os.symlink(os.path.join(COQ, "Gen", f), os.path.join(gen, f))
    lemv = os.path.join(lem, "StackGenLemmas.v")
    shutil.copy(os.path.join(COQ, "Lemmas", "StackGenLemmas.v"), lemv)
    q = f"-Q {COQ}/Model Tealer -Q {gen} Tealer -Q {COQ}/Spec Tealer -Q {COQ}/Lemmas Tealer"
    res["gen_ok"] = True
    for f in ("AssertedGen", "StackGen"):
        rc, out = sh(f"timeout 300 coqc {q} {gen}/{f}.v 2>&1")
        res["log"] += "\n" + out[-1500:]
        if rc != 0:
            res["gen_ok"] = False
            res["where"] = f + ".v"
            return res
    rc, out = sh(f"timeout 900 coqc {q} {lemv} 2>&1")
    res["lemmas_ok"] = rc == 0
    res["log"] += "\n" + out[-1500:]
    if rc != 0:
        m = re.search(r"line (\d+), characters", out)
        res["where"] = f"{enclosing(lemv, int(m.group(1)))} (line {m.group(1)})" if m else "?"
    return res


def main():
    verbose = "-v" in sys.argv
    for f in ("Model/StackAst.vo", "Gen/KeysGen.vo", "Lemmas/StackLemmas.vo", "Lemmas/KeysGenLemmas.vo"):
        if not os.path.exists(os.path.join(COQ, f)):
            print(f"precondition: {COQ}/{f} missing -- build coq/ first (make)")
            sys.exit(3)
    top = tempfile.mkdtemp(prefix="tstack_")
    scratch = os.path.join(top, "repo")
    shutil.copytree(os.path.join(REPO, "tealer"), os.path.join(scratch, "tealer"), ignore=shutil.ignore_patterns("__pycache__"))
    rows = []
    ok = True
    try:
        base = run_case(os.path.join(top, "base"), scratch)
        same = None
        if base["text"] is not None:
            same = True
            for f in REGENERATED:
                cur = os.path.join(COQ, "Gen", f + ".v")
                if not os.path.exists(cur):
                    same = False
                    continue
                with open(cur, encoding="utf-8") as fh:
                    same = same and fh.read() == base["text"][f]
        good = base["translator"] == "ok" and base["gen_ok"] and base["lemmas_ok"] and same is True
        ok &= bool(good)
        rows.append(("(a) clean source", base["translator"], "= coq/Gen/{StackGen,AssertedGen}.v" if same else ("DIFFERS from coq/Gen" if same is False else "-"), base["gen_ok"], base["lemmas_ok"], "PASS" if good else "FAIL"))
        if verbose or not good:
            print(base["log"])
        for i, (name, rel, fn) in enumerate(MUTATIONS):
            r = run_case(os.path.join(top, f"m{i}"), scratch, rel, fn)
            if r["translator"] == "STOPPED":
                verdict, good, diff = f"caught: translate_{r['who']} stops", True, "-"
            elif r["translator"] == "CRASHED":
                verdict, good, diff = "FAIL: translator crashed", False, "-"
            else:
                changed = [f for f in REGENERATED if r["text"][f] != base["text"][f]]
                diff = ("differs: " + ", ".join(changed)) if changed else "IDENTICAL"
                if changed and r["gen_ok"] and r["lemmas_ok"] is False:
                    verdict, good = f"caught: lemmas break in {r['where']}", True
                elif changed and not r["gen_ok"]:
                    verdict, good = f"caught: {r['where']} ill-typed", True
                else:
                    verdict, good = "FAIL: NOT DETECTED", False
            ok &= good
            rows.append((name, r["translator"], diff, r["gen_ok"], r["lemmas_ok"], verdict))
            if verbose or not good:
                print(f"--- {name}\n{r['log']}\n")
            elif r["translator"] == "STOPPED":
                print(f"--- {name}: {r['log'].splitlines()[0][:300]}")
    finally:
        shutil.rmtree(top, ignore_errors=True)
    hdr = ("case", "translators", "generated Gallina", "Gen files compile", "StackGenLemmas.v compiles", "verdict")
    fmt = lambda x: "-" if x is None else ("yes" if x is True else ("NO" if x is False else str(x)))  # noqa: E731
    table = [hdr] + [tuple(fmt(c) for c in r) for r in rows]
    widths = [max(len(r[i]) for r in table) for i in range(len(hdr))]
    print()
    for k, r in enumerate(table):
        print(" | ".join(c.ljust(w) for c, w in zip(r, widths)))
        if k == 0:
            print("-+-".join("-" * w for w in widths))
    print("\nRESULT:", "all mutations caught, clean source accepted" if ok else "FAILURE")
    sys.exit(0 if ok else 1)


if __name__ == "__main__":
    main()
