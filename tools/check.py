#!/venv/bin/python
"""/verif/check <Cxx> [--tier quick|thorough] [--replay file]   |   /verif/check --setup

Per property: (1) translate /repo -> coq/Gen, (2) make the Coq development (proof obligations re-checked
against the regenerated definitions), (3) forbidden-token gate + Print Assumptions harvest,
(4) extraction + driver, (5) correspondence model ≙ implementation on corpus / enumerated / random streams,
(6) property oracle on the implementation (violation search), (7) known findings, (8) evidence."""
import json
import os
import random
import re
import sys
import time
import traceback

HERE = os.path.dirname(os.path.abspath(__file__))
ROOT = os.path.dirname(HERE)
sys.path.insert(0, HERE)

import build as B  # noqa: E402
import corr  # noqa: E402
import gen  # noqa: E402
import oracle  # noqa: E402
import propdefs  # noqa: E402

COQ = os.path.join(ROOT, "coq")
FORBIDDEN = re.compile(r"\b(Admitted|admit|Axiom|Axioms|Parameter|Parameters|Conjecture|Hypothesis|Variable)\b|Unset\s+Guard|bypass_check|type-in-type|impredicative-set|Admit\s+Obligations")
STMT = re.compile(r"^\s*(Theorem|Lemma|Corollary|Example|Fact|Proposition|Remark)\s+([A-Za-z0-9_']+)", re.M)


def strip_comments(src):
    out, depth, i = [], 0, 0
    while i < len(src):
        if src.startswith("(*", i):
            depth += 1
            i += 2
        elif src.startswith("*)", i) and depth > 0:
            depth -= 1
            i += 2
        else:
            if depth == 0:
                out.append(src[i])
            i += 1
    return "".join(out)


def gate_and_count(files):
    """forbidden tokens (outside comments; Variable/Hypothesis are allowed inside Sections only) and statement count"""
    problems, stmts = [], []
    for rel in files:
        path = os.path.join(COQ, rel)
        if not os.path.exists(path):
            problems.append(f"{rel}: missing")
            continue
        src = strip_comments(open(path).read())
        depth = 0
        for ln, line in enumerate(src.split("\n"), 1):
            if re.match(r"^\s*Section\s", line):
                depth += 1
            if re.match(r"^\s*End\s", line) and depth > 0:
                depth -= 1
            for m in FORBIDDEN.finditer(line):
                tok = m.group(0)
                if tok in ("Variable", "Hypothesis", "Variables", "Parameters") and depth > 0:
                    continue
                if tok in ("Parameter",) and "Print Assumptions" in line:
                    continue
                problems.append(f"{rel}:{ln}: forbidden token {tok!r}")
        stmts += [(rel, m.group(2)) for m in STMT.finditer(src)]
    return problems, stmts


def transitive_files(root_files):
    """our own .v dependencies of the given files (through `From Tealer Require Import`)"""
    index = {}
    for d in ("Model", "Gen", "Spec", "Lemmas", "Props"):
        dd = os.path.join(COQ, d)
        if os.path.isdir(dd):
            for f in os.listdir(dd):
                if f.endswith(".v"):
                    index[f[:-2]] = f"{d}/{f}"
    seen, todo = [], list(root_files)
    while todo:
        f = todo.pop()
        if f in seen:
            continue
        seen.append(f)
        p = os.path.join(COQ, f)
        if not os.path.exists(p):
            continue
        for m in re.finditer(r"From\s+Tealer\s+Require\s+(?:Import|Export)\s+([^.]*)\.", open(p).read()):
            for name in m.group(1).split():
                if name in index:
                    todo.append(index[name])
    return seen


def assumptions_of(prop_file):
    """compile output of Props/Cxx.v was produced by make; re-run coqc on it to harvest Print Assumptions"""
    rc, out = B.sh(f"timeout 600 coqc -Q Model Tealer -Q Gen Tealer -Q Spec Tealer -Q Lemmas Tealer -Q Props Tealer {prop_file} 2>&1", cwd=COQ)
    closed = out.count("Closed under the global context")
    axioms = sorted(set(re.findall(r"^([A-Za-z_][A-Za-z0-9_.']*)\s*:", out, re.M))) if "Axioms:" in out else []
    return rc, closed, axioms, out[-1500:]


def write_evidence(pid, ev):
    os.makedirs(os.path.join(ROOT, "evidence"), exist_ok=True)
    with open(os.path.join(ROOT, "evidence", f"{pid}.json"), "w") as f:
        json.dump(ev, f, indent=1, default=str)


def write_replay(pid, seed, payload):
    os.makedirs(os.path.join(ROOT, "replays"), exist_ok=True)
    path = os.path.join(ROOT, "replays", f"{pid}-{seed}.json")
    with open(path, "w") as f:
        json.dump(payload, f, indent=1, default=str)
    return path


def load_known():
    p = os.path.join(ROOT, "known_findings.json")
    if os.path.exists(p):
        return json.load(open(p))
    return {"findings": [], "fixed": []}


def main():
    args = sys.argv[1:]
    if args and args[0] == "--setup":
        try:
            info = B.build()
            print("setup ok:", {k: v for k, v in info.items() if k != "make_log_tail"})
            sys.exit(0)
        except B.BuildError as e:
            print("setup failed at", e.stage)
            print(e.log[-4000:])
            sys.exit(1)
    pid = args[0]
    tier = os.environ.get("VERIF_TIER", "quick")
    replay = None
    i = 1
    while i < len(args):
        if args[i] == "--tier":
            tier = args[i + 1]
            i += 2
        elif args[i] == "--replay":
            replay = args[i + 1]
            i += 2
        else:
            i += 1
    seed = int(os.environ.get("VERIF_SEED", "1"))
    t0 = time.time()
    P = propdefs.PROPS[pid]
    ev = {
        "property_id": pid, "tier": tier, "seed": seed, "level": "proof",
        "coverage": {}, "assumptions": list(P.get("assumptions", [])), "wall_s": 0.0, "violations": 0,
    }
    cov = ev["coverage"]
    violations = []   # (message, replay payload)
    known_lines = []
    broken = []       # names of proof obligations / correspondences that no longer check
    ctx = {"pid": pid, "tier": tier, "seed": seed, "rng": random.Random(seed), "cov": cov, "violations": violations,
           "broken": broken, "known": load_known(), "known_lines": known_lines, "replay": replay}
    try:
        # ---- (1)-(4) build
        try:
            info = B.build()
            cov["build"] = {k: info.get(k) for k in ("translate_log", "generated_changed", "translate_s", "make_s", "extract_s")}
        except B.BuildError as e:
            cov["build_failed"] = {"stage": e.stage, "log_tail": e.log[-3000:]}
            m = re.search(r'File "\./([^"]+)", line (\d+)', e.log)
            last = [l for l in e.log.strip().split("\n") if l.strip()][-1:] or ["?"]
            broken.append(f"build:{e.stage}:" + (f"{m.group(1)}:{m.group(2)}" if m else last[0][:300]))
            # the model cannot be rebuilt: fall back to the last built driver for the search, if any
            info = None
        files = transitive_files([f"Props/{pid}.v"])
        problems, stmts = gate_and_count(files)
        if problems:
            broken.append("gate:" + "; ".join(problems[:5]))
        cov["obligations"] = len(stmts)
        cov["proof_files"] = files
        if info is not None and not problems:
            rc, closed, axioms, tail = assumptions_of(f"Props/{pid}.v")
            cov["print_assumptions_closed"] = closed
            cov["axioms"] = axioms
            if rc != 0:
                broken.append(f"coqc:Props/{pid}.v")
                cov["props_log_tail"] = tail
            cov["discharged"] = len(stmts) if rc == 0 else 0
        else:
            cov["discharged"] = 0
        if tier == "thorough" and info is not None and not problems:
            # independent re-check of the compiled closure of Props/<pid>.vo (coqchk), with its axiom summary
            rc2, out2 = B.sh(f"timeout 3000 coqchk -silent -o -Q Model Tealer -Q Gen Tealer -Q Spec Tealer -Q Lemmas Tealer -Q Props Tealer Tealer.{pid} 2>&1", cwd=COQ, timeout=3100)
            summ = out2[out2.find("CONTEXT SUMMARY"):] if "CONTEXT SUMMARY" in out2 else out2[-1500:]
            cov["coqchk"] = {"rc": rc2, "summary": summ[-2500:]}
            if rc2 != 0:
                broken.append(f"coqchk:Props/{pid}.vo")
        cov["checker_cmd"] = "coq_makefile -f _CoqProject -o Makefile && make (coqc 8.16.1, full .vo build); coqc Props/%s.v for Print Assumptions" % pid
        cov["trusted_base"] = propdefs.TRUSTED_BASE + P.get("trusted_extra", [])
        cov["samples"] = [f"{f}:{n}" for f, n in stmts if f.startswith("Props/")][:12]
        # ---- (5)-(7) correspondence + oracle + known findings
        if os.path.exists(os.path.join(ROOT, "ocaml", "driver")):
            P["run"](ctx)
        else:
            broken.append("driver missing")
    except Exception:  # pylint: disable=broad-except
        broken.append("check crashed: " + traceback.format_exc()[-1500:])
    # ---- report
    ev["wall_s"] = round(time.time() - t0, 1)
    rc = 0
    for line in known_lines:
        print(line)
    if violations:
        ev["violations"] = len(violations)
        msg, payload = violations[0]
        payload = dict(payload)
        payload.update({"property": pid, "what": msg, "broken": broken})
        path = write_replay(pid, seed, payload)
        print(f"VIOLATION property={pid} replay={path}")
        print("  " + msg[:400])
        rc = 1
    elif broken:
        ev["violations"] = 1
        path = write_replay(pid, seed, {"property": pid, "kind": "no-failing-input-found", "broken": broken,
                                         "note": "a proof obligation or the model/implementation correspondence no longer checks; the search found no input on which the property itself fails"})
        print(f"VIOLATION property={pid} replay={path} no-failing-input-found")
        for b in broken[:5]:
            print("  broken:", b[:400])
        rc = 1
    cov["broken"] = broken
    cov["resource_skipped_requests"] = len(corr.SKIPPED)
    if cov.get("input_samples"):
        cov["samples"] = list(cov.get("samples", [])) + cov["input_samples"][:3]
    write_evidence(pid, ev)
    if rc == 0:
        print(f"OK property={pid} tier={tier} obligations={cov.get('obligations')} discharged={cov.get('discharged')} "
              f"corr={cov.get('traces_validated_against_impl')} wall={ev['wall_s']}s")
    sys.exit(rc)


if __name__ == "__main__":
    main()
