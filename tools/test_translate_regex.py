#!/venv/bin/python
"""Self-test of tools/translate_regex.py (the regenerated regex engine, Gen/RegexGen.v).

(a) runs the translator on the clean source ($VERIF_REPO, default /tmp/cleanrepo) and checks that the output is the
    current coq/Gen/RegexGen.v, compiles, and that Lemmas/RegexGenLemmas.v compiles against it;
(b) applies small mutations to a scratch copy of utils/regex/regex.py (and of the fingerprinted classes) and shows
    that, for each, either the translator stops (TranslateError) or the generated Gallina differs AND
    Lemmas/RegexGenLemmas.v no longer compiles against it; semantically neutral mutants (e1, e2) are included as a
    control: their Gallina differs and the lemmas must still compile.

Precondition: coq/ has been built (`make`); the .vo files of Model/, Gen/, Spec/, Lemmas/ are used.  Every coqc runs
under `timeout`.  Exit status 0 iff every row has the expected verdict.

usage: VERIF_REPO=/tmp/cleanrepo /venv/bin/python tools/test_translate_regex.py [-v]
"""
import ast
import os
import re
import shutil
import subprocess
import sys
import tempfile

HERE = os.path.dirname(os.path.abspath(__file__))
ROOT = os.path.dirname(HERE)
COQ = os.path.join(ROOT, "coq")
PY = "/venv/bin/python"
REPO = os.environ.get("VERIF_REPO", "/tmp/cleanrepo")

RX = "tealer/utils/regex/regex.py"
INS = "tealer/teal/instructions/instructions.py"
BB = "tealer/teal/basic_blocks.py"


def sh(cmd, cwd=None, env=None):
    e = dict(os.environ)
    if env:
        e.update(env)
    p = subprocess.run(cmd, shell=True, cwd=cwd, stdout=subprocess.PIPE, stderr=subprocess.STDOUT, env=e, check=False)
    return p.returncode, p.stdout.decode(errors="replace")


# ----------------------------------------------------------------------------- mutations (text -> text)
def replace_once(src, old, new):
    if src.count(old) != 1:
        raise RuntimeError(f"mutation anchor found {src.count(old)} times: " + old[:60])
    return src.replace(old, new, 1)


def cut(src, old):
    return replace_once(src, old, "")


WALK_START = "        match: List[Instruction] = []\n        current = current_instruction\n"
WALK_END = "        matches.append(match)\n"
STEP = (
    "        current_instruction = (\n"
    "            current_instruction.next[0]\n"
    "            if current_instruction.next and len(current_instruction.next) == 1\n"
    "            else None\n"
    "        )\n"
)


def mut_cursor_reused(src):
    """(i) the cursor walking along a match is current_instruction itself: the successor loop starts after the match"""
    a = src.index(WALK_START)
    b = src.index(WALK_END)
    seg = src[a:b]
    seg = seg.replace("        current = current_instruction\n", "")
    seg = re.sub(r"\bcurrent\b", "current_instruction", seg)
    return src[:a] + seg + src[b:]


def mut_is_match_successors(src):
    """(ii) _is_match steps along _successors instead of .next"""
    return replace_once(
        src,
        STEP,
        "        current_instruction = (\n"
        "            _successors(current_instruction)[0]\n"
        "            if _successors(current_instruction) and len(_successors(current_instruction)) == 1\n"
        "            else None\n"
        "        )\n",
    )


def mut_successors_no_callee(src):
    """(iii) _successors drops the callee entry"""
    return replace_once(src, "        return ins.next + [ins.called_subroutine.entry.entry_instr]\n", "        return ins.next\n")


def mut_closure_prev(src):
    """(iv) the backward closure walks ins.prev instead of the predecessor map"""
    return replace_once(src, "        for prev_ins in predecessors[ins]:\n", "        for prev_ins in ins.prev:\n")


def mut_covered_returns(src):
    """(v) `if next_ins in covered: continue` -> `return True`"""
    return replace_once(src, "        if next_ins in covered:\n            continue\n", "        if next_ins in covered:\n            return True\n")


def mut_no_visited_add(src):
    """(x1) the current instruction is not recorded as visited"""
    return cut(src, "    visited.add(current_instruction)\n\n")


def mut_visited_true(src):
    """(x2) an already visited instruction reports a match"""
    return replace_once(src, "    if current_instruction in visited:\n        return False\n", "    if current_instruction in visited:\n        return True\n")


def mut_pop_front(src):
    """(x3) the worklist is popped from the front"""
    return replace_once(src, "        ins = worklist.pop()\n", "        ins = worklist.pop(0)\n")


def mut_cover_child(src):
    """(x4) the successor, not the current instruction, is marked covered"""
    return replace_once(src, "            covered.add(current_instruction)\n", "            covered.add(next_ins)\n")


def mut_alias(src):
    """(x5) the match list is stored in matches before its last element is appended (aliasing)"""
    src = cut(src, "        matches.append(match)\n")
    return replace_once(src, "        match.append(current)\n        reaches = True\n", "        matches.append(match)\n        match.append(current)\n        reaches = True\n")


def mut_equal_no_type(src):
    """(x6) _is_equal no longer compares the classes"""
    return cut(src, "    if type(a) is not type(b):\n        return False\n\n")


def mut_no_union(src):
    """(x7) the closure is computed but not added to covered"""
    return cut(src, "    covered |= reaches_match\n")


def mut_match_not_reaching(src):
    """(x8) a match does not set reaches"""
    return replace_once(src, "        matches.append(match)\n        reaches = True\n", "        matches.append(match)\n")


def mut_closure_from_last(src):
    """(x9) the closure starts from the last instruction of every match"""
    return replace_once(src, "    worklist = [match[0] for match in matches]\n", "    worklist = [match[1] for match in matches]\n")


def mut_preds_swapped(src):
    """(x10) the predecessor map is filled the wrong way round"""
    return replace_once(src, "            predecessors[next_ins].append(ins)\n", "            predecessors[ins].append(next_ins)\n")


def mut_label_first_only(src):
    """(x11) _find_label: the uniqueness assertion is dropped"""
    return cut(src, "    # assuming the same label can't be reused in a contract\n    assert len(match) <= 1\n\n")


def mut_is_match_no_none(src):
    """(x12) _is_match: a pattern longer than the code matches"""
    return replace_once(src, "        if current_instruction is None:\n            return False\n", "        if current_instruction is None:\n            return True\n")


def mut_next_fingerprint(src):
    """(s1, instructions.py) Instruction.next returns the predecessors"""
    return replace_once(
        src,
        "            list of next instructions that might be executed after this instruction.\n        \"\"\"\n        return self._next\n",
        "            list of next instructions that might be executed after this instruction.\n        \"\"\"\n        return self._prev\n",
    )


def mut_ins_eq(src):
    """(s2, instructions.py) Instruction defines __eq__"""
    return replace_once(src, "    def add_prev(self, prev_ins: \"Instruction\") -> None:\n", "    def __eq__(self, other: object) -> bool:\n        return str(self) == str(other)\n\n    def add_prev(self, prev_ins: \"Instruction\") -> None:\n")


def mut_sets_aliased(src):
    """(s3) covered and visited are the same set object"""
    return replace_once(src, "    visited: Set[Instruction] = set()\n", "    visited: Set[Instruction] = covered\n")


def mut_regex_class(src):
    """(s4) the Regex class changes"""
    return replace_once(src, "        self.label = label\n        self.instructions = instructions\n", "        self.label = label.strip()\n        self.instructions = instructions\n")


def mut_entry_instr(src):
    """(s5, basic_blocks.py) entry_instr is the last instruction of the block"""
    return replace_once(src, "        return self._instructions[0]\n", "        return self._instructions[-1]\n")


def mut_label_subclass(src):
    """(s6, instructions.py) a subclass of Callsub"""
    return replace_once(src, "class Return(Instruction):\n", "class Callsub2(Callsub):\n    pass\n\n\nclass Return(Instruction):\n")


def mut_signature(src):
    """(s7) matches and covered swapped in the signature of _find_instructions"""
    return replace_once(
        src,
        "    matches: List[List[Instruction]],\n    covered: Set[Instruction],\n) -> bool:\n",
        "    covered: Set[Instruction],\n    matches: List[List[Instruction]],\n) -> bool:\n",
    )


def mut_len_rebound(src):
    """(s8) the builtin len is re-bound in the module"""
    return replace_once(src, "# pylint: disable=too-few-public-methods\nclass Regex:\n", "len = lambda x: 1\n\n\n# pylint: disable=too-few-public-methods\nclass Regex:\n")


def mut_mutate_while_iterating(src):
    """(s9) visited is mutated while it is iterated"""
    return replace_once(src, "            predecessors[next_ins].append(ins)\n", "            predecessors[next_ins].append(ins)\n            visited.add(next_ins)\n")


def mut_try(src):
    """(s10) a statement kind outside the whitelist"""
    return replace_once(src, "    reaches = False\n", "    reaches = False\n    try:\n        pass\n    finally:\n        pass\n")


def mut_swap_inits(src):
    """(e1) EQUIVALENT: covered and visited created in the other order"""
    a = "    covered: Set[Instruction] = set()\n"
    b = "    visited: Set[Instruction] = set()\n"
    return replace_once(src, a + b, b + a)


def mut_reaches_first(src):
    """(e2) EQUIVALENT: `reaches = False` before `visited.add(..)`"""
    return replace_once(src, "    visited.add(current_instruction)\n\n    reaches = False\n", "    reaches = False\n\n    visited.add(current_instruction)\n")


# ---- twin audit (same-typed names written for each other, swapped argument order / tuple components)
def mut_entry_test_covered(src):
    """(t1) the entry test of _find_instructions reads `covered` (twin sets visited / covered)"""
    return replace_once(src, "    if current_instruction in visited:\n", "    if current_instruction in covered:\n")


def mut_successor_test_visited(src):
    """(t2) a successor is skipped when it is in `visited` (twin sets)"""
    return replace_once(src, "        if next_ins in covered:\n", "        if next_ins in visited:\n")


def mut_cover_into_visited(src):
    """(t3) a reaching instruction is added to `visited` instead of `covered` (twin sets)"""
    return replace_once(src, "            covered.add(current_instruction)\n", "            visited.add(current_instruction)\n")


def mut_preds_over_covered(src):
    """(t4) the predecessor map is built over `covered` (twin sets)"""
    return replace_once(src, "    for ins in visited:\n", "    for ins in covered:\n")


def mut_return_reaches(src):
    """(t5) match_regex returns reaches_match (twin sets) for covered"""
    return replace_once(src, "    return matches, covered\n", "    return matches, reaches_match\n")


def mut_call_sets_swapped(src):
    """(a1) match_regex passes (covered, matches, visited): the two set arguments of the same type exchanged"""
    return replace_once(
        src,
        "    _find_instructions(label, regex.instructions, visited, matches, covered)\n",
        "    _find_instructions(label, regex.instructions, covered, matches, visited)\n",
    )


def mut_rec_sets_swapped(src):
    """(a2) the recursive call passes (covered, matches, visited)"""
    return replace_once(
        src,
        "        if _find_instructions(next_ins, regex, visited, matches, covered):\n",
        "        if _find_instructions(next_ins, regex, covered, matches, visited):\n",
    )


def mut_successors_callee_first(src):
    """(a3) _successors: the callee entry before ins.next"""
    return replace_once(
        src,
        "        return ins.next + [ins.called_subroutine.entry.entry_instr]\n",
        "        return [ins.called_subroutine.entry.entry_instr] + ins.next\n",
    )


def mut_range_args(src):
    """(a4) range(len(regex) - 1, 0): the two arguments of range exchanged"""
    return replace_once(src, "        for _ in range(0, len(regex) - 1):\n", "        for _ in range(len(regex) - 1, 0):\n")


def mut_is_equal_args(src):
    """(a5) _is_equal(regex_ins, current_instruction): the function is symmetric (type identity, str equality)"""
    return replace_once(
        src,
        "        if not _is_equal(current_instruction, regex_ins):\n",
        "        if not _is_equal(regex_ins, current_instruction):\n",
    )


MUTATIONS = [
    ("(i) match cursor re-uses current_instruction", RX, mut_cursor_reused),
    ("(ii) _is_match steps along _successors", RX, mut_is_match_successors),
    ("(iii) _successors drops the callee entry", RX, mut_successors_no_callee),
    ("(iv) closure restricted to ins.prev", RX, mut_closure_prev),
    ("(v) covered successor: continue -> return True", RX, mut_covered_returns),
    ("(x1) visited.add dropped", RX, mut_no_visited_add),
    ("(x2) visited instruction returns True", RX, mut_visited_true),
    ("(x3) worklist.pop(0)", RX, mut_pop_front),
    ("(x4) covered.add(next_ins)", RX, mut_cover_child),
    ("(x5) match stored before its last append", RX, mut_alias),
    ("(x6) _is_equal ignores the class", RX, mut_equal_no_type),
    ("(x7) covered |= reaches_match dropped", RX, mut_no_union),
    ("(x8) a match does not set reaches", RX, mut_match_not_reaching),
    ("(x9) closure starts from match[1]", RX, mut_closure_from_last),
    ("(x10) predecessor map filled the wrong way", RX, mut_preds_swapped),
    ("(x11) uniqueness assertion dropped", RX, mut_label_first_only),
    ("(x12) _is_match: end of code matches", RX, mut_is_match_no_none),
    ("(s1) Instruction.next changed (fingerprint)", INS, mut_next_fingerprint),
    ("(s2) Instruction.__eq__ defined", INS, mut_ins_eq),
    ("(s3) visited is an alias of covered", RX, mut_sets_aliased),
    ("(s4) class Regex changed (fingerprint)", RX, mut_regex_class),
    ("(s5) BasicBlock.entry_instr changed (fingerprint)", BB, mut_entry_instr),
    ("(s6) a subclass of Callsub", INS, mut_label_subclass),
    ("(s7) _find_instructions signature changed", RX, mut_signature),
    ("(s8) builtin len re-bound", RX, mut_len_rebound),
    ("(s9) visited mutated while iterated", RX, mut_mutate_while_iterating),
    ("(s10) try statement", RX, mut_try),
    ("(e1) EQUIVALENT: sets created in the other order", RX, mut_swap_inits),
    ("(e2) EQUIVALENT: reaches initialised first", RX, mut_reaches_first),
    ("(t1) TWIN entry test reads covered", RX, mut_entry_test_covered),
    ("(t2) TWIN successor skipped when visited", RX, mut_successor_test_visited),
    ("(t3) TWIN visited.add for covered.add", RX, mut_cover_into_visited),
    ("(t4) TWIN predecessor map over covered", RX, mut_preds_over_covered),
    ("(t5) TWIN match_regex returns reaches_match", RX, mut_return_reaches),
    ("(a1) ARGS match_regex passes (covered, .., visited)", RX, mut_call_sets_swapped),
    ("(a2) ARGS recursive call passes (covered, .., visited)", RX, mut_rec_sets_swapped),
    ("(a3) ARGS _successors: [callee] + ins.next", RX, mut_successors_callee_first),
    ("(a4) ARGS range(len(regex) - 1, 0)", RX, mut_range_args),
    ("(a5) ARGS _is_equal(regex_ins, current_instruction)", RX, mut_is_equal_args),
]
EQUIVALENT = {"(e1) EQUIVALENT: sets created in the other order", "(e2) EQUIVALENT: reaches initialised first"}
REQUIRED = 5  # the first five rows are the mutations required by the task


# ----------------------------------------------------------------------------- one run
def enclosing(vfile, line):
    name = "?"
    with open(vfile, encoding="utf-8") as f:
        for i, l in enumerate(f, 1):
            m = re.match(r"\s*(Lemma|Theorem|Corollary|Definition)\s+(\w+)", l)
            if m and i <= line:
                name = m.group(2)
            if i > line:
                break
    return name


def run_case(work, scratch, rel=None, mutate=None):
    """-> dict(translator=..., text=..., gen_ok=..., lemmas_ok=..., where=..., log=...)"""
    gen = os.path.join(work, "Gen")
    lem = os.path.join(work, "Lemmas")
    os.makedirs(gen)
    os.makedirs(lem)
    path, orig = None, None
    if mutate:
        path = os.path.join(scratch, rel)
        with open(path, encoding="utf-8") as fh:
            orig = fh.read()
        new = mutate(orig)
        if new == orig:
            raise RuntimeError("mutation did not change the source")
        ast.parse(new)  # the mutant is valid Python
        with open(path, "w", encoding="utf-8") as fh:
            fh.write(new)
    try:
        rc, out = sh(f"{PY} {HERE}/translate_regex.py {gen}", env={"VERIF_REPO": scratch})
    finally:
        if path:
            with open(path, "w", encoding="utf-8") as fh:
                fh.write(orig)
    res = {"translator": "ok" if rc == 0 else "STOPPED", "log": out.strip().replace(scratch + "/", ""), "text": None, "gen_ok": None, "lemmas_ok": None, "where": None}
    if rc != 0:
        if rc != 2 or "translator:" not in out:
            res["translator"] = "CRASHED"
        return res
    with open(os.path.join(gen, "RegexGen.v"), encoding="utf-8") as fh:
        res["text"] = fh.read()
    # the other generated files are taken (compiled) from the built tree
    for f in os.listdir(os.path.join(COQ, "Gen")):
        if f.endswith(".vo") and f != "RegexGen.vo":
            os.symlink(os.path.join(COQ, "Gen", f), os.path.join(gen, f))
    lemv = os.path.join(lem, "RegexGenLemmas.v")
    shutil.copy(os.path.join(COQ, "Lemmas", "RegexGenLemmas.v"), lemv)
    q = f"-Q {COQ}/Model Tealer -Q {gen} Tealer -Q {COQ}/Spec Tealer -Q {COQ}/Lemmas Tealer"
    rc, out = sh(f"timeout 300 coqc {q} {gen}/RegexGen.v 2>&1")
    res["gen_ok"] = rc == 0
    res["log"] += "\n" + out[-1500:]
    if rc == 0:
        rc, out = sh(f"timeout 900 coqc {q} {lemv} 2>&1")
        res["lemmas_ok"] = rc == 0
        res["log"] += "\n" + out[-1500:]
        if rc != 0:
            m = re.search(r"line (\d+), characters", out)
            res["where"] = f"{enclosing(lemv, int(m.group(1)))} (line {m.group(1)})" if m else "?"
    return res


def main():
    verbose = "-v" in sys.argv
    for f in ("Model/Regex.vo", "Gen/KeysGen.vo", "Lemmas/RegexLemmas.vo", "Lemmas/SubLemmas.vo"):
        if not os.path.exists(os.path.join(COQ, f)):
            print(f"precondition: {COQ}/{f} missing -- build coq/ first (make)")
            sys.exit(3)
    top = tempfile.mkdtemp(prefix="tregex_")
    scratch = os.path.join(top, "repo")
    shutil.copytree(os.path.join(REPO, "tealer"), os.path.join(scratch, "tealer"), ignore=shutil.ignore_patterns("__pycache__"))
    rows = []
    ok = True
    try:
        base = run_case(os.path.join(top, "base"), scratch)
        same = None
        cur = os.path.join(COQ, "Gen", "RegexGen.v")
        if base["text"] is not None and os.path.exists(cur):
            with open(cur, encoding="utf-8") as fh:
                same = fh.read() == base["text"]
        good = base["translator"] == "ok" and base["gen_ok"] and base["lemmas_ok"] and same is True
        ok &= bool(good)
        rows.append(("(a) clean source", base["translator"], "= coq/Gen/RegexGen.v" if same else ("DIFFERS from coq/Gen" if same is False else "-"), base["gen_ok"], base["lemmas_ok"], "PASS" if good else "FAIL"))
        if verbose or not good:
            print(base["log"])
        for i, (name, rel, fn) in enumerate(MUTATIONS):
            r = run_case(os.path.join(top, f"m{i}"), scratch, rel, fn)
            if r["translator"] == "STOPPED":
                verdict, good, diff = "caught: translator stops", True, "-"
                if name in EQUIVALENT:
                    verdict, good = "FAIL: equivalent mutant rejected by the translator", False
            elif r["translator"] == "CRASHED":
                verdict, good, diff = "FAIL: translator crashed", False, "-"
            else:
                differs = r["text"] != base["text"]
                diff = "differs" if differs else "IDENTICAL"
                if name in EQUIVALENT:
                    good = differs and bool(r["gen_ok"]) and r["lemmas_ok"] is True
                    verdict = "equivalent mutant: lemmas still hold (expected)" if good else "FAIL: equivalent mutant rejected"
                elif differs and r["gen_ok"] and r["lemmas_ok"] is False:
                    verdict, good = f"caught: lemmas break in {r['where']}", True
                elif differs and not r["gen_ok"]:
                    verdict, good = "caught: RegexGen.v ill-typed", True
                else:
                    verdict, good = "FAIL: NOT DETECTED", False
            ok &= good
            rows.append((name, r["translator"], diff, r["gen_ok"], r["lemmas_ok"], verdict))
            if verbose or not good:
                print(f"--- {name}\n{r['log']}\n")
            elif r["translator"] == "STOPPED":
                print(f"--- {name}: {r['log'].splitlines()[0][:260]}")
    finally:
        shutil.rmtree(top, ignore_errors=True)
    hdr = ("case", "translator", "generated Gallina", "RegexGen.v compiles", "RegexGenLemmas.v compiles", "verdict")
    fmt = lambda x: "-" if x is None else ("yes" if x is True else ("NO" if x is False else str(x)))  # noqa: E731
    table = [hdr] + [tuple(fmt(c) for c in r) for r in rows]
    widths = [max(len(r[i]) for r in table) for i in range(len(hdr))]
    print()
    for k, r in enumerate(table):
        print(" | ".join(c.ljust(w) for c, w in zip(r, widths)))
        if k == 0:
            print("-+-".join("-" * w for w in widths))
    print("\nRESULT:", "all mutations caught, clean source accepted" if ok else "FAILURE")
    sys.exit(0 if ok else 1)


if __name__ == "__main__":
    main()
