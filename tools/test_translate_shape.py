#!/venv/bin/python
"""Self-test of tools/translate_shape.py (the regenerated per-rule immediate-argument parsers, Gen/ShapeGen.v).

(a) runs the translator on the clean source ($VERIF_REPO, default /repo) and checks that the output compiles, equals
    coq/Gen/ShapeGen.v when that exists, and that Lemmas/ShapeGenLemmas.v compiles against it (positive control);
(b) applies small mutations to a scratch copy of the Python sources and shows that, for each, either the translator
    stops (TranslateError) or the generated Gallina differs AND Lemmas/ShapeGenLemmas.v no longer compiles against it;
(p) edits the fixed prelude of a scratch copy of the translator without re-pinning its fingerprint: must stop;
(c) conformance of the READING with the running interpreter: the added str readings (split(), replace(c, '')) on
    sample strings, and every generated rule lambda / field parser against the real lambda of tealer's parser_rules
    (its `instructions` namespace replaced by a recorder of class name and constructor arguments) on sample argument
    strings -- the value, or the CLASS of the exception raised (ValueError / IndexError / KeyError).

Precondition: coq/ has been built (`make`).  Every coqc runs under `timeout`.  Exit status 0 iff every row has the
expected verdict.
"""
import ast
import itertools
import os
import shutil
import subprocess
import sys
import tempfile

HERE = os.path.dirname(os.path.abspath(__file__))
ROOT = os.path.dirname(HERE)
COQ = os.path.join(ROOT, "coq")
PY = "/venv/bin/python"
REPO = os.environ.get("VERIF_REPO", "/repo")

PI = "tealer/teal/instructions/parse_instruction.py"
PTF = "tealer/teal/instructions/parse_transaction_field.py"
PGF = "tealer/teal/instructions/parse_global_field.py"


def sh(cmd, cwd=None, env=None):
    e = dict(os.environ)
    if env:
        e.update(env)
    p = subprocess.run(cmd, shell=True, cwd=cwd, stdout=subprocess.PIPE, stderr=subprocess.STDOUT, env=e, check=False)
    return p.returncode, p.stdout.decode(errors="replace")


def replace_once(src, old, new):
    if src.count(old) != 1:
        raise RuntimeError(f"mutation anchor found {src.count(old)} times, expected 1: {old[:70]}")
    return src.replace(old, new)


def in_function(src, name, old, new):
    i = src.index(f"\ndef {name}(")
    j = src.find("\ndef ", i + 1)
    j = len(src) if j < 0 else j
    body = src[i:j]
    if body.count(old) != 1:
        raise RuntimeError(f"mutation anchor found {body.count(old)} times in function {name}: {old[:70]}")
    return src[:i] + body.replace(old, new) + src[j:]


# ----------------------------------------------------------------------------- mutations: (description, file, text -> text)
G2 = '_parse_int(x.split(" ")[0]), _parse_int(x.split(" ")[1])'
MUTATIONS = [
    ("(1) gload: second immediate read from split index 0", PI,
     lambda s: replace_once(s, f"lambda x: instructions.Gload({G2})", 'lambda x: instructions.Gload(_parse_int(x.split(" ")[0]), _parse_int(x.split(" ")[0]))')),
    ("(2) extract: immediates swapped (indices 1, 0)", PI,
     lambda s: replace_once(s, f"lambda x: instructions.Extract({G2})", 'lambda x: instructions.Extract(_parse_int(x.split(" ")[1]), _parse_int(x.split(" ")[0]))')),
    ("(3) txnas: use_stack flag False", PI,
     lambda s: replace_once(s, '("txnas ", lambda x: instructions.Txnas(parse_transaction_field(x, True)))', '("txnas ", lambda x: instructions.Txnas(parse_transaction_field(x, False)))')),
    ("(4) txna: use_stack flag True", PI,
     lambda s: replace_once(s, '("txna ", lambda x: instructions.Txna(parse_transaction_field(x, False)))', '("txna ", lambda x: instructions.Txna(parse_transaction_field(x, True)))')),
    ("(5) intcblock: strip dropped", PI,
     lambda s: replace_once(s, "list(map(_parse_int, x.strip().split()))", "list(map(_parse_int, x.split()))")),
    ("(6) pushints: split() for split(' ')", PI,
     lambda s: replace_once(s, 'instructions.PushInts(list(map(_parse_int, x.split(" "))))', "instructions.PushInts(list(map(_parse_int, x.split())))")),
    ("(7) array-field index: the +1 for the blank dropped", PTF,
     lambda s: replace_once(s, "tx_field[len(field) + 1 :]", "tx_field[len(field) :]")),
    ("(8) array-field index: +2", PTF,
     lambda s: replace_once(s, "tx_field[len(field) + 1 :]", "tx_field[len(field) + 2 :]")),
    ("(9) plain field looked up in the array table", PTF,
     lambda s: replace_once(s, "return TX_FIELD_TXT_TO_OBJECT[tx_field]()", "return ARRAY_TX_FIELD_TO_OBJECT[tx_field]()")),
    ("(10) array loop over the plain table", PTF,
     lambda s: replace_once(s, "for field, obj in ARRAY_TX_FIELD_TO_OBJECT.items():", "for field, obj in TX_FIELD_TXT_TO_OBJECT.items():")),
    ("(11) int: _is_int test inverted", PI,
     lambda s: replace_once(s, '("int ", lambda x: instructions.Int(_parse_int(x) if _is_int(x) else x))', '("int ", lambda x: instructions.Int(_parse_int(x) if not _is_int(x) else x))')),
    ("(12) pushint: branches of the conditional swapped", PI,
     lambda s: replace_once(s, '("pushint ", lambda x: instructions.PushInt(_parse_int(x) if _is_int(x) else x))', '("pushint ", lambda x: instructions.PushInt(x if _is_int(x) else _parse_int(x)))')),
    ("(13) handle_gtxnas reads args[0] twice", PI,
     lambda s: in_function(s, "handle_gtxnas", "parse_transaction_field(args[1], True)", "parse_transaction_field(args[0], True)")),
    ("(14) handle_gtxnas: use_stack False", PI,
     lambda s: in_function(s, "handle_gtxnas", "parse_transaction_field(args[1], True)", "parse_transaction_field(args[1], False)")),
    ("(15) handle_gtxn: field text joined without blank", PI,
     lambda s: in_function(s, "handle_gtxn", '" ".join(split[1:])', '"".join(split[1:])')),
    ("(16) handle_gtxn: field text from split[2:]", PI,
     lambda s: in_function(s, "handle_gtxn", '" ".join(split[1:])', '" ".join(split[2:])')),
    ("(17) handle_gtxna: index from split[1]", PI,
     lambda s: in_function(s, "handle_gtxna", "idx = _parse_int(split[0])", "idx = _parse_int(split[1])")),
    ("(18) handle_gtxna: classes of the itxn test swapped", PI,
     lambda s: in_function(s, "handle_gtxna", "    if itxn:\n        return instructions.Gitxna(idx, tx_field)\n    return instructions.Gtxna(idx, tx_field)", "    if itxn:\n        return instructions.Gtxna(idx, tx_field)\n    return instructions.Gitxna(idx, tx_field)")),
    ("(19) gitxn rule calls handle_gtxna", PI,
     lambda s: replace_once(s, '("gitxn ", lambda x: handle_gtxn(x, itxn=True))', '("gitxn ", lambda x: handle_gtxna(x, itxn=True))')),
    ("(20) gitxnas rule: itxn=True dropped", PI,
     lambda s: replace_once(s, '("gitxnas ", lambda x: handle_gtxnas(x, itxn=True))', '("gitxnas ", lambda x: handle_gtxnas(x))')),
    ("(21) handle_gtxn: default of itxn is True", PI,
     lambda s: replace_once(s, "def handle_gtxn(x: str, itxn: bool = False) -> Instruction:", "def handle_gtxn(x: str, itxn: bool = True) -> Instruction:")),
    ("(22) replace: test for the empty argument inverted", PI,
     lambda s: replace_once(s, 'instructions.Replace(None if x == "" else _parse_int(x))', 'instructions.Replace(None if x != "" else _parse_int(x))')),
    ("(23) switch: labels split on ','", PI,
     lambda s: replace_once(s, '("switch ", lambda x: instructions.Switch(x.split(" ")))', '("switch ", lambda x: instructions.Switch(x.split(",")))')),
    ("(24) parse_transaction_field: blanks no longer removed", PTF,
     lambda s: replace_once(s, 'tx_field = tx_field.replace(" ", "")', 'tx_field = tx_field.replace("_", "")')),
    ("(25) parse_transaction_field: use_stack test inverted", PTF,
     lambda s: replace_once(s, "index = -1 if use_stack else", "index = -1 if not use_stack else")),
    ("(26) parse_transaction_field: array field by equality", PTF,
     lambda s: replace_once(s, "if tx_field.startswith(field):", "if tx_field == field:")),
    ("(27) global rule uses the asset-params field parser", PI,
     lambda s: replace_once(s, "instructions.Global(parse_global_field(x))", "instructions.Global(parse_asset_params_field(x))")),
    ("(28) load rule constructs Store", PI,
     lambda s: replace_once(s, '("load ", lambda x: instructions.Load(_parse_int(x)))', '("load ", lambda x: instructions.Store(_parse_int(x)))')),
    ("(29) rules dup2 / dup swapped", PI,
     lambda s: replace_once(s, '    ("dup2", lambda _x: instructions.Dup2()),\n    ("dup", lambda _x: instructions.Dup()),', '    ("dup", lambda _x: instructions.Dup()),\n    ("dup2", lambda _x: instructions.Dup2()),')),
    ("(30) parse_transaction_field's _parse_int: hex read in base 10", PTF,
     lambda s: replace_once(s, "return int(x[2:], 16)", "return int(x[2:], 10)")),
    ("(31) bury: the immediate is passed unparsed", PI,
     lambda s: replace_once(s, '("bury ", lambda x: instructions.Bury(_parse_int(x)))', '("bury ", lambda x: instructions.Bury(x))')),
    ("(32) callsub: the label is stripped again", PI,
     lambda s: replace_once(s, '("callsub ", lambda x: instructions.Callsub(x))', '("callsub ", lambda x: instructions.Callsub(x.strip()))')),
    ("(33) parse_global_field: lookup of the stripped text", PGF,
     lambda s: replace_once(s, "return GLOBAL_FIELD_TXT_TO_OBJECT[field]()", "return GLOBAL_FIELD_TXT_TO_OBJECT[field.strip()]()")),
    ("(34) handle_gtxnas: field parsed before the index (only the exception CLASS changes: IndexError before ValueError)", PI,
     lambda s: in_function(s, "handle_gtxnas", "    idx = _parse_int(args[0])\n    tx_field = parse_transaction_field(args[1], True)\n", "    tx_field = parse_transaction_field(args[1], True)\n    idx = _parse_int(args[0])\n")),
    ("(35) _is_int inverted at its definition", PI,
     lambda s: replace_once(s, '_is_int: Callable[[str], bool] = lambda x: x.startswith("0x") or x.isdigit()', '_is_int: Callable[[str], bool] = lambda x: not (x.startswith("0x") or x.isdigit())')),
    ("(36) _parse_int of parse_instruction.py: octal read in base 10", PI,
     lambda s: in_function(s, "_parse_int", "return int(x, 8)", "return int(x, 10)")),
    ("(37) proto: both immediates from one split, second index 2", PI,
     lambda s: replace_once(s, f"lambda x: instructions.Proto({G2})", 'lambda x: instructions.Proto(_parse_int(x.split(" ")[0]), _parse_int(x.split(" ")[2]))')),
    ("(x1) arithmetic outside the reading (masking)", PI,
     lambda s: replace_once(s, '("dig ", lambda x: instructions.Dig(_parse_int(x)))', '("dig ", lambda x: instructions.Dig(_parse_int(x) & 255))')),
    ("(x2) str method outside the table (lstrip)", PI,
     lambda s: replace_once(s, '("addr ", lambda x: instructions.Addr(x))', '("addr ", lambda x: instructions.Addr(x.lstrip()))')),
    ("(x3) array index defaults to 0 (an int literal where -1 is read)", PTF,
     lambda s: replace_once(s, "index = -1 if use_stack else", "index = 0 if use_stack else")),
    ("(x4) field dict rebuilt at module level", PGF,
     lambda s: s + '\nGLOBAL_FIELD_TXT_TO_OBJECT = dict(GLOBAL_FIELD_TXT_TO_OBJECT)\n'),
    ("(x5) loop with state (last match wins)", PTF,
     lambda s: replace_once(s, "            index = -1 if use_stack else _parse_int(tx_field[len(field) + 1 :])  # +1 for space(\" \")\n            return obj(index)", "            use_stack = True")),
]


# ----------------------------------------------------------------------------- one run
def prepare_repo(dst, mutate=None):
    shutil.copytree(os.path.join(REPO, "tealer"), os.path.join(dst, "tealer"), ignore=shutil.ignore_patterns("__pycache__", "*.pyc"))
    if mutate:
        rel, fn = mutate
        path = os.path.join(dst, rel)
        with open(path, encoding="utf-8") as fh:
            src = fh.read()
        new = fn(src)
        if new == src:
            raise RuntimeError("mutation did not change the source")
        ast.parse(new)
        with open(path, "w", encoding="utf-8") as fh:
            fh.write(new)


def qflags(gen):
    return f"-Q {COQ}/Model Tealer -Q {gen} Tealer -Q {COQ}/Spec Tealer -Q {COQ}/Lemmas Tealer"


def link_gen(gen):
    for f in os.listdir(os.path.join(COQ, "Gen")):
        if f.endswith(".vo") and not f.startswith("ShapeGen"):
            os.symlink(os.path.join(COQ, "Gen", f), os.path.join(gen, f))


def run_case(work, mutate=None, tools=HERE):
    repo = os.path.join(work, "repo")
    gen = os.path.join(work, "Gen")
    lem = os.path.join(work, "Lemmas")
    os.makedirs(gen)
    os.makedirs(lem)
    prepare_repo(repo, mutate)
    rc, out = sh(f"{PY} {tools}/translate_shape.py {gen}", env={"VERIF_REPO": repo})
    res = {"translator": "ok" if rc == 0 else "STOPPED", "log": out.strip(), "text": None, "gen_ok": None, "lemmas_ok": None, "gen": gen}
    if rc != 0:
        if rc != 2 or "translator:" not in out:
            res["translator"] = "CRASHED"
        return res
    with open(os.path.join(gen, "ShapeGen.v"), encoding="utf-8") as fh:
        res["text"] = fh.read()
    link_gen(gen)
    shutil.copy(os.path.join(COQ, "Lemmas", "ShapeGenLemmas.v"), os.path.join(lem, "ShapeGenLemmas.v"))
    rc, out = sh(f"timeout 300 coqc {qflags(gen)} {gen}/ShapeGen.v 2>&1")
    res["gen_ok"] = rc == 0
    res["log"] += "\n" + out[-1500:]
    if rc == 0:
        rc, out = sh(f"timeout 900 coqc {qflags(gen)} {lem}/ShapeGenLemmas.v 2>&1")
        res["lemmas_ok"] = rc == 0
        res["log"] += "\n" + out[-1500:]
        res["errline"] = next((l for l in out.splitlines() if l.startswith("File ") and "ShapeGenLemmas" in l), None)
    return res


def run_prelude_edit(work):
    """a scratch copy of the translator whose prelude reads s.replace(c, '') differently, fingerprint not re-pinned"""
    tools = os.path.join(work, "tools")
    os.makedirs(tools)
    for f in os.listdir(HERE):
        if f.startswith("translate") and f.endswith(".py") or f == "tcommon.py":
            shutil.copy(os.path.join(HERE, f), os.path.join(tools, f))
    p = os.path.join(tools, "translate_shape.py")
    with open(p, encoding="utf-8") as fh:
        src = fh.read()
    new = replace_once(src, "if Ascii.eqb d c then str_remove_char t c else String d (str_remove_char t c)", "if Ascii.eqb d c then t else String d (str_remove_char t c)")
    with open(p, "w", encoding="utf-8") as fh:
        fh.write(new)
    return run_case(os.path.join(work, "run"), None, tools)


# ----------------------------------------------------------------------------- conformance with the interpreter
def coq_any(s):
    parts, cur = [], ""
    for ch in s:
        if 32 <= ord(ch) <= 126:
            cur += ch
        else:
            if cur:
                parts.append('"' + cur.replace('"', '""') + '"')
                cur = ""
            if ord(ch) > 127:
                raise RuntimeError("non-ASCII sample")
            parts.append(f'(String (Ascii.ascii_of_nat {ord(ch)}) "")')
    if cur or not parts:
        parts.append('"' + cur.replace('"', '""') + '"')
    return "(" + " ++ ".join(parts) + ")%string"


def coq_list(xs):
    return "[" + "; ".join(coq_any(x) for x in xs) + "]"


def conformance(work):
    sys.path.insert(0, REPO)
    from tealer.teal.instructions import parse_instruction as P  # noqa  (the harness, not the translator, imports tealer)
    from tealer.teal.instructions import parse_transaction_field as F  # noqa
    from tealer.teal.instructions import transaction_field as TF  # noqa
    from tealer.teal.instructions.parse_global_field import parse_global_field  # noqa
    from tealer.teal.instructions.parse_asset_holding_field import parse_asset_holding_field  # noqa
    from tealer.teal.instructions.parse_asset_params_field import parse_asset_params_field  # noqa
    from tealer.teal.instructions.parse_app_params_field import parse_app_params_field  # noqa
    from tealer.teal.instructions.parse_acct_params_field import parse_acct_params_field  # noqa

    class Recorder:  # instructions.C(a1, .., an) -> ("obj", "C", (a1, .., an))
        def __getattr__(self, name):
            return lambda *a: ("obj", name, a)

    P.instructions = Recorder()
    INT_LISTS = {"Intcblock", "PushInts"}

    def val(v, cls=None):
        if v is None:
            return "VNone"
        if isinstance(v, bool):
            raise RuntimeError("bool value")
        if isinstance(v, int):
            return f"(VInt ({v})%Z)"
        if isinstance(v, str):
            return f"(VStr {coq_any(v)})"
        if isinstance(v, list):
            if all(isinstance(x, int) for x in v) and (v or cls in INT_LISTS):
                return "(VInts [" + "; ".join(f"({x})%Z" for x in v) + "])"
            if all(isinstance(x, str) for x in v):
                return f"(VStrs {coq_list(v)})"
            raise RuntimeError("mixed list")
        if isinstance(v, tuple) and v and v[0] == "obj":
            return f'(VObj "{v[1]}" [' + "; ".join(val(a, v[1]) for a in v[2]) + "])"
        # a field object: class name and, for array fields, the index
        name = type(v).__name__
        if isinstance(v, TF.TransactionArrayField):
            idx = [x for k, x in vars(v).items() if k in ("_idx", "idx")]
            if len(idx) != 1:
                raise RuntimeError(f"array field attributes {vars(v)}")
            return f'(VObj "{name}" [(VInt ({idx[0]})%Z)])'
        if set(vars(v)) - {"_version"}:
            raise RuntimeError(f"field attributes {vars(v)}")
        return f'(VObj "{name}" [])'

    def attempt(f, *a):
        try:
            return "(Val " + val(f(*a)) + ")"
        except (ValueError, IndexError, KeyError) as e:  # the class itself, not a subclass
            return f"(Raise {type(e).__name__})"

    groups = []

    def table(name, items, coqf, eqb):
        rows = "; ".join(f"({a}, {e})" for a, e in items)
        groups.append((name, f"(filter (fun p => negb ({eqb} ({coqf} (fst p)) (snd p))) [{rows}])", len(items)))

    # --- the added str readings
    alpha = [" ", "\t", "\x1c", "\n", "a", "1"]
    strs = [""] + ["".join(t) for n in (1, 2, 3, 4) for t in itertools.product(alpha, repeat=n)] + [" a  b ", "1 2 3", "  1  0x2 03 ", "a\x0bb\x1fc", "Type Enum", " x "]
    table("s.split()", [(coq_any(s), coq_list(s.split())) for s in strs], "str_split_ws", "(list_beq string String.eqb)")
    table("s.strip().split()", [(coq_any(s), coq_list(s.strip().split())) for s in strs], "(fun s => str_split_ws (str_strip s))", "(list_beq string String.eqb)")
    table("s.replace(' ', '')", [(coq_any(s), coq_any(s.replace(" ", ""))) for s in strs], '(fun s => str_remove_char s " "%char)', "String.eqb")
    # --- the field parsers
    fields = ["", "Fee", "Sender", "Type Enum", " Fee", "Fee ", "Nope", "Accounts", "Accounts 1", "Accounts 0x10", "Accounts 010", "Accounts  1", "Accounts1", "Accounts 1 ",
              "Accounts -1", "Accounts 1_0", "Accounts x", "ApplicationArgs 3", "Applications 0", "Assets 2", "Logs 1", "ApprovalProgramPages 1", "ApprovalProgram",
              "ClearStateProgramPages 0", "ClearStateProgram", "NumAccounts", "Num Accounts", "AccountsX 1", "accounts 1", "Accounts\t1", "GroupSize", "AssetBalance",
              "AssetTotal", "AppCreator", "AcctBalance", "AppParamsField", "MinTxnFee ", "ZeroAddress"]
    for flag in (False, True):
        table(f"parse_transaction_field(s, {flag})", [(coq_any(s), attempt(F.parse_transaction_field, s, flag)) for s in fields],
              f"(fun s => parse_transaction_field_gen s {'true' if flag else 'false'})", "(pyx_beq pval pval_beq)")
    for nm, f in [("global", parse_global_field), ("asset_holding", parse_asset_holding_field), ("asset_params", parse_asset_params_field),
                  ("app_params", parse_app_params_field), ("acct_params", parse_acct_params_field)]:
        table(f"parse_{nm}_field(s)", [(coq_any(s), attempt(f, s)) for s in fields], f"parse_{nm}_field_gen", "(pyx_beq pval pval_beq)")
    ints = ["", "0", "00", "08", "0x", "0x1f", "0X1f", "12", "1_0", "-1", "+1", " 1", "0o7", "0x0x1", "0xg", "a", "0_7"]
    for nm, f, coqf in [("parse_transaction_field._parse_int", F._parse_int, "parse_int_tx_gen"), ("parse_instruction._parse_int", P._parse_int, "parse_int_x_gen")]:
        items = []
        for s in ints:
            try:
                items.append((coq_any(s), f"(Val ({f(s)})%Z)"))
            except ValueError as e:
                items.append((coq_any(s), f"(Raise {type(e).__name__})"))
        table(nm, items, coqf, "(pyx_beq Z Z.eqb)")
    table("parse_instruction._is_int", [(coq_any(s), "(Val " + ("true" if P._is_int(s) else "false") + ")") for s in ints], "is_int_x_gen", "(pyx_beq bool Bool.eqb)")
    # --- every rule lambda of the running parser_rules against the generated one at the same position
    args = ["", "1", "0x1f", "017", "08", "-1", "1_0", "zz", "0x", "1 2", "1  2", "1 2 3", " 1", "1 ", "1\t2", "1\x1c2", "  1  0x2 03 ", "x 2", "2 x",
            "Fee", "Type Enum", "Accounts 1", "Accounts", "Accounts 0x2", "ApplicationArgs 1", "Applications9", "Nope",
            "0 Fee", "0 Type Enum", "1 Accounts 2", "1 Accounts", "0 ApplicationArgs", "0 ApplicationArgs 1", "x Fee", "-1 Fee", "1  Fee", "0",
            "GroupSize", "AssetBalance", "AssetTotal", "AppCreator", "AcctBalance", "a b c", "NoOp", "lbl", "Secp256k1"]
    for k, (key, f) in enumerate(P.parser_rules):
        items = [(coq_any(x), attempt(f, x)) for x in args]
        table(f"rule {k} {key!r}", items, f"(rule_at {k} {coq_any(key)})", "(pyx_beq pval pval_beq)")

    # negative control: the model's class for `gload zz` (IndexError) is NOT what python raises; the comparison must say so
    gl = [k for k, (key, _) in enumerate(P.parser_rules) if key == "gload "][0]
    table("negative control (a wrong expectation must be reported)", [(coq_any("zz"), "(Raise IndexError)")], f"(rule_at {gl} {coq_any('gload ')})", "(pyx_beq pval pval_beq)")

    L = [
        "From Coq Require Import String List NArith ZArith Bool Ascii Arith.",
        "From Tealer Require Import Tables Syntax Parse KeysGen LineGen ShapeGen.",
        "Import ListNotations.",
        "Open Scope string_scope. Open Scope list_scope. Open Scope nat_scope.",
        "Definition opt_beq (A : Type) (f : A -> A -> bool) (a b : option A) : bool :=",
        "  match a, b with Some x, Some y => f x y | None, None => true | _, _ => false end.",
        "Fixpoint list_beq (A : Type) (f : A -> A -> bool) (a b : list A) : bool :=",
        "  match a, b with [] , [] => true | x :: a', y :: b' => f x y && list_beq A f a' b' | _, _ => false end.",
        "Fixpoint pval_beq (a b : pval) : bool :=",
        "  match a, b with",
        "  | VInt x, VInt y => Z.eqb x y | VStr x, VStr y => String.eqb x y",
        "  | VInts x, VInts y => list_beq Z Z.eqb x y | VStrs x, VStrs y => list_beq string String.eqb x y",
        "  | VNone, VNone => true",
        "  | VObj c x, VObj d y => String.eqb c d && (fix go (x y : list pval) : bool :=",
        "      match x, y with [], [] => true | p :: x', q :: y' => pval_beq p q && go x' y' | _, _ => false end) x y",
        "  | _, _ => false",
        "  end.",
        "(* the generated lambda at position k, which must carry the key of the running rule k *)",
        "Definition exn_beq (a b : exn) : bool :=",
        "  match a, b with ValueError, ValueError | IndexError, IndexError | KeyError, KeyError | OtherError, OtherError => true | _, _ => false end.",
        "Definition pyx_beq (A : Type) (f : A -> A -> bool) (a b : pyx A) : bool :=",
        "  match a, b with Val x, Val y => f x y | Raise d, Raise e => exn_beq d e | _, _ => false end.",
        "Definition rule_at (k : nat) (key : string) (x : string) : pyx pval :=",
        "  match nth_error shape_rules_gen k with Some (key', g) => if String.eqb key key' then g x else Val (VStr \"WRONG KEY\") | None => Val (VStr \"NO RULE\") end.",
        f"Definition nrules_ok := Nat.eqb (List.length shape_rules_gen) {len(P.parser_rules)}.",
        "Eval vm_compute in (\"nrules\", nrules_ok).",
    ]
    for i, (name, ex, n) in enumerate(groups):
        L.append(f"Definition bad{i} := {ex}.")
        L.append(f'Eval vm_compute in ("group {i}", List.length bad{i}, bad{i}).')
    path = os.path.join(work, "Conf.v")
    with open(path, "w", encoding="utf-8") as fh:
        fh.write("\n".join(L) + "\n")
    rc, out = sh(f"timeout 1800 coqc -Q {COQ}/Model Tealer -Q {COQ}/Gen Tealer -Q {COQ}/Spec Tealer -Q {COQ}/Lemmas Tealer {path} 2>&1")
    rows = []
    flat = " ".join(out.split())
    okall = rc == 0 and '("nrules", true)' in flat
    nrule, nrule_ok, nsamples = 0, 0, 0
    for i, (name, _, n) in enumerate(groups):
        good = f'("group {i}", 0, [])' in flat
        if name.startswith("negative control"):
            good = f'("group {i}", 1, [' in flat
            okall &= good
            rows.append((name, n, "reported" if good else "NOT REPORTED"))
            continue
        okall &= good
        if name.startswith("rule "):
            nrule += 1
            nrule_ok += good
            nsamples += n
            if not good:
                rows.append((name, n, "DIFFER"))
        else:
            rows.append((name, n, "agree" if good else "DIFFER"))
    rows.append((f"the {nrule} rule lambdas of parser_rules, {len(args)} argument strings each", nsamples, "agree" if nrule_ok == nrule else f"{nrule - nrule_ok} rules DIFFER"))
    return okall, rows, out


def main():
    verbose = "-v" in sys.argv
    only_conf = "--conformance" in sys.argv
    for f in ("Model/Parse.vo", "Gen/Tables.vo", "Gen/KeysGen.vo", "Gen/LineGen.vo", "Lemmas/LineGenLemmas.vo"):
        if not os.path.exists(os.path.join(COQ, f)):
            print(f"precondition: {COQ}/{f} missing -- build coq/ first (make)")
            sys.exit(3)
    top = tempfile.mkdtemp(prefix="tshape_")
    rows = []
    ok = True
    try:
        if not only_conf:
            base = run_case(os.path.join(top, "base"))
            same = None
            cur = os.path.join(COQ, "Gen", "ShapeGen.v")
            if base["text"] is not None and os.path.exists(cur):
                with open(cur, encoding="utf-8") as fh:
                    same = fh.read() == base["text"]
            good = base["translator"] == "ok" and base["gen_ok"] and base["lemmas_ok"] and same is not False
            ok &= bool(good)
            rows.append(("(a) clean source", base["translator"], "= coq/Gen/ShapeGen.v" if same else ("DIFFERS from coq/Gen" if same is False else "-"), base["gen_ok"], base["lemmas_ok"], "PASS" if good else "FAIL"))
            if verbose or not good:
                print(base["log"])
            cases = [(name, lambda w, m=(rel, fn): run_case(w, m)) for name, rel, fn in MUTATIONS]
            cases.append(("(p) prelude edited, fingerprint not re-pinned", run_prelude_edit))
            for i, (name, runner) in enumerate(cases):
                r = runner(os.path.join(top, f"m{i}"))
                if r["translator"] == "STOPPED":
                    verdict, good, diff = "caught: translator stops", True, "-"
                elif r["translator"] == "CRASHED":
                    verdict, good, diff = "FAIL: translator crashed", False, "-"
                else:
                    differs = r["text"] != base["text"]
                    diff = "differs" if differs else "IDENTICAL"
                    if differs and r["gen_ok"] and r["lemmas_ok"] is False:
                        verdict, good = "caught: Gallina differs, lemmas break", True
                    elif differs and not r["gen_ok"]:
                        verdict, good = "caught: Gallina differs, ShapeGen.v ill-typed", True
                    else:
                        verdict, good = "FAIL: NOT DETECTED", False
                ok &= good
                rows.append((name, r["translator"], diff, r["gen_ok"], r["lemmas_ok"], verdict))
                if verbose or not good:
                    print(f"--- {name}\n{r['log']}\n")
                elif r["translator"] == "STOPPED":
                    print(f"--- {name}: {r['log'].splitlines()[0][:230]}")
                elif r["lemmas_ok"] is False:
                    print(f"--- {name}: coqc ShapeGenLemmas.v fails at {r.get('errline') or '?'}")
                shutil.rmtree(os.path.join(top, f"m{i}"), ignore_errors=True)
        cok, crows, cout = conformance(top)
        ok &= cok
        if verbose or not cok:
            print(cout[-6000:])
    finally:
        shutil.rmtree(top, ignore_errors=True)
    if rows:
        hdr = ("case", "translator", "generated Gallina", "ShapeGen.v compiles", "ShapeGenLemmas.v compiles", "verdict")
        fmt = lambda x: "-" if x is None else ("yes" if x is True else ("NO" if x is False else str(x)))  # noqa: E731
        tbl = [hdr] + [tuple(fmt(c) for c in r) for r in rows]
        widths = [max(len(r[i]) for r in tbl) for i in range(len(hdr))]
        print()
        for k, r in enumerate(tbl):
            print(" | ".join(c.ljust(w) for c, w in zip(r, widths)))
            if k == 0:
                print("-+-".join("-" * w for w in widths))
    print("\n(c) conformance of the reading with the running interpreter (coqc vm_compute vs. python)")
    chdr = ("group", "samples", "verdict")
    ctable = [chdr] + [(n, str(k), v) for n, k, v in crows]
    cw = [max(len(r[i]) for r in ctable) for i in range(3)]
    for k, r in enumerate(ctable):
        print(" | ".join(c.ljust(w) for c, w in zip(r, cw)))
        if k == 0:
            print("-+-".join("-" * w for w in cw))
    good_msg = "reading conforms on the samples (mutations not run)" if only_conf else "all mutations caught, clean source accepted, reading conforms on the samples"
    print("\nRESULT:", good_msg if ok else "FAILURE")
    sys.exit(0 if ok else 1)


if __name__ == "__main__":
    main()
