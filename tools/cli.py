"""Runs the real tealer CLI on a program (all subcommands / printers / output formats) in a scratch directory and
reads every produced artefact back into plain structures (used by the C14, C17, C18 checks)."""
import json
import os
import re
import shutil
import subprocess
import tempfile

PY = "/venv/bin/python"
PRINTERS = ["cfg", "subroutine-cfg", "call-graph", "human-summary", "transaction-context"]


def run_cli(args, cwd, hashseed="0", timeout=300):
    env = dict(os.environ)
    repo = os.environ.get("VERIF_REPO", "/repo")
    env.update({"PYTHONPATH": repo, "PYTHONHASHSEED": str(hashseed)})
    env.pop("TEALER_ROOT_OUTPUT_DIR", None)
    p = subprocess.run([PY, "-m", "tealer"] + args, cwd=cwd, env=env, stdout=subprocess.PIPE, stderr=subprocess.PIPE, timeout=timeout, check=False)
    out = p.stdout.decode(errors="replace")
    err = p.stderr.decode(errors="replace")
    err = "\n".join(l for l in err.split("\n") if not l.startswith(("DEBUG:", "INFO:")))
    return p.returncode, out, err


def parse_dot(text):
    """nodes (ids with border colour, instruction lines), edges (src, dst), boxes"""
    nodes = {}
    for m in re.finditer(r'^(\d+)\[label=<<TABLE ALIGN="LEFT" COLOR="([^"]+)">(.*?)</TABLE>>', text, re.M | re.S):
        import html as _html
        rows = [(int(a), _html.unescape(re.sub(r"</?[BI]>", "", b))) for a, b in re.findall(r'>(\d+)\. (.*?)</TD>', m.group(3))]
        comments = [_html.unescape(c) for c in re.findall(r"// ([^<]*)", m.group(3))]
        nodes[int(m.group(1))] = {"color": m.group(2), "ports": [a for a, _ in rows], "rows": rows, "comments": comments}
    edges = sorted(set((int(a), int(b)) for a, b in re.findall(r"(?<![\w])(\d+):s -> (\d+):\d+:n", text)))
    boxes = re.findall(r"^(x\d+_\w+)\[label=", text, re.M)
    box_edges = re.findall(r"(?<![\w])(\d+):s -> (x\d+_\w+):n", text) + re.findall(r"(x\d+_\w+):s -> (\d+):\d+:n", text)
    return {"nodes": nodes, "edges": edges, "boxes": boxes, "box_edges": box_edges}


def parse_dot_cells(text):
    """RAW cells of every node label (no unescaping, markup kept): node id -> {"border", "head": (port, border size, raw
    comments html), "rows": [(colour, raw html before the `N. text` part, line number, raw text html)]}"""
    nodes = {}
    for m in re.finditer(r'^(\d+)\[label=<<TABLE ALIGN="LEFT" COLOR="([^"]+)">\n(.*?)</TABLE>> labelloc=top shape=plain\n\]', text, re.M | re.S):
        body = m.group(3)
        cells = re.findall(r"<TR>(.*?)</TR>\n", body, re.S)
        head, rows, junk = None, [], []
        for k, c in enumerate(cells):
            h = re.fullmatch(r'<TD COLOR="BLACK" ALIGN="LEFT" BALIGN="LEFT" PORT="(\d+)" BORDER="(\d+)"><B>(.*)</B></TD>', c, re.S)
            r = re.fullmatch(r'<TD ALIGN="LEFT" BALIGN="LEFT" COLOR="([^"]+)">(.*)</TD>', c, re.S)
            if h and k == 0:
                head = (int(h.group(1)), int(h.group(2)), h.group(3))
            elif r:
                inner = r.group(2)
                # the `N. text` part starts after the last <BR/> (comments end with <BR/>, escaped text contains no <)
                cut = inner.rfind("<BR/>")
                pre, last = (inner[: cut + 5], inner[cut + 5:]) if cut >= 0 else ("", inner)
                q = re.fullmatch(r"(\d+)\. (.*)", last, re.S)
                if q:
                    rows.append((r.group(1), pre, int(q.group(1)), q.group(2)))
                else:
                    junk.append(c)
            else:
                junk.append(c)
        if "".join(f"<TR>{c}</TR>\n" for c in cells) != body:
            junk.append("text between the cells")
        nodes[int(m.group(1))] = {"border": m.group(2), "head": head, "rows": rows, "junk": junk}
    return nodes


def extract_json(out):
    i = out.find("{")
    if i < 0:
        return None
    try:
        return json.loads(out[i:])
    except Exception:  # pylint: disable=broad-except
        return None


def full_run(text, hashseed="0", filter_regex=None, printers=True):
    """returns dict: per command (rc, traceback?) and parsed artefacts"""
    tmp = tempfile.mkdtemp(prefix="verif_cli_")
    res = {"commands": {}}
    try:
        f = os.path.join(tmp, "c.teal")
        with open(f, "w") as fh:
            fh.write(text + "\n")
        rc, out, err = run_cli(["--json", "-", "detect", "--contracts", f], tmp, hashseed)
        res["commands"]["detect-json"] = {"rc": rc, "traceback": "Traceback" in err, "stderr_tail": err[-400:]}
        res["json"] = extract_json(out)
        res["json_raw"] = out[out.find("{"):] if "{" in out else ""
        if filter_regex is not None:
            rc, out2, err2 = run_cli(["--json", "-", "detect", "--contracts", f, "--filter-paths", filter_regex], tmp, hashseed)
            res["commands"]["detect-json-filter"] = {"rc": rc, "traceback": "Traceback" in err2, "stderr_tail": err2[-400:]}
            res["json_filtered"] = extract_json(out2)
        rc, out, err = run_cli(["detect", "--contracts", f], tmp, hashseed)
        res["commands"]["detect-text"] = {"rc": rc, "traceback": "Traceback" in err, "stderr_tail": err[-400:]}
        res["text_paths"] = re.findall(r"path: ([0-9 >-]+)", out)
        res["path_dots"] = {}
        base = os.path.join(tmp, "c")
        if os.path.isdir(base):
            for d in sorted(os.listdir(base)):
                dd = os.path.join(base, d)
                if os.path.isdir(dd) and not d.startswith("print-"):
                    for fn in sorted(os.listdir(dd)):
                        if fn.endswith(".dot"):
                            res["path_dots"][f"{d}/{fn}"] = parse_dot(open(os.path.join(dd, fn)).read())
        if printers:
            res["printer_files"] = {}
            for pr in PRINTERS:
                rc, out, err = run_cli(["print", pr, "--contracts", f], tmp, hashseed)
                res["commands"]["print-" + pr] = {"rc": rc, "traceback": "Traceback" in err, "stderr_tail": err[-400:]}
            for root, _, files in os.walk(tmp):
                for fn in files:
                    if fn.endswith(".dot") and ("print-" in root or root == tmp or os.path.basename(root) == "c"):
                        rel = os.path.relpath(os.path.join(root, fn), tmp)
                        if "print-" in rel or rel.count("/") <= 1:
                            res["printer_files"][rel] = open(os.path.join(root, fn)).read()
    finally:
        shutil.rmtree(tmp, ignore_errors=True)
    return res


def expected_full_cfg_edges(cfg):
    """edge set the `cfg` printer draws, computed from a graph dump (model side)"""
    blocks = {b["idx"]: b for b in cfg["blocks"]}
    subs = {s["name"]: s for s in cfg["subs"]}
    edges = set()
    for b in cfg["blocks"]:
        last = b["ins"][-1].split()
        if last and last[0] == "callsub":
            s = subs.get(last[1])
            if s is None:
                continue
            edges.add((b["idx"], s["entry"]))
            if b["next"]:
                rp = b["next"][0]
                for r in s["blocks"]:
                    if r in blocks and blocks[r]["ins"][-1].split()[0] == "retsub":
                        edges.add((r, rp))
        else:
            for n in b["next"]:
                edges.add((b["idx"], n))
    return sorted(edges)


def call_graph_edges(text, hashseed="0"):
    """runs `tealer print call-graph` on the contract and returns (sorted edge list or None when no file was written, rc, stderr tail)"""
    tmp = tempfile.mkdtemp(prefix="verif_cg_")
    try:
        f = os.path.join(tmp, "c.teal")
        with open(f, "w") as fh:
            fh.write(text + "\n")
        rc, _out, err = run_cli(["print", "call-graph", "--contracts", f], tmp, hashseed)
        for root, _, files in os.walk(tmp):
            for fn in files:
                if fn.endswith("call-graph.dot"):
                    dot = open(os.path.join(root, fn)).read()
                    return sorted(set(re.findall(r"^\s*\"?([A-Za-z_][\w.]*)\"?\s*->\s*\"?([A-Za-z_][\w.]*)\"?", dot, re.M))), rc, err[-300:]
        return None, rc, err[-300:]
    finally:
        shutil.rmtree(tmp, ignore_errors=True)
