#!/venv/bin/python
"""Statement-by-statement translation of tealer's FUNCTION CONSTRUCTION into Gallina (Gen/FunctionGen.v).

Translated (read with `ast` only, never imported):
  teal/parse_functions.py : construct_function, cut into the consecutive segments of its body
      A  entry = function_blocks[0] .. the `for bid in dispatch_path` walk         -> dispatch_walk_gen
      B  the `for i, bi in enumerate(dispatch_path_blocks[:-1])` cutting loop      -> cut_path_gen
      C  entry = dispatch_path_blocks[0]; identify_subroutine_blocks; prev filter  -> function_main_blocks_gen
      D  used_subroutines / worklist closure (`while worklist:`)                   -> used_subroutines_loop_gen / used_subroutines_gen
      E  function_subroutines, all_function_blocks, Function(..), return           -> function_object_gen
      and their composition in the order of the Python body                        -> construct_function_gen
  teal/parse_teal.py      : identify_subroutine_blocks (read on the function heap)  -> identify_subroutine_blocks_floop_gen / _fgen
  teal/subroutine.py      : Subroutine.called_subroutines (property)               -> called_subroutines_gen
The hand-written counterparts are Model/Group.v (walk_path, cut_block, cut_path, dfs_list, construct_function) and
Model/Detect.v (dedup_first, used_subs); Lemmas/FunctionGenLemmas.v proves generated = hand-written.

Reading of Python in Gallina.  The exception monad (`py A := option A`, ret, bind, ifE, andE, orE, notE) is the one of the
fixed prelude of Gen/KeysGen.v.  In addition (same conventions as tools/translate_cfg.py, which see):
  * the object graph.  construct_function works on the BasicBlock objects copy_main_cfg returns, on the BasicBlock /
    TealerCustomErrInstruction objects it allocates, and (read only) on the Subroutine objects of the contract.
      - a BasicBlock object of the function is an IDENTIFIER (nat); its attributes _instructions, _next, _prev are the
        fields of the cell with that b_idx in the list fh_blocks of the FUNCTION HEAP (`heap : fheap`; lookup =
        Group.get_blk, in-place update = Group.set_block).  `BasicBlock()` allocates the identifier fh_next_id.
        The attribute _idx of the blocks copy_main_cfg returns IS their identifier (assumption on copy_main_cfg, stated
        in Gen/FunctionGen.v); _idx of a block allocated here is kept in the table fh_idx (0 until it is stored).
      - an Instruction object is its POSITION in fh_prog; `TealerCustomErrInstruction()` allocates the next position
        (cell mkIns 0 ICustomErr: Instruction.__init__ sets _line_num = 0; the class has no __init__ of its own).
        `ins.line = v` is recorded in the table fh_line (which overrides the i_line of the cell when read).
      - a Subroutine object is `FunctionMain` (the object `Subroutine(function_main_name, entry, function_main_blocks)`
        this call creates) or `TealSub name` (the value of teal.subroutines[name]); `==`, `in` are identity (no __eq__).
        The blocks of a TealSub are the ORIGINAL BasicBlock objects of the contract (read in the store
        (t_blocks t, t_prog t)), those of FunctionMain are in the function heap: `sub_store`.
      - the elements of dispatch_path are the strings "B<n>": `bid` is read as the number n and the statement
        `block_index = int(bid[1:])` as `bid_index bid` (= n).  Paths with other strings are outside the model.
    Every attribute read, property and mutator is ONE function of the fixed glue table of the prelude; the Python text
    of each of them is fingerprinted (FINGERPRINTS): any edit stops the translator.  A dangling reference is None.
  * mutable state is threaded: the heap (variable `heap`, an extra parameter and result), list variables
    (`.append`, `+=`, `xs = xs[1:]`).  `e.prev.remove(x)`, `e.next[j] = x` mutate the list object the property returns.
  * `for x in e:` / `for i, x in enumerate(e):` is a fold_left over e / `enumerate e`; the iterated list is evaluated once.
    A body that mutates the object it iterates over is rejected unless the iterable is the snapshot `list(e)`.
    A loop that contains `break` or `raise` carries a control component (Run | Broke | Raised msg): an iteration is
    skipped unless it is Run; `for .. else:` runs the else part iff the loop ends in Run.
  * `raise TealerException(f"<text>: {..}..")` is NOT the anonymous exception None but the result `Err "TealerException:
    <text>"` (the constant head of the f-string without its final ": "); the function then returns `py (res R)`.
  * `while len(xs) > 0:` / `while xs:` is a separate Fixpoint over a fuel (O => ret None: budget exhausted); functions
    that contain or call such a loop return `py (option R)`.
  * `list(dict.fromkeys(<generator>))` is `dict_fromkeys` of the list the generator produces (a fold).
  * statements that only touch what the model does not represent (names, comments, back pointers, source text) are
    fingerprinted and skipped (SKIP), each with its reason.

Fail-closed: every statement kind, expression kind, attribute name, call name and variable type that is not
whitelisted below raises TranslateError.
"""
import ast
import os
import sys

from tcommon import TranslateError, fail, parse, strip_doc, coq_str, T
from translate_keys import indent, same_text
from translate_cfg import seq, as_monadic, is_name, is_minus_one, tuple_term, projections, find_class, find_member, member_text, bound_names, count_bindings, find_toplevel

PF_REL = "teal/parse_functions.py"
PT_REL = "teal/parse_teal.py"
BB_REL = "teal/basic_blocks.py"
INS_REL = "teal/instructions/instructions.py"
SUB_REL = "teal/subroutine.py"
FN_REL = "teal/functions.py"

# ----------------------------------------------------------------------------- types of the little typed language
BLK, SBLK, INS, NAT, BOOL, BID, SUB, HEAP, TEAL, CELL, FUNC, STR, STORE, SDICT = "blk", "sblk", "ins", "nat", "bool", "bid", "sub", "heap", "teal", "cell", "func", "str", "store", "sdict"
LIST_ANY = "list ?"
BASE_COQ = {BLK: "nat", SBLK: "nat", INS: "nat", NAT: "nat", BOOL: "bool", BID: "nat", SUB: "subref", HEAP: "fheap", TEAL: "teal", CELL: "block", FUNC: "func", STR: "string", STORE: "bstore", SDICT: "list (string * subref)"}


def L(ty):
    return "list " + ty


def coq_of(ty):
    if ty.startswith("list "):
        return "list " + par(coq_of(ty[5:]))
    return BASE_COQ[ty]


def par(t):
    return t if " " not in t else f"({t})"


def coqty(ty):
    return par(coq_of(ty))


# annotation text -> type (per function: E reads BasicBlock objects as their final cells)
ANNOTATIONS = {
    "List['BasicBlock']": L(BLK),
    "List[BasicBlock]": L(BLK),
    "List[Subroutine]": L(SUB),
    "Dict[str, Subroutine]": SDICT,
}
ANNOTATIONS_E = dict(ANNOTATIONS)
ANNOTATIONS_E["List[BasicBlock]"] = L(CELL)

# ----------------------------------------------------------------------------- the glue table
# (attribute, type of the object) -> (glue function, context arguments, type of the result, pure)
ATTRS = {
    ("idx", BLK): ("fo_idx", ["heap"], NAT, False),
    ("next", BLK): ("fo_next", ["heap"], L(BLK), False),
    ("prev", BLK): ("fo_prev", ["heap"], L(BLK), False),
    ("entry_instr", BLK): ("fo_entry_instr", ["heap"], INS, False),
    ("exit_instr", BLK): ("fo_exit_instr", ["heap"], INS, False),
    ("line", INS): ("io_line", ["heap"], NAT, False),
    ("is_callsub_block", SBLK): ("sb_is_callsub_block", ["store"], BOOL, False),
    ("called_subroutine", SBLK): ("sb_called_subroutine", ["teal", "store"], SUB, False),
    ("_blocks", SUB): ("sub_attr_blocks", ["teal", "function_main_blocks"], L(SBLK), False),
    ("called_subroutines", SUB): ("called_subroutines_gen", ["teal", "heap", "function_main_blocks"], L(SUB), False),
    ("blocks", SUB): ("sub_block_cells", ["teal", "heap", "function_main_blocks"], L(CELL), False),
    ("name", SUB): ("sub_attr_name", ["function_main_name"], STR, True),
}
# attribute stores: (attribute, type of the object) -> (glue function, type of the stored value)
STORES = {("line", INS): ("set_io_line", NAT), ("idx", BLK): ("set_fo_idx", NAT)}
# mutator methods: (method, type of the object) -> (glue function, type of the argument)
MUTATORS = {("add_instruction", BLK): ("fo_add_instruction", INS), ("add_prev", BLK): ("fo_add_prev", BLK)}
# `<obj>.<attr>.remove(x)` / `<obj>.<attr>[j] = x`
REMOVERS = {("prev", BLK): ("fo_prev_remove", BLK)}
SETITEMS = {("next", BLK): ("fo_next_setitem", BLK)}
# allocation: class -> (glue, type, module it must be imported from)
ALLOC = {
    "BasicBlock": ("new_BasicBlock", BLK, "tealer.teal.basic_blocks.BasicBlock"),
    "TealerCustomErrInstruction": ("new_TealerCustomErrInstruction", INS, "tealer.teal.instructions.instructions.TealerCustomErrInstruction"),
}
MEM = {BLK: "fl_mem", SUB: "sub_mem"}
COQ_NAME = {"teal": "t"}  # python variable -> Gallina name (the model's type is called teal)

FINGERPRINTS = [
    (
        BB_REL, "BasicBlock", "__init__", None,
        "def __init__(self) -> None:\n    self._instructions: List[Instruction] = []\n    self._prev: List[BasicBlock] = []\n"
        "    self._next: List[BasicBlock] = []\n    self._idx: int = 0\n    self._teal: Optional['Teal'] = None\n"
        "    self._tealer_comments: List[str] = []\n    self._subroutine: Optional['Subroutine'] = None",
    ),
    (BB_REL, "BasicBlock", "add_instruction", None, "def add_instruction(self, instruction: Instruction) -> None:\n    self._instructions.append(instruction)"),
    (BB_REL, "BasicBlock", "entry_instr", None, "@property\ndef entry_instr(self) -> Instruction:\n    return self._instructions[0]"),
    (BB_REL, "BasicBlock", "exit_instr", None, "@property\ndef exit_instr(self) -> Instruction:\n    return self._instructions[-1]"),
    (BB_REL, "BasicBlock", "add_prev", None, "def add_prev(self, prev_bb: 'BasicBlock') -> None:\n    self._prev.append(prev_bb)"),
    (BB_REL, "BasicBlock", "prev", None, "@property\ndef prev(self) -> List['BasicBlock']:\n    return self._prev"),
    (BB_REL, "BasicBlock", "next", None, "@property\ndef next(self) -> List['BasicBlock']:\n    return self._next"),
    (BB_REL, "BasicBlock", "idx", None, "@property\ndef idx(self) -> int:\n    return self._idx"),
    (BB_REL, "BasicBlock", "idx", "idx.setter", "@idx.setter\ndef idx(self, i: int) -> None:\n    self._idx = i"),
    (BB_REL, "BasicBlock", "is_callsub_block", None, "@property\ndef is_callsub_block(self) -> bool:\n    return isinstance(self.exit_instr, Callsub)"),
    (
        BB_REL, "BasicBlock", "called_subroutine", None,
        "@property\ndef called_subroutine(self) -> 'Subroutine':\n    if not isinstance(self.exit_instr, Callsub):\n"
        "        raise TealerException('called subroutine of a non callsub block is accessed')\n    return self.exit_instr.called_subroutine",
    ),
    (
        INS_REL, "Instruction", "__init__", None,
        "def __init__(self) -> None:\n    self._prev: List[Instruction] = []\n    self._next: List[Instruction] = []\n    self._line_num = 0\n"
        "    self._source_code_line: str = ''\n    self._comment = ''\n    self._comments_before_ins: List[str] = []\n"
        "    self._tealer_comments: List[str] = []\n    self._bb: Optional['BasicBlock'] = None\n    self._version: int = 1\n"
        "    self._mode: ExecutionMode = ExecutionMode.ANY",
    ),
    (INS_REL, "Instruction", "line", None, "@property\ndef line(self) -> int:\n    return self._line_num"),
    (INS_REL, "Instruction", "line", "line.setter", "@line.setter\ndef line(self, l: int) -> None:\n    self._line_num = l"),
    (INS_REL, "Callsub", "__init__", None, "def __init__(self, label: str):\n    super().__init__(label)\n    self._version: int = 4\n    self._called_subroutine: Optional['Subroutine'] = None"),
    (
        INS_REL, "Callsub", "called_subroutine", None,
        "@property\ndef called_subroutine(self) -> 'Subroutine':\n    if self._called_subroutine is None:\n"
        "        raise TealerException(f'callsub.called_subroutine is accessed before assignment: {str(self)}')\n    return self._called_subroutine",
    ),
    (INS_REL, "Callsub", "called_subroutine", "called_subroutine.setter", "@called_subroutine.setter\ndef called_subroutine(self, subroutine: 'Subroutine') -> None:\n    self._called_subroutine = subroutine"),
    (
        SUB_REL, "Subroutine", "__init__", None,
        "def __init__(self, name: str, entry: 'BasicBlock', blocks: List['BasicBlock']) -> None:\n    self._name = name\n    self._entry = entry\n"
        "    self._blocks = blocks\n    self._exit_blocks = [b for b in blocks if len(b.next) == 0 or isinstance(b.exit_instr, Retsub)]\n"
        "    self._contract: Optional['Teal'] = None\n    self._caller_callsub_blocks: List['BasicBlock'] = []\n    self._return_point_blocks: List['BasicBlock'] = []",
    ),
    (SUB_REL, "Subroutine", "name", None, "@property\ndef name(self) -> str:\n    return self._name"),
    (SUB_REL, "Subroutine", "blocks", None, "@property\ndef blocks(self) -> List['BasicBlock']:\n    return self._blocks"),
]
FORBIDDEN_DUNDERS = ("__eq__", "__ne__", "__hash__", "__bool__", "__len__", "__contains__", "__getattr__", "__getattribute__", "__setattr__", "__setitem__", "__getitem__")

# Function.__init__ (teal/functions.py): the glue mk_Function keeps the six arguments; the rest of __init__ builds caches
FUNCTION_INIT_HEAD = (
    "def __init__(self, function_name: str, entry: 'BasicBlock', blocks: List['BasicBlock'], contract: 'Teal', main: 'Subroutine', subroutines: Dict[str, 'Subroutine']) -> None:\n"
    "    self.function_name: str = function_name\n    self.entry: 'BasicBlock' = entry\n    self._blocks: List['BasicBlock'] = blocks\n"
    "    self.contract: 'Teal' = contract\n    self.main: 'Subroutine' = main\n    self.subroutines: Dict[str, 'Subroutine'] = subroutines"
)

# copy_main_cfg: NOT translated.  Its text is fingerprinted; what Gen/FunctionGen.v assumes about its result is stated there.
COPY_MAIN_CFG_TEXT = (
    "def copy_main_cfg(teal: 'Teal') -> List['BasicBlock']:\n    source_code = ''\n    original_instructions: List['Instruction'] = []\n"
    "    original_blocks: List['BasicBlock'] = []\n    for bi in sorted(teal.main.blocks, key=lambda bi: bi.idx):\n        for ins in bi.instructions:\n"
    "            source_code += '\\n'.join(ins.comments_before_ins) + '\\n' + ins.source_code + '\\n'\n            original_instructions.append(ins)\n"
    "        source_code += '\\n'\n        original_blocks.append(bi)\n    instructions: List['Instruction'] = []\n    labels: Dict[str, 'Label'] = {}\n"
    "    subroutine_callsubs: Dict[str, List[Callsub]] = defaultdict(list)\n    lines = source_code.splitlines()\n"
    "    (_, _) = first_pass(lines, labels, subroutine_callsubs, instructions)\n    second_pass(instructions, labels)\n    all_bbs: List['BasicBlock'] = []\n"
    "    create_bb(instructions, all_bbs)\n    fourth_pass(all_bbs)\n    for (ins_copy, ins_orig) in zip(instructions, original_instructions):\n"
    "        ins_copy.line = ins_orig.line\n        if isinstance(ins_copy, Callsub):\n            assert isinstance(ins_orig, Callsub)\n"
    "            ins_copy.called_subroutine = ins_orig.called_subroutine\n    all_bbs = sorted(all_bbs, key=lambda bi: bi.entry_instr.line)\n"
    "    for (bb_copy, bb_orig) in zip(all_bbs, original_blocks):\n        bb_copy.idx = bb_orig.idx\n    for bb in all_bbs:\n        bb.teal = teal\n"
    "        bb.tealer_comments.insert(0, f'block_id = {bb.idx}; cost = {bb.cost}')\n    return all_bbs"
)

# statements of construct_function that are NOT translated, with the reason (exact text, up to layout)
SKIP = {
    "copy": ("function_blocks = copy_main_cfg(teal)", "GLUE: the parameters function_blocks / heap of the generated functions are its result"),
    "src": ("err_instruction.source_code = 'TealerErr'", "source text of the err instruction: not represented"),
    "bteal": ("err_block.teal = teal", "back pointer to the contract"),
    "bcomment": ("err_block.tealer_comments.insert(0, 'Tealer Custom Err Block')", "output comment"),
    "fname": ("if function_name is None:\n    function_name = '_'.join(dispatch_path)", "name of the function: not represented"),
    "mname": ("function_main_name = f'__main__.{function_name}'", "name of the function's main routine (parameter function_main_name)"),
    "fmain": ("function_main = Subroutine(function_main_name, entry, function_main_blocks)", "GLUE: this object is FunctionMain; its _blocks are function_main_blocks"),
    "bsub": ("for bi in function_main_blocks:\n    bi.subroutine = function_main", "back pointer block -> subroutine (the model: Cfg.sub_of_block / fn_main)"),
    "contract": ("function_main.contract = teal", "back pointer to the contract"),
    "analysis": ("_apply_transaction_context_analysis(function_obj)", "the dataflow analyses: Gen/RunGen.v"),
}
FUNCTION_CALL_TEXT = "Function(function_name, entry, all_function_blocks, teal, function_main, function_subroutines)"

RESERVED = {
    "p", "t", "fuel", "acc", "st", "acc2", "st2", "acc3", "st3", "store", "ret", "bind", "py", "ifE", "notE", "andE", "orE",
    "fold_left", "map", "rev", "fst", "snd", "negb", "andb", "orb", "true", "false", "nil", "cons", "app", "length", "removelast", "skipn", "Some", "None",
    "O", "S", "nat", "bool", "string", "list", "option", "block", "prog", "op_at", "Ok", "Err", "res", "func", "subroutine",
    "fheap", "mkFH", "fh_blocks", "fh_prog", "fh_next_id", "fh_idx", "fh_line", "bstore", "subref", "FunctionMain", "TealSub", "ctl", "Run", "Broke", "Raised",
    "fl_nth", "fl_last", "fl_mem", "fl_remove", "fl_setitem", "enumerate", "tab_get", "tab_set", "fo_update", "bid_index", "sub_mem", "subref_eqb",
    "dict_fromkeys", "sdict_set", "sub_store", "sub_record", "mk_Function", "get_blk", "set_block", "mkBlock", "mkIns", "mkFunc", "find_sub", "Nat",
    "in", "at", "as", "fun", "let", "match", "end", "if", "then", "else", "return", "with", "forall", "exists", "fix", "cofix", "for",
    "where", "using", "Type", "Prop", "Set", "SProp", "struct", "self_", "_",
}  # fmt: skip
RESERVED |= {v[0] for v in ATTRS.values()} | {v[0] for v in STORES.values()} | {v[0] for v in MUTATORS.values()} | {v[0] for v in REMOVERS.values()}
RESERVED |= {v[0] for v in SETITEMS.values()} | {v[0] for v in ALLOC.values()}

PRELUDE = r"""
(* ====================================================================== *)
(* PRELUDE (fixed text): the glue table.  The exception monad is the one of Gen/KeysGen.v.                  *)
(* ====================================================================== *)
(* How the Python object graph of construct_function is read.
     - a BasicBlock object of the function (a block copy_main_cfg returns, or one allocated by construct_function) is
       an identifier; its cell is the element of fh_blocks with that b_idx (Group.get_blk; b_ins = _instructions,
       b_next = _next, b_prev = _prev, in insertion order).  `BasicBlock()` allocates the identifier fh_next_id with
       empty lists and _idx = 0 (BasicBlock.__init__).
     - BasicBlock._idx: for the blocks copy_main_cfg returns it IS the identifier (see ASSUMPTION below); for a block
       allocated here it is the entry of the table fh_idx.
     - an Instruction object is its position in fh_prog.  `TealerCustomErrInstruction()` allocates the next position
       with the cell mkIns 0 ICustomErr (Instruction.__init__: _line_num = 0).  A line number stored by
       construct_function is kept in the table fh_line, which overrides i_line when .line is read.
     - a Subroutine object is FunctionMain (the Subroutine construct_function creates for the function's main CFG) or
       TealSub name (teal.subroutines[name]).  Neither BasicBlock nor Subroutine defines __eq__ (checked): ==, `in`,
       list.remove are identity.
     - the blocks of a TealSub are the original BasicBlock objects of the contract; they are read (never written) in
       the store (t_blocks t, t_prog t); the blocks of FunctionMain live in the function heap.
     - an element of dispatch_path is the string "B<n>", read as n; `int(bid[1:])` is bid_index.
   ASSUMPTION on copy_main_cfg (fingerprinted, not translated): `copy_main_cfg(teal)` returns, sorted by _idx, fresh
   copies of the blocks of teal.main with the same _idx, the same instructions (same positions of fh_prog = t_prog t)
   and the same _next / _prev lists up to the copy; the parameters `function_blocks` and `heap` of the functions below
   stand for that list and for the heap that contains those copies (Lemmas/FunctionGenLemmas.v: function_blocks0,
   heap0 = the model's initial state Group.fn_state0).
   The Python text of every property / method named below is fingerprinted by tools/translate_function.py. *)
Record fheap := mkFH {
  fh_blocks : list block;
  fh_prog : prog;
  fh_next_id : nat;
  fh_idx : list (nat * nat);
  fh_line : list (nat * nat) }.

(* ---- list expressions *)
(* xs[k] : IndexError when k >= len(xs) *)
Definition fl_nth {A : Type} (xs : list A) (k : nat) : py A := nth_error xs k.
(* xs[-1] *)
Fixpoint fl_last {A : Type} (xs : list A) : py A :=
  match xs with [] => None | [x] => Some x | _ :: r => fl_last r end.
(* `x in xs` on BasicBlock objects: identity *)
Definition fl_mem (x : nat) (xs : list nat) : bool := existsb (Nat.eqb x) xs.
(* xs.remove(x): removes the first occurrence, ValueError when there is none *)
Fixpoint fl_remove (xs : list nat) (x : nat) : py (list nat) :=
  match xs with
  | [] => None
  | y :: r => if Nat.eqb y x then Some r else bind (fl_remove r x) (fun r' => ret (y :: r'))
  end.
(* xs[j] = x : IndexError when j >= len(xs) *)
Fixpoint fl_setitem (xs : list nat) (j x : nat) : py (list nat) :=
  match xs, j with
  | [], _ => None
  | _ :: r, O => Some (x :: r)
  | y :: r, S j' => bind (fl_setitem r j' x) (fun r' => ret (y :: r'))
  end.
(* enumerate(xs) *)
Definition enumerate {A : Type} (xs : list A) : list (nat * A) := combine (seq 0 (length xs)) xs.
(* int(bid[1:]) for bid = "B<n>" read as n *)
Definition bid_index (bid : nat) : nat := bid.
(* attribute tables (dict semantics: a stored key is overwritten in place, a new one is appended) *)
Fixpoint tab_get (d : list (nat * nat)) (k : nat) : option nat :=
  match d with [] => None | (k', v) :: r => if Nat.eqb k' k then Some v else tab_get r k end.
Fixpoint tab_set (d : list (nat * nat)) (k v : nat) : list (nat * nat) :=
  match d with
  | [] => [(k, v)]
  | (k', w) :: r => if Nat.eqb k' k then (k', v) :: r else (k', w) :: tab_set r k v
  end.
(* the control component of a loop with break / raise *)
Inductive ctl := Run | Broke | Raised (msg : string).

(* ---- BasicBlock objects of the function *)
(* in-place update of the cell of b (g keeps b_idx); a dangling identifier is an exception *)
Definition fo_update (h : fheap) (b : nat) (g : block -> py block) : py fheap :=
  bind (get_blk (fh_blocks h) b) (fun c => bind (g c) (fun c' =>
    ret (mkFH (set_block (fh_blocks h) c') (fh_prog h) (fh_next_id h) (fh_idx h) (fh_line h)))).
(* BasicBlock(): the new object and the heap that contains it *)
Definition new_BasicBlock (h : fheap) : nat * fheap :=
  (fh_next_id h,
   mkFH (fh_blocks h ++ [mkBlock (fh_next_id h) [] [] []]) (fh_prog h) (S (fh_next_id h))
        (fh_idx h ++ [(fh_next_id h, 0)]) (fh_line h)).
(* bb.idx = self._idx ; bb.idx = v *)
Definition fo_idx (h : fheap) (b : nat) : py nat :=
  bind (get_blk (fh_blocks h) b) (fun _ => match tab_get (fh_idx h) b with Some v => ret v | None => ret b end).
Definition set_fo_idx (h : fheap) (b v : nat) : py fheap :=
  bind (get_blk (fh_blocks h) b) (fun _ =>
    ret (mkFH (fh_blocks h) (fh_prog h) (fh_next_id h) (tab_set (fh_idx h) b v) (fh_line h))).
(* bb.next / bb.prev = self._next / self._prev *)
Definition fo_next (h : fheap) (b : nat) : py (list nat) := option_map b_next (get_blk (fh_blocks h) b).
Definition fo_prev (h : fheap) (b : nat) : py (list nat) := option_map b_prev (get_blk (fh_blocks h) b).
(* bb.entry_instr = self._instructions[0] ; bb.exit_instr = self._instructions[-1] *)
Definition fo_entry_instr (h : fheap) (b : nat) : py nat := bind (get_blk (fh_blocks h) b) (fun c => fl_nth (b_ins c) 0).
Definition fo_exit_instr (h : fheap) (b : nat) : py nat := bind (get_blk (fh_blocks h) b) (fun c => fl_last (b_ins c)).
(* bb.add_instruction(i) / bb.add_prev(x): append to _instructions / _prev *)
Definition fo_add_instruction (h : fheap) (b i : nat) : py fheap :=
  fo_update h b (fun c => ret (mkBlock (b_idx c) (b_ins c ++ [i]) (b_next c) (b_prev c))).
Definition fo_add_prev (h : fheap) (b x : nat) : py fheap :=
  fo_update h b (fun c => ret (mkBlock (b_idx c) (b_ins c) (b_next c) (b_prev c ++ [x]))).
(* bb.next[j] = x ; bb.prev.remove(x): the properties return the list objects self._next / self._prev themselves *)
Definition fo_next_setitem (h : fheap) (b j x : nat) : py fheap :=
  fo_update h b (fun c => bind (fl_setitem (b_next c) j x) (fun l => ret (mkBlock (b_idx c) (b_ins c) l (b_prev c)))).
Definition fo_prev_remove (h : fheap) (b x : nat) : py fheap :=
  fo_update h b (fun c => bind (fl_remove (b_prev c) x) (fun l => ret (mkBlock (b_idx c) (b_ins c) (b_next c) l))).

(* ---- Instruction objects *)
(* TealerCustomErrInstruction(): the new object and the heap that contains it *)
Definition new_TealerCustomErrInstruction (h : fheap) : nat * fheap :=
  (length (fh_prog h),
   mkFH (fh_blocks h) (fh_prog h ++ [mkIns 0 ICustomErr]) (fh_next_id h) (fh_idx h) (fh_line h)).
(* ins.line = self._line_num ; ins.line = v *)
Definition io_line (h : fheap) (k : nat) : py nat :=
  bind (nth_error (fh_prog h) k) (fun i => match tab_get (fh_line h) k with Some v => ret v | None => ret (i_line i) end).
Definition set_io_line (h : fheap) (k v : nat) : py fheap :=
  bind (nth_error (fh_prog h) k) (fun _ =>
    ret (mkFH (fh_blocks h) (fh_prog h) (fh_next_id h) (fh_idx h) (tab_set (fh_line h) k v))).

(* ---- Subroutine objects *)
Inductive subref := FunctionMain | TealSub (name : string).
Definition subref_eqb (a b : subref) : bool :=
  match a, b with
  | FunctionMain, FunctionMain => true
  | TealSub x, TealSub y => String.eqb x y
  | _, _ => false
  end.
Definition sub_mem (x : subref) (xs : list subref) : bool := existsb (subref_eqb x) xs.
(* list(dict.fromkeys(xs)): the keys in first-insertion order *)
Definition dict_fromkeys (xs : list subref) : list subref :=
  fold_left (fun d k => if sub_mem k d then d else d ++ [k]) xs [].
(* the store in which the BasicBlock objects of a subroutine live *)
Definition bstore : Type := (list block * prog)%type.
Definition sub_store (t : teal) (h : fheap) (s : subref) : bstore :=
  match s with FunctionMain => (fh_blocks h, fh_prog h) | TealSub _ => (t_blocks t, t_prog t) end.
(* sub._blocks *)
Definition sub_attr_blocks (t : teal) (function_main_blocks : list nat) (s : subref) : py (list nat) :=
  match s with FunctionMain => ret function_main_blocks | TealSub n => option_map s_blocks (find_sub t n) end.
(* sub.name *)
Definition sub_attr_name (function_main_name : string) (s : subref) : string :=
  match s with FunctionMain => function_main_name | TealSub n => n end.
(* bb.is_callsub_block = isinstance(self.exit_instr, Callsub) *)
Definition sb_is_callsub_block (st : bstore) (b : nat) : py bool :=
  bind (get_blk (fst st) b) (fun c => bind (fl_last (b_ins c)) (fun k => bind (op_at (snd st) k) (fun i =>
    ret (match i with ICallsub _ => true | _ => false end)))).
(* bb.called_subroutine: TealerException unless the exit instruction is a Callsub; Callsub.called_subroutine is the
   Subroutine parse_teal stored for its label (teal.subroutines[label]); it raises when none was stored *)
Definition sb_called_subroutine (t : teal) (st : bstore) (b : nat) : py subref :=
  bind (get_blk (fst st) b) (fun c => bind (fl_last (b_ins c)) (fun k => bind (op_at (snd st) k) (fun i =>
    match i with ICallsub l => bind (find_sub t l) (fun _ => ret (TealSub l)) | _ => None end))).
(* sub.blocks read as the final cells of the blocks (segment E: the heap is no longer modified) *)
Definition sub_block_cells (t : teal) (h : fheap) (function_main_blocks : list nat) (s : subref) : py (list block) :=
  bind (sub_attr_blocks t function_main_blocks s) (fun ids => map_opt (get_blk (fst (sub_store t h s))) ids).
(* function_subroutines[k] = v on Dict[str, Subroutine] *)
Definition sdict_set (d : list (string * subref)) (k : string) (v : subref) : list (string * subref) :=
  (fix go (d : list (string * subref)) : list (string * subref) :=
     match d with
     | [] => [(k, v)]
     | (k', w) :: r => if String.eqb k' k then (k', v) :: r else (k', w) :: go r
     end) d.
(* the Subroutine record of the model; a Function whose subroutines contain its own main is not representable *)
Definition sub_record (t : teal) (s : subref) : py subroutine :=
  match s with FunctionMain => None | TealSub n => find_sub t n end.
(* Function(function_name, entry, blocks, teal, main, subroutines): the model's record (Function.__init__ stores the
   six arguments; fingerprinted) *)
Definition mk_Function (t : teal) (h : fheap) (function_main_blocks : list nat) (entry : nat) (blocks : list block)
           (main : subref) (subroutines : list (string * subref)) : py func :=
  bind (sub_attr_blocks t function_main_blocks main) (fun mb =>
  bind (map_opt (fun kv => sub_record t (snd kv)) subroutines) (fun subs =>
  ret (mkFunc (fh_prog h) blocks entry mb subs (t_subs t) (t_intcs t)))).
"""


# ----------------------------------------------------------------------------- environment
class Env:
    def __init__(self, path, vars_, spec):
        self.path = path
        self.vars = dict(vars_)  # python name -> type, in order of binding
        self.spec = spec
        self.counter = [0, 0]  # temporaries, join points
        self.depth = 0  # nesting depth of for loops
        self.in_while = False
        self.loop_end = None  # innermost for loop: env -> term that ends the iteration (`continue`, end of body)
        self.on_break = None  # innermost for loop: env -> term for `break` (None: no break expected here)
        self.on_raise = None  # env, message term -> term for `raise` (None: the function may not raise)
        self.collect = [[]]  # names (re)bound since the last probe started (shared cell)
        self.mut = [[]]  # among them: list objects / the heap mutated in place
        self.aux = []

    def child(self, **new):
        e = Env(self.path, self.vars, self.spec)
        e.counter, e.depth, e.in_while, e.loop_end, e.on_break, e.on_raise, e.collect, e.mut, e.aux = (
            self.counter, self.depth, self.in_while, self.loop_end, self.on_break, self.on_raise, self.collect, self.mut, self.aux)  # fmt: skip
        e.vars.update(new)
        return e

    def fresh(self):
        self.counter[0] += 1
        return f"tmp{self.counter[0]}"

    def fresh_join(self):
        self.counter[1] += 1
        return f"k{self.counter[1]}"


def cname(n):
    return COQ_NAME.get(n, n)


def probe(env, fn):
    """run a translation for its side information only: -> (result, names bound by it)"""
    saved_counter, saved_collect, saved_mut, naux = list(env.counter), env.collect[0], env.mut[0], len(env.aux)
    env.collect[0] = []
    env.mut[0] = []
    try:
        r = fn()
        names = env.collect[0]
        probe.last_mut = set(env.mut[0])
    finally:
        env.counter[:] = saved_counter
        env.collect[0] = saved_collect
        env.mut[0] = saved_mut
        del env.aux[naux:]
    out = []
    for n in names:
        if n not in out:
            out.append(n)
    return r, out


def compatible(a, b):
    if a == b:
        return a
    if a == LIST_ANY and b.startswith("list "):
        return b
    if b == LIST_ANY and a.startswith("list "):
        return a
    return None


def ctx_terms(env, node, names):
    """the context arguments of a glue function: variables the translated function must have"""
    out = []
    for n in names:
        if n not in env.vars:
            fail(env.path, node, f"the function has no access to {n}")
        out.append(cname(n))
    return out


def builtin(env, e, name, nargs):
    return (
        isinstance(e, ast.Call) and is_name(e.func, name) and len(e.args) == nargs and not e.keywords
        and name not in env.vars and name not in env.spec["imports"]
    )  # fmt: skip


def const_nat(e):
    return isinstance(e, ast.Constant) and isinstance(e.value, int) and not isinstance(e.value, bool) and e.value >= 0


# ----------------------------------------------------------------------------- expressions
def expr(env, e):
    """-> (term, type, pure)"""
    p = env.path
    if isinstance(e, ast.Constant):
        if e.value is True:
            return "true", BOOL, True
        if e.value is False:
            return "false", BOOL, True
        if const_nat(e):
            return str(e.value), NAT, True
        fail(p, e, "constant " + ast.unparse(e))
    if isinstance(e, ast.Name):
        if e.id in env.vars and env.vars[e.id] not in (HEAP, TEAL, STORE):
            return cname(e.id), env.vars[e.id], True
        fail(p, e, f"unknown name {e.id}")
    if isinstance(e, ast.Attribute):
        t, ty, pure = expr(env, e.value)
        if (e.attr, ty) not in ATTRS or (e.attr, ty) not in env.spec.get("attrs", ATTRS):
            fail(p, e, f"attribute .{e.attr} of a value of type {ty}")
        g, ctx, rty, gpure = ATTRS[(e.attr, ty)]
        cs = " ".join(ctx_terms(env, e, ctx))
        if gpure:
            out, pure2 = seq(env, [(t, pure)], lambda a: f"({g} {cs} {a})")
            return out, rty, pure2
        out, _ = seq(env, [(t, pure)], lambda a: f"({g} {cs} {a})", monadic_result=True)
        return out, rty, False
    if isinstance(e, ast.Subscript):
        v, vty, vp = expr(env, e.value)
        if not vty.startswith("list ") or vty == LIST_ANY:
            fail(p, e, "subscript " + ast.unparse(e))
        s = e.slice
        if isinstance(s, ast.Slice):
            if s.step is None and s.lower is None and s.upper is not None and is_minus_one(s.upper):
                out, pure = seq(env, [(v, vp)], lambda a: f"(removelast {a})")
                return out, vty, pure
            if s.step is None and s.upper is None and s.lower is not None and const_nat(s.lower):
                k = s.lower.value
                out, pure = seq(env, [(v, vp)], lambda a: f"(skipn {k} {a})")
                return out, vty, pure
            fail(p, e, "slice " + ast.unparse(e))
        if is_minus_one(s):
            out, _ = seq(env, [(v, vp)], lambda a: f"(fl_last {a})", monadic_result=True)
            return out, vty[5:], False
        k, kty, kp = expr(env, s)
        if kty != NAT:
            fail(p, e, f"list index of type {kty}")
        out, _ = seq(env, [(v, vp), (k, kp)], lambda a, b: f"(fl_nth {a} {b})", monadic_result=True)
        return out, vty[5:], False
    if isinstance(e, ast.List):
        if not e.elts:
            return "[]", LIST_ANY, True
        parts = [expr(env, x) for x in e.elts]
        ty = parts[0][1]
        if any(q[1] != ty for q in parts) or ty.startswith("list "):
            fail(p, e, "list literal " + ast.unparse(e)[:60])
        out, pure = seq(env, [(q[0], q[2]) for q in parts], lambda *a: "[" + "; ".join(a) + "]")
        return out, L(ty), pure
    if isinstance(e, ast.BinOp):
        l, lty, lp = expr(env, e.left)
        r, rty, rp = expr(env, e.right)
        if isinstance(e.op, ast.Add) and lty == rty == NAT:
            out, pure = seq(env, [(l, lp), (r, rp)], lambda a, b: f"({a} + {b})")
            return out, NAT, pure
        if isinstance(e.op, ast.Add) and lty.startswith("list ") and compatible(lty, rty):
            out, pure = seq(env, [(l, lp), (r, rp)], lambda a, b: f"({a} ++ {b})")
            return out, compatible(lty, rty), pure
        if isinstance(e.op, ast.LShift) and lty == NAT and const_nat(e.right):
            out, pure = seq(env, [(l, lp)], lambda a: f"(Nat.shiftl {a} {e.right.value})")
            return out, NAT, pure
        fail(p, e, "binary operation " + ast.unparse(e)[:60])
    if isinstance(e, ast.UnaryOp):
        if isinstance(e.op, ast.Not):
            t, ty, pure = expr(env, e.operand)
            if ty != BOOL:
                fail(p, e, f"`not` of a value of type {ty}")
            return (f"(negb {t})" if pure else f"(notE {t})"), BOOL, pure
        fail(p, e, "unary operator " + ast.unparse(e))
    if isinstance(e, ast.BoolOp):
        parts = [expr(env, v) for v in e.values]
        for (_, ty, _), v in zip(parts, e.values):
            if ty != BOOL:
                fail(p, v, f"operand of and/or of type {ty}")
        allpure = all(pure for _, _, pure in parts)
        if isinstance(e.op, ast.And):
            fn = "andb" if allpure else "andE"
        elif isinstance(e.op, ast.Or):
            fn = "orb" if allpure else "orE"
        else:
            fail(p, e, "boolean operator")
        terms = [t if allpure else as_monadic(t, pure) for t, _, pure in parts]
        out = terms[-1]
        for t in reversed(terms[:-1]):
            out = f"({fn} {t} {out})"
        return out, BOOL, allpure
    if isinstance(e, ast.Compare):
        if len(e.ops) != 1:
            fail(p, e, "comparison chain " + ast.unparse(e))
        op, rhs = e.ops[0], e.comparators[0]
        l, lty, lp = expr(env, e.left)
        r, rty, rp = expr(env, rhs)
        if isinstance(op, (ast.In, ast.NotIn)):
            if lty not in MEM or rty != L(lty):
                fail(p, e, f"`in` on values of types {lty}, {rty}")
            neg, fn = isinstance(op, ast.NotIn), MEM[lty]
            out, pure = seq(env, [(l, lp), (r, rp)], lambda a, b: (f"(negb ({fn} {a} {b}))" if neg else f"({fn} {a} {b})"))
            return out, BOOL, pure
        if isinstance(op, (ast.Eq, ast.NotEq)):
            if not (lty == rty and lty in (NAT, BLK, INS)):
                fail(p, e, f"comparison of {lty} with {rty}")
            neg = isinstance(op, ast.NotEq)
            out, pure = seq(env, [(l, lp), (r, rp)], lambda a, b: (f"(negb (Nat.eqb {a} {b}))" if neg else f"(Nat.eqb {a} {b})"))
            return out, BOOL, pure
        if isinstance(op, ast.Gt):
            if not lty == rty == NAT:
                fail(p, e, f"`>` on values of types {lty}, {rty}")
            out, pure = seq(env, [(l, lp), (r, rp)], lambda a, b: f"(Nat.ltb {b} {a})")
            return out, BOOL, pure
        fail(p, e, "comparison " + ast.unparse(e))
    if isinstance(e, ast.Call):
        if builtin(env, e, "len", 1):
            t, ty, pure = expr(env, e.args[0])
            if not ty.startswith("list ") or ty == LIST_ANY:
                fail(p, e, f"len of a value of type {ty}")
            out, pure2 = seq(env, [(t, pure)], lambda a: f"(length {a})")
            return out, NAT, pure2
        # int(bid[1:]) on an element of dispatch_path
        if builtin(env, e, "int", 1):
            a = e.args[0]
            if (
                isinstance(a, ast.Subscript) and is_name(a.value) and env.vars.get(a.value.id) == BID and isinstance(a.slice, ast.Slice)
                and a.slice.step is None and a.slice.upper is None and const_nat(a.slice.lower) and a.slice.lower.value == 1
            ):  # fmt: skip
                return f"(bid_index {a.value.id})", NAT, True
            fail(p, e, "int(..) of anything but <dispatch path element>[1:]")
        # list(dict.fromkeys(<generator>))
        if builtin(env, e, "list", 1):
            a = e.args[0]
            if (
                isinstance(a, ast.Call) and isinstance(a.func, ast.Attribute) and is_name(a.func.value, "dict") and a.func.attr == "fromkeys"
                and len(a.args) == 1 and not a.keywords and "dict" not in env.vars and "dict" not in env.spec["imports"]
                and isinstance(a.args[0], ast.GeneratorExp)
            ):  # fmt: skip
                t, ty = comprehension(env, a.args[0])
                if ty != L(SUB):
                    fail(p, e, f"dict.fromkeys of a {ty}")
                v = env.fresh()
                return f"(bind {t} (fun {v} => (ret (dict_fromkeys {v}))))", L(SUB), False
        fail(p, e, "call " + ast.unparse(e)[:60])
    fail(p, e, "expression " + ast.unparse(e)[:60])


def comprehension(env, g):
    """`<elt> for x in <iter> if <cond>` -> (monadic term of the produced list, its type)"""
    p = env.path
    if len(g.generators) != 1:
        fail(p, g, "nested generator")
    c = g.generators[0]
    if c.is_async or not isinstance(c.target, ast.Name) or len(c.ifs) > 1:
        fail(p, g, "generator " + ast.unparse(g)[:60])
    x = c.target.id
    check_name(env, x, g)
    if x in env.vars:
        fail(p, g, f"generator variable {x} shadows a variable")
    l, lty, lpure = expr(env, c.iter)
    if not lty.startswith("list ") or lty == LIST_ANY:
        fail(p, g, f"iteration over a value of type {lty}")
    benv = env.child(**{x: lty[5:]})
    elt, ety, epure = expr(benv, g.elt)
    if ety.startswith("list "):
        fail(p, g, "generator of lists")
    add, _ = seq(benv, [(elt, epure)], lambda a: f"(ret (st ++ [{a}]))", monadic_result=True)
    body = add
    if c.ifs:
        ct, cty, cpure = expr(benv, c.ifs[0])
        if cty != BOOL:
            fail(p, g, f"generator condition of type {cty}")
        body = f"(if {ct} then {add} else (ret st))" if cpure else f"(ifE {ct}\n    {add}\n    (ret st))"
    lst = l if lpure else env.fresh()
    loop = f"(fold_left (fun acc {x} => (bind acc (fun st =>\n    {body})))\n  {lst} (ret []))"
    if not lpure:
        loop = f"(bind {l} (fun {lst} =>\n{loop}))"
    return loop, L(ety)


# ----------------------------------------------------------------------------- statements
FORBIDDEN = (
    ast.Try, ast.With, ast.FunctionDef, ast.AsyncFunctionDef, ast.Lambda, ast.NamedExpr, ast.Delete, ast.Global, ast.Nonlocal,
    ast.ListComp, ast.SetComp, ast.Yield, ast.YieldFrom, ast.Await, ast.ClassDef, ast.Import, ast.ImportFrom, ast.Starred, ast.IfExp, ast.Assert,
)  # fmt: skip


def check_name(env, name, node):
    if name in RESERVED or name in COQ_NAME.values() or name.startswith("tmp") or name.startswith("exc") or (name.startswith("k") and name[1:].isdigit()):
        fail(env.path, node, f"variable name {name} is reserved by the translator")
    if not name.isidentifier() or not name.isascii():
        fail(env.path, node, f"variable name {name}")


def bind_var(env, name, node, t, ty, pure, rest_of, heap=False, mut=False):
    """`name = <t>`; a re-assignment must keep the type of the variable"""
    if not heap:
        check_name(env, name, node)
    if ty == LIST_ANY:
        fail(env.path, node, f"the type of {name} is not determined")
    if name in env.vars and env.vars[name] != ty:
        fail(env.path, node, f"re-assignment of {name} changes its type from {env.vars[name]} to {ty}")
    if env.vars.get(name) in (TEAL, STORE) or (env.vars.get(name) == HEAP) != heap:
        fail(env.path, node, f"assignment to {name}")
    env.collect[0].append(name)
    if heap or mut:
        env.mut[0].append(name)
    rest = rest_of(env.child(**{name: ty}))
    if pure:
        return f"(let {name} := {t} in\n{rest})"
    return f"(bind {t} (fun {name} =>\n{rest}))"


def heap_of(env, node):
    if env.vars.get("heap") != HEAP:
        fail(env.path, node, "the function has no access to the heap")
    return "heap"


def end_of_function(env, line):
    spec = env.spec
    if "returns" not in spec:
        raise TranslateError(f"translator: {env.path}:{line}: control reaches the end of the function without return")
    for n in spec["returns"]:
        if n not in env.vars:
            raise TranslateError(f"translator: {env.path}:{line}: {n} is not bound at the end of the function")
    return wrap_result(spec, tuple_term(spec["returns"]))


def wrap_result(spec, t):
    if spec.get("raises"):
        t = f"(Ok {t})"
    if spec.get("fuel"):
        t = f"(Some {t})"
    return f"(ret {t})"


def method_call(st):
    v = st.value
    if isinstance(v, ast.Call) and isinstance(v.func, ast.Attribute) and len(v.args) == 1 and not v.keywords:
        return v.func.value, v.func.attr, v.args[0]
    return None


def skipped(env, st):
    for key in env.spec.get("skip", ()):
        if same_text(st, SKIP[key][0]):
            return key
    return None


def expr_stmt(env, st, rest_of):
    p = env.path
    mc = method_call(st)
    if mc is None:
        fail(p, st, "expression statement " + ast.unparse(st)[:60])
    recv, m, arg = mc
    a, aty, ap = expr(env, arg)
    # xs.append(e) on a list variable
    if is_name(recv) and env.vars.get(recv.id, "").startswith("list ") and m == "append":
        x, lty = recv.id, env.vars[recv.id]
        if L(aty) != lty:
            fail(p, st, f".append of a value of type {aty} on a {lty}")
        out, pure = seq(env, [(a, ap)], lambda v: f"({x} ++ [{v}])")
        return bind_var(env, x, st, out, lty, pure, rest_of, mut=True)
    # <obj>.prev.remove(x)
    if m == "remove" and isinstance(recv, ast.Attribute):
        o, oty, op = expr(env, recv.value)
        if (recv.attr, oty) not in REMOVERS:
            fail(p, st, f".{recv.attr}.remove on a value of type {oty}")
        g, wty = REMOVERS[(recv.attr, oty)]
        if aty != wty:
            fail(p, st, f".{recv.attr}.remove of a value of type {aty}")
        h = heap_of(env, st)
        out, _ = seq(env, [(o, op), (a, ap)], lambda u, v: f"({g} {h} {u} {v})", monadic_result=True)
        return bind_var(env, "heap", st, out, HEAP, False, rest_of, heap=True)
    # <obj>.add_prev(x) / add_instruction(x)
    o, oty, op = expr(env, recv)
    if (m, oty) in MUTATORS:
        g, wty = MUTATORS[(m, oty)]
        if aty != wty:
            fail(p, st, f".{m} of a value of type {aty}")
        h = heap_of(env, st)
        out, _ = seq(env, [(o, op), (a, ap)], lambda u, v: f"({g} {h} {u} {v})", monadic_result=True)
        return bind_var(env, "heap", st, out, HEAP, False, rest_of, heap=True)
    fail(p, st, "method call " + ast.unparse(st)[:60])


def fuelled_call(env, st, x, g, args, rty, rest_of):
    """x = <translated function with a budget>(args): budget exhausted -> the enclosing function returns None"""
    if not env.spec.get("fuel") or env.depth or env.in_while:
        fail(env.path, st, f"call of {g} outside the top level of a function with a budget")
    tmp = env.fresh()
    inner = bind_var(env, x, st, tmp + "_some", rty, True, rest_of)
    return f"(bind ({g} fuel {' '.join(args)}) (fun {tmp} =>\n(match {tmp} with\n | None => (ret None)\n | Some {tmp}_some =>\n{indent(inner)}\n end)))"


def assign(env, st, rest_of):
    p = env.path
    ann_tab = env.spec.get("annotations", ANNOTATIONS)
    if isinstance(st, ast.AugAssign):
        if not (isinstance(st.op, ast.Add) and is_name(st.target) and env.vars.get(st.target.id, "").startswith("list ")):
            fail(p, st, "augmented assignment " + ast.unparse(st)[:60])
        x, lty = st.target.id, env.vars[st.target.id]
        v, vty, vp = expr(env, st.value)
        if compatible(lty, vty) != lty:
            fail(p, st, f"{x} += a value of type {vty}")
        out, pure = seq(env, [(v, vp)], lambda a: f"({x} ++ {a})")
        return bind_var(env, x, st, out, lty, pure, rest_of, mut=True)
    if isinstance(st, ast.Assign):
        if len(st.targets) != 1:
            fail(p, st, "chained assignment")
        tg, value, ann = st.targets[0], st.value, None
    else:
        tg, value = st.target, st.value
        if value is None or not isinstance(tg, ast.Name):
            fail(p, st, "annotated assignment " + ast.unparse(st)[:60])
        ann = ann_tab.get(ast.unparse(st.annotation))
        if ann is None:
            fail(p, st, "annotation " + ast.unparse(st.annotation))
        if tg.id in env.vars:
            fail(p, st, f"{tg.id} is declared twice")
    # <obj>.line = e / <obj>.idx = e
    if isinstance(tg, ast.Attribute):
        o, oty, op = expr(env, tg.value)
        v, vty, vp = expr(env, value)
        if (tg.attr, oty) not in STORES or STORES[(tg.attr, oty)][1] != vty:
            fail(p, st, f"store .{tg.attr} of a {oty} := {vty}")
        g = STORES[(tg.attr, oty)][0]
        h = heap_of(env, st)
        out, _ = seq(env, [(v, vp), (o, op)], lambda b, a: f"({g} {h} {a} {b})", monadic_result=True)
        return bind_var(env, "heap", st, out, HEAP, False, rest_of, heap=True)
    # <obj>.next[j] = e
    if isinstance(tg, ast.Subscript):
        if not isinstance(tg.value, ast.Attribute) or isinstance(tg.slice, ast.Slice):
            fail(p, st, "assignment target " + ast.unparse(tg)[:60])
        o, oty, op = expr(env, tg.value.value)
        v, vty, vp = expr(env, value)
        j, jty, jp = expr(env, tg.slice)
        if (tg.value.attr, oty) not in SETITEMS or SETITEMS[(tg.value.attr, oty)][1] != vty or jty != NAT:
            fail(p, st, f"store .{tg.value.attr}[{jty}] of a {oty} := {vty}")
        g = SETITEMS[(tg.value.attr, oty)][0]
        h = heap_of(env, st)
        out, _ = seq(env, [(v, vp), (o, op), (j, jp)], lambda c, a, b: f"({g} {h} {a} {b} {c})", monadic_result=True)
        return bind_var(env, "heap", st, out, HEAP, False, rest_of, heap=True)
    if not isinstance(tg, ast.Name):
        fail(p, st, "assignment target " + ast.unparse(tg)[:60])
    x = tg.id
    want = ann or env.vars.get(x)
    # x = BasicBlock() / TealerCustomErrInstruction()
    if isinstance(value, ast.Call) and isinstance(value.func, ast.Name) and value.func.id in ALLOC and not value.args and not value.keywords:
        g, ty, mod = ALLOC[value.func.id]
        if value.func.id in env.vars or env.spec["imports"].get(value.func.id) != mod:
            fail(p, st, f"{value.func.id} is not the class {mod}")
        h = heap_of(env, st)
        tmp = env.fresh()
        inner = bind_var(env, x, st, f"(fst {tmp})", ty, True, lambda env2: bind_var(env2, "heap", st, f"(snd {tmp})", HEAP, True, rest_of, heap=True))
        return f"(let {tmp} := ({g} {h}) in\n{inner})"
    # x = identify_subroutine_blocks(e)
    if isinstance(value, ast.Call) and is_name(value.func, "identify_subroutine_blocks") and len(value.args) == 1 and not value.keywords:
        if "identify_subroutine_blocks" in env.vars or env.spec["imports"].get("identify_subroutine_blocks") != "tealer.teal.parse_teal.identify_subroutine_blocks":
            fail(p, st, "identify_subroutine_blocks is not the function of parse_teal.py")
        a, aty, ap = expr(env, value.args[0])
        if aty != BLK or not ap:
            fail(p, st, f"identify_subroutine_blocks of a value of type {aty}")
        return fuelled_call(env, st, x, "identify_subroutine_blocks_fgen", [a, heap_of(env, st)], L(BLK), rest_of)
    # x = xs.pop()
    if isinstance(value, ast.Call) and isinstance(value.func, ast.Attribute) and value.func.attr == "pop" and not value.args and not value.keywords:
        xs = value.func.value
        if not is_name(xs) or not env.vars.get(xs.id, "").startswith("list ") or xs.id == x:
            fail(p, st, "pop " + ast.unparse(value)[:60])
        lty = env.vars[xs.id]
        return bind_var(env, x, st, f"(fl_last {xs.id})", lty[5:], False, lambda env2: bind_var(env2, xs.id, st, f"(removelast {xs.id})", lty, True, rest_of, mut=True))
    # x = Function(function_name, entry, all_function_blocks, teal, function_main, function_subroutines)
    if isinstance(value, ast.Call) and is_name(value.func, "Function"):
        if not same_text(value, FUNCTION_CALL_TEXT) or "Function" in env.vars or env.spec["imports"].get("Function") != "tealer.teal.functions.Function":
            fail(p, st, "the construction of the Function object changed: " + ast.unparse(value)[:80])
        for n, ty in (("entry", BLK), ("all_function_blocks", L(CELL)), ("function_main", SUB), ("function_subroutines", SDICT), ("function_main_blocks", L(BLK)), ("teal", TEAL)):
            if env.vars.get(n) != ty:
                fail(p, st, f"{n} is not a {ty} here")
        h = heap_of(env, st)
        return bind_var(env, x, st, f"(mk_Function t {h} function_main_blocks entry all_function_blocks function_main function_subroutines)", FUNC, False, rest_of)
    # x = {sub.name: sub for sub in xs}
    if isinstance(value, ast.DictComp):
        if want != SDICT or len(value.generators) != 1:
            fail(p, st, "dict comprehension " + ast.unparse(value)[:60])
        c = value.generators[0]
        if c.is_async or c.ifs or not isinstance(c.target, ast.Name):
            fail(p, st, "dict comprehension " + ast.unparse(value)[:60])
        y = c.target.id
        check_name(env, y, st)
        if y in env.vars:
            fail(p, st, f"comprehension variable {y} shadows a variable")
        l, lty, lpure = expr(env, c.iter)
        if not lty.startswith("list ") or lty == LIST_ANY:
            fail(p, st, f"iteration over a value of type {lty}")
        benv = env.child(**{y: lty[5:]})
        k, kty, kp = expr(benv, value.key)
        v, vty, vp = expr(benv, value.value)
        if kty != STR or vty != SUB:
            fail(p, st, f"dict comprehension {kty}: {vty}")
        body, _ = seq(benv, [(k, kp), (v, vp)], lambda a, b: f"(ret (sdict_set st {a} {b}))", monadic_result=True)
        lst = l if lpure else env.fresh()
        loop = f"(fold_left (fun acc {y} => (bind acc (fun st =>\n    {body})))\n  {lst} (ret []))"
        if not lpure:
            loop = f"(bind {l} (fun {lst} =>\n{loop}))"
        return bind_var(env, x, st, loop, SDICT, False, rest_of)
    t, ty, pure = expr(env, value)
    if ty == LIST_ANY and want is not None and want.startswith("list "):
        ty = want
    if want is not None and ty != want:
        fail(p, st, f"assignment of a value of type {ty} to {x} : {want}")
    if ty in (HEAP, TEAL, STORE):
        fail(p, st, f"assignment of a {ty}")
    return bind_var(env, x, st, t, ty, pure, rest_of)


def raise_message(env, st):
    """raise TealerException(f"<text>: {..}..") -> the Gallina string "TealerException: <text>" """
    p = env.path
    e = st.exc
    if st.cause is not None or not (isinstance(e, ast.Call) and is_name(e.func, "TealerException") and len(e.args) == 1 and not e.keywords):
        fail(p, st, "raise " + ast.unparse(st)[:60])
    if "TealerException" in env.vars or env.spec["imports"].get("TealerException") != "tealer.exceptions.TealerException":
        fail(p, st, "TealerException is not tealer.exceptions.TealerException")
    a = e.args[0]
    if isinstance(a, ast.Constant) and isinstance(a.value, str):
        head = a.value
    elif isinstance(a, ast.JoinedStr) and a.values and isinstance(a.values[0], ast.Constant) and isinstance(a.values[0].value, str):
        head = a.values[0].value
        for v in a.values[1:]:
            if isinstance(v, ast.FormattedValue) and not (isinstance(v.value, ast.Name) and v.value.id in env.vars and v.conversion == -1 and v.format_spec is None):
                fail(p, st, "formatted value " + ast.unparse(v)[:40])
    else:
        fail(p, st, "exception message " + ast.unparse(a)[:60])
    if head.endswith(": "):
        head = head[:-2]
    if not head:
        fail(p, st, "exception message without a constant head")
    return coq_str("TealerException: " + head)


def block(env, stmts, fall):
    """stmts: statement list; fall: function env -> term for what follows the block (None: the function ends)."""
    p = env.path
    stmts = strip_doc(stmts)
    if not stmts:
        if fall is None:
            return end_of_function(env, "?")
        return fall(env)
    st, rest = stmts[0], stmts[1:]
    for node in ast.walk(st):
        if isinstance(node, FORBIDDEN):
            fail(p, node, "statement/expression not accepted: " + type(node).__name__)
    rest_of = lambda env2: block(env2, rest, fall)  # noqa: E731
    if skipped(env, st):
        return rest_of(env)
    if isinstance(st, ast.Return):
        if env.depth or env.in_while:
            fail(p, st, "return in a loop body")
        if rest:
            fail(p, rest[0], "statement after return")
        if st.value is None or "ret_type" not in env.spec:
            fail(p, st, "return " + ast.unparse(st)[:40])
        t, ty, pure = expr(env, st.value)
        if ty != env.spec["ret_type"]:
            fail(p, st, f"return of a value of type {ty}, expected {env.spec['ret_type']}")
        out, _ = seq(env, [(t, pure)], lambda a: wrap_result(env.spec, a), monadic_result=True)
        return out
    if isinstance(st, ast.Pass):
        return rest_of(env)
    if isinstance(st, ast.Continue):
        if env.loop_end is None or env.in_while and env.depth == 0:
            fail(p, st, "continue outside a for loop")
        if rest:
            fail(p, rest[0], "statement after continue")
        return env.loop_end(env)
    if isinstance(st, ast.Break):
        if env.on_break is None or env.depth == 0:
            fail(p, st, "break outside a for loop")
        if rest:
            fail(p, rest[0], "statement after break")
        return env.on_break(env)
    if isinstance(st, ast.Raise):
        if env.on_raise is None:
            fail(p, st, "raise in a function that is not expected to raise")
        if rest:
            fail(p, rest[0], "statement after raise")
        return env.on_raise(env, raise_message(env, st))
    if isinstance(st, (ast.Assign, ast.AnnAssign, ast.AugAssign)):
        return assign(env, st, rest_of)
    if isinstance(st, ast.Expr):
        return expr_stmt(env, st, rest_of)
    if isinstance(st, ast.If):
        if not rest:
            return if_term(env, st, fall)
        uses = [0]

        def count(_env):
            uses[0] += 1
            return "K"

        _, names = probe(env, lambda: if_term(env, st, count))
        if uses[0] == 0:
            fail(p, rest[0], "unreachable statement")
        if uses[0] == 1:
            return if_term(env, st, rest_of)
        join = [v for v in env.vars if v in names]
        kn = env.fresh_join()
        body = block(env, rest, fall)
        params = " ".join(f"({v} : {coqty(env.vars[v])})" for v in join) or "(_ : unit)"

        def callk(env2):
            for v in join:
                if env2.vars[v] != env.vars[v]:
                    fail(p, st, f"the type of {v} differs at the join point")
            return f"({kn} {' '.join(join) or 'tt'})"

        return f"(let {kn} := (fun {params} =>\n{indent(body, 2)}) in\n{if_term(env, st, callk)})"
    if isinstance(st, ast.For):
        return for_term(env, st, rest_of)
    if isinstance(st, ast.While):
        return while_term(env, st, rest, fall)
    fail(p, st, "statement " + ast.unparse(st)[:60])


def if_term(env, st, k):
    p = env.path
    cont = k if k is not None else (lambda env2: end_of_function(env2, st.lineno))
    t, ty, pure = expr(env, st.test)
    if ty != BOOL:
        fail(p, st, f"if-condition of type {ty}")
    then_t = block(env, st.body, cont)
    else_t = block(env, st.orelse, cont) if st.orelse else cont(env)
    if pure:
        return f"(if {t}\n then\n{indent(then_t)}\n else\n{indent(else_t)})"
    return f"(ifE {t}\n{indent(then_t)}\n{indent(else_t)})"


def at_level(stmts, kinds):
    """nodes of the given kinds in stmts, not looking inside nested loops"""
    out = []

    def go(n):
        if isinstance(n, kinds):
            out.append(n)
        if isinstance(n, (ast.For, ast.While)):
            return
        for c in ast.iter_child_nodes(n):
            go(c)

    for s in stmts:
        if isinstance(s, kinds):
            out.append(s)
        elif not isinstance(s, (ast.For, ast.While)):
            for c in ast.iter_child_nodes(s):
                go(c)
    return out


def iter_root(env, it):
    """the variable / heap that holds the list object a loop iterates over (None: a fresh list)"""
    if is_name(it):
        return it.id
    if isinstance(it, ast.Attribute):
        _, ty, _ = expr(env, it.value)
        if ty == BLK:
            return "heap"
        if ty == SUB and it.attr == "called_subroutines":
            return None  # list(dict.fromkeys(..)): a new list at every read (fingerprinted by its translation)
        fail(env.path, it, "iterable " + ast.unparse(it)[:60])
    if isinstance(it, ast.Subscript) and isinstance(it.slice, ast.Slice):
        return None  # a slice is a new list
    if isinstance(it, ast.BinOp):
        return None  # xs + ys is a new list
    fail(env.path, it, "iterable " + ast.unparse(it)[:60])


def for_term(env, st, rest_of):
    p = env.path
    if getattr(st, "type_comment", None) or env.depth >= 3:
        fail(p, st, "loops nested too deeply")
    it, snapshot, enum = st.iter, False, False
    if builtin(env, it, "enumerate", 1):
        it, enum = it.args[0], True
    if builtin(env, it, "list", 1):
        it, snapshot = it.args[0], True
    if enum:
        if not (isinstance(st.target, ast.Tuple) and len(st.target.elts) == 2 and all(isinstance(x, ast.Name) for x in st.target.elts)):
            fail(p, st, "loop header " + ast.unparse(st.target))
        names = [x.id for x in st.target.elts]
        if names[0] == names[1]:
            fail(p, st, "loop header " + ast.unparse(st.target))
    else:
        if not isinstance(st.target, ast.Name):
            fail(p, st, "loop header " + ast.unparse(st.target))
        names = [st.target.id]
    for x in names:
        check_name(env, x, st)
        if x in env.vars:
            fail(p, st, f"loop variable {x} shadows a variable")
    # the iterated list is evaluated once, before the loop
    l, lty, lpure = expr(env, it)
    if not lty.startswith("list ") or lty == LIST_ANY:
        fail(p, st, f"iteration over a value of type {lty}")
    elty = lty[5:]
    body = strip_doc(st.body)
    orelse = strip_doc(st.orelse)
    has_break = bool(at_level(body, (ast.Break,)))
    has_raise = any(isinstance(n, ast.Raise) for s in body for n in ast.walk(s))
    if orelse and not has_break:
        fail(p, st, "for-else without break")
    if (has_raise or any(isinstance(n, ast.Raise) for s in orelse for n in ast.walk(s))) and env.on_raise is None:
        fail(p, st, "raise in a function that is not expected to raise")
    ctl = has_break or has_raise
    new = {names[0]: NAT, names[1]: elty} if enum else {names[0]: elty}
    benv = env.child(**new)
    benv.depth = env.depth + 1
    benv.loop_end = lambda _e: "K"
    benv.on_break = (lambda _e: "K") if has_break else None
    benv.on_raise = (lambda _e, _m: "K") if env.on_raise is not None else None
    _, assigned = probe(benv, lambda: block(benv, body, lambda _e: "K"))
    mutated = probe.last_mut
    if any(x in assigned for x in names):
        fail(p, st, "loop body assigns the loop variable")
    state = [n for n in env.vars if n in assigned]
    if not state and not ctl:
        fail(p, st, "loop without carried variable")
    if iter_root(env, it) in mutated and not snapshot:
        fail(p, st, "loop body mutates the list it iterates over (iterate over a copy: list(..))")
    stys = [env.vars[n] for n in state]

    def pack(env2, c):
        for n, ty in zip(state, stys):
            if env2.vars[n] != ty:
                fail(p, st, f"loop body changes the type of {n} from {ty} to {env2.vars[n]}")
        return f"(ret {tuple_term(([c] if ctl else []) + state)})"

    benv.loop_end = lambda e2: pack(e2, "Run")
    benv.on_break = (lambda e2: pack(e2, "Broke")) if has_break else None
    benv.on_raise = (lambda e2, m: pack(e2, f"(Raised {m})")) if env.on_raise is not None else None
    sfx = "" if env.depth == 0 else str(env.depth + 1)
    stv, accv = "st" + sfx, "acc" + sfx
    comps = (["<ctl>"] if ctl else []) + state
    projs = projections(len(comps), stv)
    lst = l if lpure else env.fresh()
    xv = env.fresh() if enum else names[0]
    body_t = block(benv, body, benv.loop_end)
    if ctl:
        body_t = f"(match {projs[0]} with\n | Run =>\n{indent(body_t)}\n | _ => (ret {stv})\n end)"
    if enum:
        body_t = f"(let {names[0]} := (fst {xv}) in\n(let {names[1]} := (snd {xv}) in\n{body_t}))"
    for n, pr in reversed(list(zip(state, projs[1:] if ctl else projs))):
        body_t = f"(let {n} := {pr} in\n{body_t})"
    lterm = f"(enumerate {lst})" if enum else lst
    init = tuple_term((["Run"] if ctl else []) + state)
    loop = f"(fold_left (fun {accv} {xv} => (bind {accv} (fun {stv} =>\n{indent(body_t, 2)})))\n  {lterm} (ret {init}))"
    tmp = env.fresh()
    for n in state:
        env.collect[0].append(n)
    aprojs = projections(len(comps), tmp)
    if not ctl:
        after = rest_of(env)
    else:
        cases = []
        if has_raise:
            ev = "exc" + tmp[3:]
            cases.append(f" | Raised {ev} =>\n{indent(env.on_raise(env, ev))}")
        if orelse:
            uses = [0]

            def count(_e):
                uses[0] += 1
                return "K"

            probe(env, lambda: block(env, orelse, count))
            if uses[0] == 0:
                cases.append(f" | Run =>\n{indent(block(env, orelse, rest_of))}")
                cases.append(f" | _ =>\n{indent(rest_of(env))}")
                after = f"(match {aprojs[0]} with\n" + "\n".join(cases) + "\n end)"
            else:
                fail(p, st, "the else part of a for loop must end with raise")
        elif cases:
            cases.append(f" | _ =>\n{indent(rest_of(env))}")
            after = f"(match {aprojs[0]} with\n" + "\n".join(cases) + "\n end)"
        else:
            after = rest_of(env)
    for n, pr in reversed(list(zip(state, aprojs[1:] if ctl else aprojs))):
        after = f"(let {n} := {pr} in\n{after})"
    out = f"(bind {loop} (fun {tmp} =>\n{after}))"
    if not lpure:
        out = f"(bind {l} (fun {lst} =>\n{out}))"
    return out


def while_term(env, st, rest, fall):
    """`while len(xs) > 0:` / `while xs:` -> a separate Fixpoint over the fuel (env.aux), called here"""
    p = env.path
    spec = env.spec
    if not spec.get("loop") or not spec.get("fuel") or env.depth or env.in_while or st.orelse or env.aux:
        fail(p, st, "while loop (only one, at the top level of a function that is expected to contain one)")
    t = st.test
    if is_name(t) and env.vars.get(t.id, "").startswith("list "):
        xs = t.id
    elif (
        isinstance(t, ast.Compare) and len(t.ops) == 1 and isinstance(t.ops[0], ast.Gt) and const_nat(t.comparators[0]) and t.comparators[0].value == 0
        and builtin(env, t.left, "len", 1) and is_name(t.left.args[0]) and env.vars.get(t.left.args[0].id, "").startswith("list ")
    ):  # fmt: skip
        xs = t.left.args[0].id
    else:
        fail(p, st, "loop condition " + ast.unparse(t)[:40] + " (expected: len(<list variable>) > 0 or <list variable>)")
    body = strip_doc(st.body)
    benv = env.child()
    benv.in_while = True
    benv.loop_end = None
    benv.on_break = None
    benv.on_raise = None
    _, names = probe(benv, lambda: block(benv, body, lambda _e: "K"))
    state = [n for n in env.vars if n in names]
    if xs not in state:
        fail(p, st, "the loop body does not change the list of the loop condition")
    params = list(env.vars)
    name = spec["loop"]
    stys = [env.vars[n] for n in state]
    sty = " * ".join(coqty(ty) for ty in stys)
    call_t = lambda: f"({name} fuel " + " ".join(cname(n) for n in params) + ")"  # noqa: E731

    def again(env2):
        for n, ty in zip(state, stys):
            if env2.vars[n] != ty:
                fail(p, st, f"loop body changes the type of {n}")
        return call_t()

    body_t = block(benv, body, again)
    ptxt = " ".join(f"({cname(n)} : {coqty(env.vars[n])})" for n in params)
    fix = (
        f"Fixpoint {name} (fuel : nat) {ptxt} {{struct fuel}} : py (option ({sty})) :=\n"
        f"  match fuel with\n"
        f"  | O => (ret None) (* the iteration budget is exhausted *)\n"
        f"  | S fuel =>\n"
        f"    (if (Nat.ltb 0 (length {xs}))\n"
        f"     then\n{indent(body_t, 8)}\n"
        f"     else\n"
        f"        (ret (Some {tuple_term(state)})))\n"
        f"  end."
    )
    env.aux.append(fix)
    tmp, tmp2 = env.fresh(), env.fresh()
    for n in state:
        env.collect[0].append(n)
    after = block(env, rest, fall)
    for n, pr in reversed(list(zip(state, projections(len(state), tmp2)))):
        after = f"(let {n} := {pr} in\n{after})"
    return f"(bind {call_t()} (fun {tmp} =>\n(match {tmp} with\n | None => (ret None)\n | Some {tmp2} =>\n{indent(after)}\n end)))"


# ----------------------------------------------------------------------------- source checks
def check_fingerprints():
    trees = {rel: parse(os.path.join(T, rel)) for rel in (BB_REL, INS_REL, SUB_REL, FN_REL)}
    for rel, cname_, mname, deco, text in FINGERPRINTS:
        path = os.path.join(T, rel)
        cls = find_class(trees[rel], cname_, path)
        got = member_text(find_member(path, cls, mname, deco))
        if not same_text(ast.parse(got), text):
            raise TranslateError(f"translator: {path}: {cname_}.{mname} changed (its entry in the glue table of Gen/FunctionGen.v is no longer justified):\n{got}")
    # identity of objects, truth values, attribute reads: no special methods in the class hierarchies
    for rel in (BB_REL, INS_REL, SUB_REL):
        path = os.path.join(T, rel)
        for cls in ast.walk(trees[rel]):
            if isinstance(cls, ast.ClassDef):
                for n in cls.body:
                    if isinstance(n, ast.FunctionDef) and n.name in FORBIDDEN_DUNDERS:
                        fail(path, n, f"class {cls.name} defines {n.name}: ==, `in`, list.remove, truth values are no longer those of object identity")
                    for tg in n.targets if isinstance(n, ast.Assign) else [n.target] if isinstance(n, ast.AnnAssign) else []:
                        if isinstance(tg, ast.Name) and tg.id in FORBIDDEN_DUNDERS + ("next", "prev", "idx", "line", "entry_instr", "exit_instr", "blocks", "name", "called_subroutine", "called_subroutines", "is_callsub_block"):
                            fail(path, n, f"class {cls.name} has the class attribute {tg.id}")
    for rel, cn in ((BB_REL, "BasicBlock"), (SUB_REL, "Subroutine"), (INS_REL, "Instruction"), (FN_REL, "Function")):
        c = find_class(trees[rel], cn, os.path.join(T, rel))
        if c.bases or c.keywords or c.decorator_list:
            fail(os.path.join(T, rel), c, f"class {cn} has bases / decorators")
    for rel, cn in ((BB_REL, "BasicBlock"), (SUB_REL, "Subroutine")):
        if sum(1 for n in ast.walk(trees[rel]) if isinstance(n, ast.ClassDef)) != 1:
            raise TranslateError(f"translator: {os.path.join(T, rel)}: expected the single class {cn}")
    # Subroutine._blocks / BasicBlock._idx / _next / _prev / _instructions are stored by the fingerprinted methods only
    for rel, cn, attrs, allowed in (
        (SUB_REL, "Subroutine", ("_blocks", "_name"), ("__init__",)),
        (BB_REL, "BasicBlock", ("_idx", "_next", "_prev", "_instructions"), ("__init__", "idx")),
    ):
        path = os.path.join(T, rel)
        for fn in find_class(trees[rel], cn, path).body:
            if isinstance(fn, ast.FunctionDef) and fn.name not in allowed:
                for n in ast.walk(fn):
                    if isinstance(n, ast.Attribute) and n.attr in attrs and isinstance(n.ctx, (ast.Store, ast.Del)):
                        fail(path, n, f"{cn}.{fn.name} stores {n.attr}")
    ipath = os.path.join(T, INS_REL)
    for cls in trees[INS_REL].body:
        if isinstance(cls, ast.ClassDef):
            for n in cls.body:
                if isinstance(n, ast.FunctionDef) and n.name == "line" and cls.name != "Instruction":
                    fail(ipath, n, f"class {cls.name} overrides Instruction.line")
                if isinstance(n, ast.FunctionDef) and n.name == "called_subroutine" and cls.name != "Callsub":
                    fail(ipath, n, f"class {cls.name} defines .called_subroutine")
            bases = [ast.unparse(b) for b in cls.bases]
            if "Callsub" in bases or "TealerCustomErrInstruction" in bases:
                fail(ipath, cls, f"class {cls.name} is a subclass of {bases}")
    err = find_class(trees[INS_REL], "TealerCustomErrInstruction", ipath)
    if [ast.unparse(b) for b in err.bases] != ["Instruction"] or any(isinstance(n, ast.FunctionDef) and n.name != "__str__" for n in err.body):
        fail(ipath, err, "TealerCustomErrInstruction is no longer `class (Instruction)` with __str__ only")
    if [ast.unparse(b) for b in find_class(trees[INS_REL], "Callsub", ipath).bases] != ["InstructionWithLabel"]:
        fail(ipath, err, "bases of Callsub")
    # Function.__init__ stores its six arguments first
    fpath = os.path.join(T, FN_REL)
    init = find_member(fpath, find_class(trees[FN_REL], "Function", fpath), "__init__", None)
    head = ast.parse(member_text(init)).body[0]
    head.body = head.body[:6]
    if not same_text(head, FUNCTION_INIT_HEAD):
        raise TranslateError(f"translator: {fpath}: Function.__init__ no longer starts by storing its six arguments")


def signature(path, fn, expected, returns, defaults=()):
    a = fn.args
    if a.vararg or a.kwarg or a.kwonlyargs or a.posonlyargs or [ast.unparse(d) for d in a.defaults] != list(defaults):
        fail(path, fn, "signature of " + fn.name)
    got = [(x.arg, ast.unparse(x.annotation) if x.annotation else None) for x in a.args]
    if got != expected:
        fail(path, fn, f"signature of {fn.name}: {got}")
    r = ast.unparse(fn.returns) if fn.returns else None
    if r != returns:
        fail(path, fn, f"return annotation of {fn.name}: {r}")
    for node in ast.walk(fn):
        if isinstance(node, ast.Name) and isinstance(node.ctx, (ast.Store, ast.Del)) and node.id in ("len", "list", "int", "dict", "enumerate", "BasicBlock", "TealerCustomErrInstruction", "TealerException", "Function", "Subroutine", "identify_subroutine_blocks", "copy_main_cfg"):
            fail(path, node, f"{node.id} is re-bound")


BASE_ATTRS = {k for k in ATTRS if k[1] in (BLK, INS)} | {("called_subroutines", SUB)}
FM = ("function_main", "FunctionMain", SUB)  # `function_main = Subroutine(..)` (skipped, GLUE): the object FunctionMain

# name -> spec of the translated function
SPECS = {
    "A": dict(
        gen="dispatch_walk_gen", raises=True, params=[("function_blocks", L(BLK)), ("dispatch_path", L(BID)), ("heap", HEAP)], returns=["dispatch_path_blocks"],
        note="segment A: the walk of the dispatch path; Err = the TealerException raised",
    ),
    "B": dict(
        gen="cut_path_gen", params=[("dispatch_path_blocks", L(BLK)), ("heap", HEAP)], returns=["heap"], skip=("src", "bteal", "bcomment"),
        note="segment B: every successor off the path is replaced by a new err block; returns the final heap",
    ),
    "C": dict(
        gen="function_main_blocks_gen", fuel=True, params=[("dispatch_path_blocks", L(BLK)), ("heap", HEAP)], returns=["entry", "function_main_blocks", "heap"],
        note="segment C: the blocks reachable from the entry, predecessors outside them dropped; None: budget of the DFS exhausted",
    ),
    "D": dict(
        gen="used_subroutines_gen", loop="used_subroutines_loop_gen", fuel=True, params=[("teal", TEAL), ("function_main_blocks", L(BLK)), ("heap", HEAP)],
        pre=[FM], returns=["used_subroutines"], note="segment D: the closure of the called subroutines; None: budget exhausted",
    ),
    "E": dict(
        gen="function_object_gen", params=[("teal", TEAL), ("function_main_name", STR), ("entry", BLK), ("function_main_blocks", L(BLK)), ("used_subroutines", L(SUB)), ("heap", HEAP)],
        pre=[FM], ret_type=FUNC, skip=("analysis",), annotations=ANNOTATIONS_E, attrs=BASE_ATTRS | {("blocks", SUB), ("name", SUB)},
        note="segment E: the Function object (the model's record func)",
    ),
    "identify_subroutine_blocks": dict(
        gen="identify_subroutine_blocks_fgen", loop="identify_subroutine_blocks_floop_gen", fuel=True, sig=[("entry_block", "'BasicBlock'")], rann="List['BasicBlock']",
        params=[("entry_block", BLK), ("heap", HEAP)], ret_type=L(BLK), note="read on the function heap; None: the iteration budget of the while loop is exhausted",
    ),
    "called_subroutines": dict(
        gen="called_subroutines_gen", sig=[("self", None)], rann="List['Subroutine']",
        params=[("teal", TEAL), ("heap", HEAP), ("function_main_blocks", L(BLK)), ("self", SUB)], pre=[("store", "(sub_store t heap self_)", STORE)], ret_type=L(SUB),
        attrs={("_blocks", SUB), ("is_callsub_block", SBLK), ("called_subroutine", SBLK)}, note="the property Subroutine.called_subroutines",
    ),
}
COQ_NAME["self"] = "self_"
SEGMENTS = ["A", "B", "C", "D", "E"]


def result_type(spec):
    if "ret_type" in spec:
        r = coq_of(spec["ret_type"])
    else:
        tys = dict(spec["params"])
        for n, _, ty in spec.get("pre", []):
            tys[n] = ty
        tys.update(spec.get("ret_tys", {}))
        r = " * ".join(coqty(tys[n]) for n in spec["returns"])
    if spec.get("raises"):
        r = f"res ({r})"
    if spec.get("fuel"):
        r = f"option ({r})"
    return f"py ({r})"


RET_TYS = {"A": {"dispatch_path_blocks": L(BLK)}, "C": {"entry": BLK, "function_main_blocks": L(BLK)}, "D": {"used_subroutines": L(SUB)}}


def emit_function(w, path, rel, imports, key, stmts, lineno):
    spec = dict(SPECS[key])
    spec["imports"] = imports
    spec.setdefault("attrs", BASE_ATTRS)
    spec["ret_tys"] = RET_TYS.get(key, {})
    vars_ = dict(spec["params"])
    header_vars = list(vars_.items())
    for n, _, ty in spec.get("pre", []):
        vars_[n] = ty
    env = Env(path, vars_, spec)
    for n, _ in spec["params"]:
        if n not in ("heap", "teal", "self"):
            check_name(env, n, stmts[0] if stmts else None)
    if spec.get("raises"):
        env.on_raise = lambda _e, m: f"(ret (Err {m}))" if not spec.get("fuel") else f"(ret (Some (Err {m})))"
    if not stmts:
        raise TranslateError(f"translator: {path}: {spec['gen']}: nothing left to translate")
    body = block(env, stmts, None)
    if spec.get("loop") and len(env.aux) != 1:
        raise TranslateError(f"translator: {path}:{lineno}: {key} no longer contains its while loop")
    for n, t, _ in reversed(spec.get("pre", [])):
        body = f"(let {n} := {t} in\n{body})"
    for a in env.aux:
        w(f"(* {rel}: {key} (line {lineno}), the `while` loop *)")
        w(a)
        w("")
    ptxt = ("(fuel : nat) " if spec.get("fuel") else "") + " ".join(f"({cname(n)} : {coqty(ty)})" for n, ty in header_vars)
    w(f"(* {rel}: {key} (line {lineno}); {spec['note']} *)")
    w(f"Definition {spec['gen']} {ptxt} : {result_type(spec)} :=\n{indent(body, 2)}.")
    w("")


def slice_construct_function(path, fn):
    """-> {segment: statements}"""
    body = strip_doc(fn.body)

    def is_skip(s, key):
        return same_text(s, SKIP[key][0])

    if len(body) < 12 or not is_skip(body[0], "copy"):
        fail(path, fn, "construct_function no longer starts with `function_blocks = copy_main_cfg(teal)`")
    cuts = [i for i, s in enumerate(body) if isinstance(s, ast.For) and isinstance(s.iter, ast.Call) and is_name(s.iter.func, "enumerate")]
    names = [i for i, s in enumerate(body) if is_skip(s, "fname")]
    subs = [i for i, s in enumerate(body) if isinstance(s, ast.AnnAssign) and is_name(s.target, "function_subroutines")]
    if len(cuts) != 1 or len(names) != 1 or len(subs) != 1 or not 1 < cuts[0] < names[0] < subs[0]:
        fail(path, fn, "construct_function no longer has the expected shape (walk; `for i, bi in enumerate(..)`; main blocks; naming statements; closure; `function_subroutines: .. = ..`)")
    b, n, e = cuts[0], names[0], subs[0]
    for off, key in enumerate(["fname", "mname", "fmain", "bsub", "contract"]):
        if n + off >= e or not is_skip(body[n + off], key):
            fail(path, body[min(n + off, len(body) - 1)], f"expected the statement `{SKIP[key][0].splitlines()[0]} ..` ({SKIP[key][1]})")
    if not (is_skip(body[-2], "analysis") and same_text(body[-1], "return function_obj")):
        fail(path, body[-1], "construct_function no longer ends with `_apply_transaction_context_analysis(function_obj); return function_obj`")
    # the skipped statements occur nowhere else
    for key, (text, _) in SKIP.items():
        k = sum(1 for s in ast.walk(fn) if isinstance(s, ast.stmt) and same_text(s, text))
        if k != 1:
            fail(path, fn, f"the statement `{text.splitlines()[0]}` occurs {k} times in construct_function")
    return {"A": body[1:b], "B": [body[b]], "C": body[b + 1 : n], "D": body[n + 5 : e], "E": body[e:]}


def emit_chain(w, lineno):
    w(f"(* {PF_REL}: construct_function (line {lineno}): the segments in the order of the body.  function_blocks / heap: the result of")
    w("   copy_main_cfg(teal) (see ASSUMPTION above); the final heap is returned together with the Function object.")
    w("   None: a Python exception other than the TealerExceptions; Some None: an iteration budget is exhausted (fuel_dfs: the")
    w("   `while` of identify_subroutine_blocks, fuel_subs: the `while worklist`) *)")
    w(
        "Definition construct_function_gen (fuel_dfs fuel_subs : nat) (t : teal) (function_main_name : string) (dispatch_path : (list nat)) (function_blocks : (list nat)) (heap : fheap)"
        " : py (option (res (func * fheap))) :=\n"
        "  (bind (dispatch_walk_gen function_blocks dispatch_path heap) (fun tmp1 =>\n"
        "  (match tmp1 with\n"
        "   | Err exc1 => (ret (Some (Err exc1)))\n"
        "   | Ok dispatch_path_blocks =>\n"
        "      (bind (cut_path_gen dispatch_path_blocks heap) (fun heap =>\n"
        "      (bind (function_main_blocks_gen fuel_dfs dispatch_path_blocks heap) (fun tmp2 =>\n"
        "      (match tmp2 with\n"
        "       | None => (ret None)\n"
        "       | Some tmp3 =>\n"
        "          (let entry := (fst (fst tmp3)) in\n"
        "          (let function_main_blocks := (snd (fst tmp3)) in\n"
        "          (let heap := (snd tmp3) in\n"
        "          (bind (used_subroutines_gen fuel_subs t function_main_blocks heap) (fun tmp4 =>\n"
        "          (match tmp4 with\n"
        "           | None => (ret None)\n"
        "           | Some used_subroutines =>\n"
        "              (bind (function_object_gen t function_main_name entry function_main_blocks used_subroutines heap) (fun function_obj =>\n"
        "              (ret (Some (Ok (function_obj, heap))))))\n"
        "           end))))))\n"
        "       end)))))\n"
        "   end)))."
    )
    w("")


# ----------------------------------------------------------------------------- emission
def emit_function_gen(outdir):
    path = os.path.join(T, PF_REL)
    tree = parse(path)
    imports = bound_names(tree)
    check_fingerprints()
    for name in ("construct_function", "copy_main_cfg", "_apply_transaction_context_analysis", "BasicBlock", "TealerCustomErrInstruction", "TealerException", "Function", "Subroutine", "identify_subroutine_blocks"):
        if count_bindings(tree, name) != 1:
            raise TranslateError(f"translator: {path}: {name} must be bound exactly once at module level; found {count_bindings(tree, name)} bindings")
    for name in ("len", "list", "int", "dict", "enumerate"):
        if count_bindings(tree, name) != 0 or name in imports:
            raise TranslateError(f"translator: {path}: the builtin {name} is re-bound")
    want = {
        "construct_function": "<local>", "copy_main_cfg": "<local>", "_apply_transaction_context_analysis": "<local>",
        "Function": "tealer.teal.functions.Function", "Subroutine": "tealer.teal.subroutine.Subroutine", "BasicBlock": "tealer.teal.basic_blocks.BasicBlock",
        "TealerException": "tealer.exceptions.TealerException", "identify_subroutine_blocks": "tealer.teal.parse_teal.identify_subroutine_blocks",
        "TealerCustomErrInstruction": "tealer.teal.instructions.instructions.TealerCustomErrInstruction",
    }  # fmt: skip
    for name, mod in want.items():
        if imports.get(name) != mod:
            raise TranslateError(f"translator: {path}: {name} is bound to {imports.get(name)}, expected {mod}")
    if not same_text(ast.parse(member_text(find_toplevel(tree, "copy_main_cfg", path))), COPY_MAIN_CFG_TEXT):
        raise TranslateError(f"translator: {path}: copy_main_cfg changed (the assumption Gen/FunctionGen.v states about its result is no longer justified)")
    fn = find_toplevel(tree, "construct_function", path)
    signature(path, fn, [("teal", "'Teal'"), ("dispatch_path", "List[str]"), ("function_name", "Optional[str]")], "'Function'", defaults=["None"])
    segs = slice_construct_function(path, fn)

    ptpath = os.path.join(T, PT_REL)
    pttree = parse(ptpath)
    ptimports = bound_names(pttree)
    if count_bindings(pttree, "identify_subroutine_blocks") != 1 or ptimports.get("identify_subroutine_blocks") != "<local>":
        raise TranslateError(f"translator: {ptpath}: identify_subroutine_blocks must be bound exactly once, by its def")
    for name in ("len",):
        if count_bindings(pttree, name) != 0 or name in ptimports:
            raise TranslateError(f"translator: {ptpath}: the builtin {name} is re-bound")
    idfn = find_toplevel(pttree, "identify_subroutine_blocks", ptpath)
    signature(ptpath, idfn, SPECS["identify_subroutine_blocks"]["sig"], SPECS["identify_subroutine_blocks"]["rann"])

    spath = os.path.join(T, SUB_REL)
    stree = parse(spath)
    simports = bound_names(stree)
    for name in ("list", "dict"):
        if count_bindings(stree, name) != 0 or name in simports:
            raise TranslateError(f"translator: {spath}: the builtin {name} is re-bound")
    prop = find_member(spath, find_class(stree, "Subroutine", spath), "called_subroutines", None)
    if [ast.unparse(d) for d in prop.decorator_list] != ["property"]:
        fail(spath, prop, "Subroutine.called_subroutines is not a property")
    signature(spath, prop, SPECS["called_subroutines"]["sig"], SPECS["called_subroutines"]["rann"])

    out = []
    w = out.append
    w("(* GENERATED by tools/translate.py (translate_function) from /repo/tealer -- do not edit *)")
    w("(* teal/parse_functions.py: construct_function (in segments), teal/parse_teal.py: identify_subroutine_blocks (on the")
    w("   function heap), teal/subroutine.py: Subroutine.called_subroutines, statement by statement.")
    w("   See tools/translate_function.py for the reading. *)")
    w("From Coq Require Import String List NArith ZArith Bool Arith.")
    w("From Tealer Require Import Tables Syntax Parse Cfg KeysGen Analysis Detect Group.")
    w("Import ListNotations.")
    w("Open Scope string_scope.")
    w("Open Scope list_scope.")
    w(PRELUDE.rstrip("\n"))
    w("")
    w("(* ====================================================================== *)")
    w("(* TRANSLATED functions                                                     *)")
    w("(* ====================================================================== *)")
    emit_function(w, ptpath, PT_REL, ptimports, "identify_subroutine_blocks", strip_doc(idfn.body), idfn.lineno)
    emit_function(w, spath, SUB_REL, simports, "called_subroutines", strip_doc(prop.body), prop.lineno)
    for key in SEGMENTS:
        emit_function(w, path, PF_REL, imports, key, segs[key], segs[key][0].lineno if segs[key] else fn.lineno)
    emit_chain(w, fn.lineno)
    os.makedirs(outdir, exist_ok=True)
    with open(os.path.join(outdir, "FunctionGen.v"), "w") as fh:
        fh.write("\n".join(out) + "\n")
    return 2 + len(SEGMENTS) + 1


def main():
    outdir = sys.argv[1] if len(sys.argv) > 1 else os.path.join(os.path.dirname(os.path.abspath(__file__)), "..", "coq", "Gen")
    try:
        n = emit_function_gen(outdir)
    except TranslateError as e:
        print(str(e))
        sys.exit(2)
    print(f"translate_function: {n} function-construction functions -> {outdir}/FunctionGen.v")


if __name__ == "__main__":
    main()
