#!/venv/bin/python
"""Fail-closed Python-ast translator: /repo/tealer source -> coq/Gen/*.v (see tcommon.py, translate_leaves.py)"""
import ast
import os
import sys
import json

from tcommon import TranslateError, fail, parse, coq_str, strip_doc, REPO, T

# ----------------------------------------------------------------------------- instructions.py

INS_PATH = os.path.join(T, "teal/instructions/instructions.py")


def is_self_attr(n):
    return isinstance(n, ast.Attribute) and isinstance(n.value, ast.Name) and n.value.id == "self"


class ClassInfo:
    def __init__(self, name):
        self.name = name
        self.bases = []
        self.params = None  # ctor parameter names (own __init__) or None (inherited)
        self.attr_of_param = {}  # attr name -> param index
        self.version = None
        self.mode = None
        self.pop = None
        self.push = None
        self.cost = None
        self.str = None
        self.label_strip = False
        self.props = {}  # property name -> attr name
        self.unquoted = set()


def arith_expr(path, node, ci):
    """arity expressions: n | self._x | self._x + n | n + self._x | len(self._x) [+ n]"""
    if isinstance(node, ast.Constant) and isinstance(node.value, int):
        return ("const", node.value)
    if is_self_attr(node):
        return ("imm", node.attr, 0)
    if isinstance(node, ast.BinOp) and isinstance(node.op, ast.Add):
        l, r = node.left, node.right
        if isinstance(l, ast.Constant):
            l, r = r, l
        if isinstance(r, ast.Constant) and isinstance(r.value, int):
            if is_self_attr(l):
                return ("imm", l.attr, r.value)
            if isinstance(l, ast.Call) and isinstance(l.func, ast.Name) and l.func.id == "len" and is_self_attr(l.args[0]):
                return ("len", l.args[0].attr, r.value)
    if isinstance(node, ast.Call) and isinstance(node.func, ast.Name) and node.func.id == "len" and is_self_attr(node.args[0]):
        return ("len", node.args[0].attr, 0)
    fail(path, node, "arity expression " + ast.unparse(node))


def translate_arity(path, fn, ci):
    body = strip_doc(fn.body)
    if len(body) == 1 and isinstance(body[0], ast.Return):
        return arith_expr(path, body[0].value, ci)
    # if self._idx is None: return a ; return b
    if (
        len(body) == 2
        and isinstance(body[0], ast.If)
        and isinstance(body[0].test, ast.Compare)
        and is_self_attr(body[0].test.left)
        and isinstance(body[0].test.ops[0], ast.Is)
        and isinstance(body[0].test.comparators[0], ast.Constant)
        and body[0].test.comparators[0].value is None
        and len(body[0].body) == 1
        and isinstance(body[0].body[0], ast.Return)
        and not body[0].orelse
        and isinstance(body[1], ast.Return)
    ):
        a = arith_expr(path, body[0].body[0].value, ci)
        b = arith_expr(path, body[1].value, ci)
        if a[0] == "const" and b[0] == "const":
            return ("ifnone", body[0].test.left.attr, a[1], b[1])
    fail(path, fn, "arity body")


def translate_cost(path, fn):
    body = strip_doc(fn.body)
    if len(body) == 1 and isinstance(body[0], ast.Return) and isinstance(body[0].value, ast.Constant):
        return [("always", body[0].value.value)]
    # guard: if self.bb and self.bb.teal: contract_version = ... else: raise
    if not (isinstance(body[0], ast.If) and ast.unparse(body[0].test) == "self.bb and self.bb.teal"):
        fail(path, fn, "cost guard")
    if ast.unparse(body[0].body[0]) != "contract_version = self.bb.teal.version" or not isinstance(body[0].orelse[0], ast.Raise):
        fail(path, fn, "cost guard body")
    clauses = []
    for st in body[1:]:
        if isinstance(st, ast.Return) and isinstance(st.value, ast.Constant):
            clauses.append(("always", st.value.value))
        elif isinstance(st, ast.If) and not st.orelse:
            t = st.test
            if not (isinstance(t, ast.Compare) and isinstance(t.left, ast.Name) and t.left.id == "contract_version" and len(t.ops) == 1):
                fail(path, st, "cost test")
            op = {ast.Eq: "eq", ast.GtE: "ge", ast.Gt: "gt", ast.LtE: "le", ast.Lt: "lt"}.get(type(t.ops[0]))
            if op is None:
                fail(path, st, "cost comparison")
            cmpv = t.comparators[0]
            if len(st.body) == 1 and isinstance(st.body[0], ast.Return) and isinstance(st.body[0].value, ast.Constant):
                if isinstance(cmpv, ast.Constant):
                    clauses.append((op, cmpv.value, st.body[0].value.value))
                elif ast.unparse(cmpv) == "self._version" and op == "ge":
                    clauses.append(("geself", st.body[0].value.value))
                else:
                    fail(path, st, "cost comparand")
            elif op == "ge" and isinstance(cmpv, ast.Constant):
                # nested: if self._x == 'lit': return n   (optionally closed by a plain `return n`)
                for inner in st.body:
                    if inner is st.body[-1] and isinstance(inner, ast.Return) and isinstance(inner.value, ast.Constant):
                        clauses.append(("ge", cmpv.value, inner.value.value))
                        continue
                    ok = (
                        isinstance(inner, ast.If) and not inner.orelse and len(inner.body) == 1
                        and isinstance(inner.body[0], ast.Return) and isinstance(inner.body[0].value, ast.Constant)
                        and isinstance(inner.test, ast.Compare) and is_self_attr(inner.test.left)
                        and isinstance(inner.test.ops[0], ast.Eq) and isinstance(inner.test.comparators[0], ast.Constant)
                        and isinstance(inner.test.comparators[0].value, str)
                    )
                    if not ok:
                        fail(path, inner, "nested cost statement")
                    clauses.append(("geparam", cmpv.value, inner.test.left.attr, inner.test.comparators[0].value, inner.body[0].value.value))
            else:
                fail(path, st, "cost if-body")
        else:
            fail(path, st, "cost statement")
    return clauses


def translate_str(path, fn, ci):
    """__str__ as list of pieces: ("lit", s) | ("attr", name) | ("joinlist", name, mapstr)"""
    body = strip_doc(fn.body)

    def pieces_of(v):
        if isinstance(v, ast.Constant) and isinstance(v.value, str):
            return [("lit", v.value)]
        if isinstance(v, ast.JoinedStr):
            out = []
            for p in v.values:
                if isinstance(p, ast.Constant):
                    out.append(("lit", p.value))
                elif isinstance(p, ast.FormattedValue) and is_self_attr(p.value) and p.conversion == -1 and p.format_spec is None:
                    out.append(("attr", p.value.attr))
                else:
                    fail(path, v, "f-string piece")
            return out
        u = ast.unparse(v)
        # ' '.join(['x'] + self._l)   /  ' '.join(['x'] + list(map(str, self._l)))
        if isinstance(v, ast.Call) and isinstance(v.func, ast.Attribute) and v.func.attr == "join" and isinstance(v.func.value, ast.Constant) and v.func.value.value == " ":
            a = v.args[0]
            if isinstance(a, ast.BinOp) and isinstance(a.op, ast.Add) and isinstance(a.left, ast.List) and len(a.left.elts) == 1 and isinstance(a.left.elts[0], ast.Constant):
                head = a.left.elts[0].value
                r = a.right
                if is_self_attr(r):
                    return [("lit", head), ("joinlist", r.attr)]
                if ast.unparse(r).startswith("list(map(str, self.") and is_self_attr(r.args[0].args[1]):
                    return [("lit", head), ("joinlist", r.args[0].args[1].attr)]
        if u == "self.__class__.__qualname__.lower()":
            return [("clsname_lower",)]
        fail(path, v, "__str__ expression " + u)

    if len(body) == 1 and isinstance(body[0], ast.Return):
        return ("plain", pieces_of(body[0].value))
    if (
        len(body) == 2
        and isinstance(body[0], ast.If)
        and ast.unparse(body[0].test).endswith("is not None")
        and is_self_attr(body[0].test.left)
        and isinstance(body[1], ast.Return)
    ):
        return ("ifsome", body[0].test.left.attr, pieces_of(body[0].body[0].value), pieces_of(body[1].value))
    fail(path, fn, "__str__ body")


def read_instruction_classes():
    tree = parse(INS_PATH)
    classes = {}
    order = []
    for node in tree.body:
        if not isinstance(node, ast.ClassDef):
            continue
        ci = ClassInfo(node.name)
        ci.bases = [b.id for b in node.bases if isinstance(b, ast.Name)]
        for m in node.body:
            if isinstance(m, ast.Expr) and isinstance(m.value, ast.Constant):
                continue
            if not isinstance(m, ast.FunctionDef):
                fail(INS_PATH, m, "class member")
            decos = [ast.unparse(d) for d in m.decorator_list]
            if m.name == "__init__":
                ci.params = [a.arg for a in m.args.args[1:]]
                for st in strip_doc(m.body):
                    u = ast.unparse(st)
                    if u.startswith("super().__init__("):
                        continue
                    tgt = None
                    if isinstance(st, ast.AnnAssign):
                        tgt, val = st.target, st.value
                    elif isinstance(st, ast.Assign) and len(st.targets) == 1:
                        tgt, val = st.targets[0], st.value
                    elif u == "label = label.replace(' ', '')":
                        ci.label_strip = True
                        continue
                    else:
                        fail(INS_PATH, st, "__init__ statement " + u)
                    if isinstance(tgt, ast.Name) and u == "label = label.replace(' ', '')":
                        ci.label_strip = True
                        continue
                    if not is_self_attr(tgt):
                        fail(INS_PATH, st, "__init__ target " + u)
                    if tgt.attr == "_version":
                        if not isinstance(val, ast.Constant):
                            fail(INS_PATH, st, "version value")
                        ci.version = val.value
                    elif tgt.attr == "_mode":
                        mu = ast.unparse(val)
                        if mu not in ("ExecutionMode.STATEFUL", "ExecutionMode.STATELESS", "ExecutionMode.ANY"):
                            fail(INS_PATH, st, "mode value")
                        ci.mode = mu.split(".")[1]
                    elif isinstance(val, ast.Name) and val.id in ci.params:
                        ci.attr_of_param[tgt.attr] = ci.params.index(val.id)
                    elif any(ast.unparse(val) == f"{q}[1:][:-1]" for q in ci.params):
                        # strip first and last character (the double quotes of `method "sig"`)
                        q = [q for q in ci.params if ast.unparse(val) == f"{q}[1:][:-1]"][0]
                        ci.attr_of_param[tgt.attr] = ci.params.index(q)
                        ci.unquoted.add(tgt.attr)
                    elif isinstance(val, (ast.Constant, ast.List, ast.Dict)) or ast.unparse(val) in ("None",):
                        pass  # bookkeeping attribute (prev/next/line/...)
                    else:
                        fail(INS_PATH, st, "__init__ value " + u)
            elif m.name == "stack_pop_size":
                ci.pop = translate_arity(INS_PATH, m, ci)
            elif m.name == "stack_push_size":
                ci.push = translate_arity(INS_PATH, m, ci)
            elif m.name == "cost":
                ci.cost = translate_cost(INS_PATH, m)
            elif m.name == "__str__":
                ci.str = translate_str(INS_PATH, m, ci)
            elif "property" in decos:
                body = strip_doc(m.body)
                # simple getter: return self._x  (possibly with a None check raising)
                rets = [s for s in body if isinstance(s, ast.Return)]
                if len(rets) == 1 and is_self_attr(rets[0].value):
                    ci.props[m.name] = rets[0].value.attr
                elif m.name in ("version", "mode"):
                    fail(INS_PATH, m, "version/mode getter")
                # other properties are irrelevant to the tables
            else:
                pass  # setters, add_prev/add_next, __repr__ ...
        classes[node.name] = ci
        order.append(node.name)
    return classes, order


def resolve(classes, name, attr):
    """walk bases for inherited attribute"""
    c = classes[name]
    v = getattr(c, attr)
    if v is not None:
        return v
    for b in c.bases:
        if b in classes:
            r = resolve(classes, b, attr)
            if r is not None:
                return r
    return None


def resolve_attr_param(classes, name, attr):
    c = classes[name]
    if attr in c.attr_of_param:
        return c.attr_of_param[attr]
    # property name -> attr
    if attr in c.props:
        return resolve_attr_param(classes, name, c.props[attr])
    for b in c.bases:
        if b in classes:
            r = resolve_attr_param(classes, b, attr)
            if r is not None:
                return r
    return None


# ----------------------------------------------------------------------------- parser rules

PI_PATH = os.path.join(T, "teal/instructions/parse_instruction.py")

SHAPES = {
    # unparse of ctor argument list -> shape tag
    "": "SNone",
    "_parse_int(x)": "SInt",
    "_parse_int(x) if _is_int(x) else x": "SIntOrName",
    "x": "SStr",
    "parse_transaction_field(x, False)": "STxField",
    "parse_transaction_field(x, True)": "STxFieldStack",
    "parse_global_field(x)": "SGlobalField",
    "parse_asset_holding_field(x)": "SAssetHoldingField",
    "parse_asset_params_field(x)": "SAssetParamsField",
    "parse_app_params_field(x)": "SAppParamsField",
    "parse_acct_params_field(x)": "SAcctParamsField",
    "list(map(_parse_int, x.split(' ')))": "SIntsSplit",
    "list(map(_parse_int, x.strip().split()))": "SIntsWs",
    "_parse_int(x.split(' ')[0]), _parse_int(x.split(' ')[1])": "SInt2",
    "x.split(' ')": "SLabels",
    "None if x == '' else _parse_int(x)": "SOptInt",
}


def read_parser_rules():
    tree = parse(PI_PATH)
    rules = None
    handlers = {}
    for node in tree.body:
        if isinstance(node, ast.AnnAssign) and isinstance(node.target, ast.Name) and node.target.id == "parser_rules":
            rules = node.value
        if isinstance(node, ast.FunctionDef) and node.name.startswith("handle_"):
            handlers[node.name] = node
    if rules is None or not isinstance(rules, ast.List):
        raise TranslateError("translator: parser_rules not found")
    # handlers: check their known bodies by a structural fingerprint
    expect = {
        "handle_gtxn": ("split = x.split(' ')", "idx = _parse_int(split[0])", "tx_field = parse_transaction_field(' '.join(split[1:]), False)", "Gitxn", "Gtxn"),
        "handle_gtxna": ("split = x.split(' ')", "idx = _parse_int(split[0])", "tx_field = parse_transaction_field(' '.join(split[1:]), False)", "Gitxna", "Gtxna"),
        "handle_gtxnas": ("args = x.split(' ')", "idx = _parse_int(args[0])", "tx_field = parse_transaction_field(args[1], True)", "Gitxnas", "Gtxnas"),
    }
    for hn, (s0, s1, s2, c_it, c_no) in expect.items():
        if hn not in handlers:
            raise TranslateError(f"translator: {hn} missing")
        body = strip_doc(handlers[hn].body)
        us = [ast.unparse(s) for s in body]
        want = [s0, s1, s2, f"if itxn:\n    return instructions.{c_it}(idx, tx_field)", f"return instructions.{c_no}(idx, tx_field)"]
        if us != want:
            fail(PI_PATH, handlers[hn], f"{hn} body changed: {us}")
    out = []
    for elt in rules.elts:
        if not (isinstance(elt, ast.Tuple) and len(elt.elts) == 2 and isinstance(elt.elts[0], ast.Constant) and isinstance(elt.elts[1], ast.Lambda)):
            fail(PI_PATH, elt, "rule")
        key = elt.elts[0].value
        lam = elt.elts[1]
        call = lam.body
        if not isinstance(call, ast.Call):
            fail(PI_PATH, elt, "rule body")
        fu = ast.unparse(call.func)
        if fu.startswith("instructions."):
            cls = fu.split(".", 1)[1]
            argu = ", ".join(ast.unparse(a) for a in call.args)
            argu = argu.replace("_x", "x")
            if call.keywords:
                fail(PI_PATH, elt, "rule keywords")
            if argu not in SHAPES:
                fail(PI_PATH, elt, "rule argument shape " + argu)
            shape = SHAPES[argu]
        elif fu in ("handle_gtxn", "handle_gtxna", "handle_gtxnas"):
            it = False
            if len(call.args) != 1 or ast.unparse(call.args[0]) != "x":
                fail(PI_PATH, elt, "handler args")
            for kw in call.keywords:
                if kw.arg == "itxn" and isinstance(kw.value, ast.Constant) and kw.value.value is True:
                    it = True
                else:
                    fail(PI_PATH, elt, "handler keyword")
            base = {"handle_gtxn": "Gtxn", "handle_gtxna": "Gtxna", "handle_gtxnas": "Gtxnas"}[fu]
            cls = ("Gi" + base[1:]) if it else base
            shape = "SGtxnStack" if fu == "handle_gtxnas" else "SGtxn"
        else:
            fail(PI_PATH, elt, "rule constructor " + fu)
        out.append((key, cls, shape))
    # parse_line special cases: fingerprint of the function text (hand-modelled in Model/Parse.v)
    return out


def fingerprint_functions(path, names):
    """return {name: normalized source} used to detect edits of hand-modelled functions"""
    tree = parse(path)
    res = {}

    def visit(body, prefix=""):
        for node in body:
            if isinstance(node, (ast.FunctionDef,)):
                nm = prefix + node.name
                if nm in names:
                    node2 = ast.parse(ast.unparse(node)).body[0]
                    node2.body = strip_doc(node2.body) or [ast.Pass()]
                    res[nm] = ast.unparse(node2)
                visit(node.body, prefix)
            elif isinstance(node, ast.ClassDef):
                visit(node.body, prefix + node.name + ".")

    visit(tree.body)
    return res


# ----------------------------------------------------------------------------- fields

def read_field_classes(path, base_names):
    """class name -> version (resolved through bases); returns dict and set of array classes"""
    tree = parse(path)
    raw = {}
    for node in tree.body:
        if isinstance(node, ast.ClassDef):
            ver = None
            for m in node.body:
                if isinstance(m, ast.FunctionDef) and m.name == "__init__":
                    for st in strip_doc(m.body):
                        tgt = st.target if isinstance(st, ast.AnnAssign) else (st.targets[0] if isinstance(st, ast.Assign) else None)
                        if tgt is not None and is_self_attr(tgt) and tgt.attr == "_version":
                            if not isinstance(st.value, ast.Constant):
                                fail(path, st, "field version")
                            ver = st.value.value
            raw[node.name] = ([b.id for b in node.bases if isinstance(b, ast.Name)], ver)

    def ver_of(n):
        bases, v = raw[n]
        if v is not None:
            return v
        for b in bases:
            if b in raw:
                r = ver_of(b)
                if r is not None:
                    return r
        return None

    def is_sub(n, base):
        if n == base:
            return True
        return any(is_sub(b, base) for b in raw[n][0] if b in raw)

    return {n: ver_of(n) for n in raw}, raw, is_sub


def read_dict(path, name):
    tree = parse(path)
    for node in tree.body:
        tgt = None
        if isinstance(node, ast.AnnAssign):
            tgt, val = node.target, node.value
        elif isinstance(node, ast.Assign):
            tgt, val = node.targets[0], node.value
        if tgt is not None and isinstance(tgt, ast.Name) and tgt.id == name:
            if not isinstance(val, ast.Dict):
                fail(path, node, "dict literal expected")
            out = []
            for k, v in zip(val.keys, val.values):
                if not isinstance(k, ast.Constant):
                    fail(path, node, "dict key")
                vu = ast.unparse(v)
                out.append((k.value, vu.split(".")[-1]))
            return out
    raise TranslateError(f"translator: {name} not found in {path}")


# ----------------------------------------------------------------------------- enums / constants

def read_enums():
    path = os.path.join(T, "utils/teal_enums.py")
    tree = parse(path)
    enums = {}
    tuples = {}
    funcs = {}
    for node in tree.body:
        if isinstance(node, ast.ClassDef):
            members = []
            for m in node.body:
                if isinstance(m, ast.Assign) and isinstance(m.targets[0], ast.Name) and isinstance(m.value, ast.Constant) and isinstance(m.value.value, int):
                    members.append((m.targets[0].id, m.value.value))
            enums[node.name] = members
        elif isinstance(node, ast.Assign) and isinstance(node.targets[0], ast.Name) and isinstance(node.value, ast.Tuple):
            tuples[node.targets[0].id] = [ast.unparse(e).split(".")[-1] for e in node.value.elts]
        elif isinstance(node, ast.FunctionDef) and node.name in ("oncompletion_to_tealer_type", "transaction_type_to_tealer_type"):
            body = strip_doc(node.body)
            want_tail = ["if not isinstance(value, int):\n    value = ENUM_NAMES_TO_INT[value]", "return INT_TO_TYPE[value]"]
            if [ast.unparse(s) for s in body[2:]] != want_tail:
                fail(path, node, "enum conversion body")
            d = {}
            for st in body[:2]:
                if not (isinstance(st, ast.Assign) and isinstance(st.value, ast.Dict)):
                    fail(path, st, "enum conversion dict")
                d[st.targets[0].id] = [(k.value, (v.value if isinstance(v, ast.Constant) else ast.unparse(v).split(".")[-1])) for k, v in zip(st.value.keys, st.value.values)]
            funcs[node.name] = d
    return enums, tuples, funcs


def read_constants():
    path = os.path.join(T, "utils/algorand_constants.py")
    tree = parse(path)
    env = {}
    for node in tree.body:
        if isinstance(node, ast.Assign) and isinstance(node.targets[0], ast.Name):
            try:
                env[node.targets[0].id] = eval(compile(ast.Expression(node.value), path, "eval"), {"__builtins__": {}}, dict(env))
            except Exception as e:  # pylint: disable=broad-except
                fail(path, node, f"constant expression: {e}")
    return env


# ----------------------------------------------------------------------------- emit Tables.v

def emit_tables(outdir):
    classes, order = read_instruction_classes()
    rules = read_parser_rules()
    lines = []
    w = lines.append
    w("(* GENERATED by tools/translate.py from /repo/tealer -- do not edit *)")
    w("From Coq Require Import String List NArith ZArith.")
    w("Import ListNotations.")
    w("Open Scope string_scope.")
    w("")
    w("Inductive shape := SNone | SInt | SIntOrName | SStr | STxField | STxFieldStack | SGlobalField")
    w(" | SAssetHoldingField | SAssetParamsField | SAppParamsField | SAcctParamsField | SIntsSplit | SIntsWs")
    w(" | SInt2 | SLabels | SOptInt | SGtxn | SGtxnStack.")
    w("Inductive xmode := MStateless | MStateful | MAny.")
    w("(* arity expression over constructor parameters (by position) *)")
    w("Inductive aexpr := AConst (n : nat) | AImm (param : nat) (plus : nat) | ALen (param : nat) (plus : nat)")
    w(" | AIfNone (param : nat) (a b : nat).")
    w("Inductive cclause := CAlways (c : N) | CEq (v c : N) | CGe (v c : N) | CGt (v c : N) | CLe (v c : N) | CLt (v c : N)")
    w(" | CGeSelf (c : N) | CGeParam (v : N) (param : nat) (s : string) (c : N).")
    w("Inductive spiece := PLit (s : string) | PParam (param : nat) | PParamUnquoted (param : nat) | PJoin (param : nat) | PClsLower.")
    w("Inductive sfmt := FPlain (ps : list spiece) | FIfSome (param : nat) (ps qs : list spiece).")
    w("Record cinfo := { c_name : string; c_nparams : nat; c_version : N; c_mode : xmode;")
    w("  c_pop : aexpr; c_push : aexpr; c_cost : list cclause; c_str : sfmt; c_label_strip : bool }.")
    w("")
    w("Definition parser_rules : list (string * (string * shape)) := [")
    w(";\n".join(f"  ({coq_str(k)}, ({coq_str(c)}, {s}))" for k, c, s in rules))
    w("].")
    w("")

    def aex(name, e):
        if e[0] == "const":
            return f"AConst {e[1]}"
        if e[0] in ("imm", "len"):
            p = resolve_attr_param(classes, name, e[1])
            if p is None:
                raise TranslateError(f"translator: {name}: attribute {e[1]} is not a constructor parameter")
            return f"({'AImm' if e[0]=='imm' else 'ALen'} {p} {e[2]})"
        if e[0] == "ifnone":
            p = resolve_attr_param(classes, name, e[1])
            if p is None:
                raise TranslateError(f"translator: {name}: attribute {e[1]} is not a constructor parameter")
            return f"(AIfNone {p} {e[2]} {e[3]})"
        raise TranslateError("aexpr")

    def cl(c, name=None):
        if c[0] == "always":
            return f"CAlways {c[1]}%N"
        if c[0] == "geself":
            return f"CGeSelf {c[1]}%N"
        if c[0] == "geparam":
            q = resolve_attr_param(classes, name, c[2])
            if q is None:
                raise TranslateError(f"translator: {name}: cost attribute {c[2]} is not a constructor parameter")
            return f"CGeParam {c[1]}%N {q} {coq_str(c[3])} {c[4]}%N"
        return {"eq": "CEq", "ge": "CGe", "gt": "CGt", "le": "CLe", "lt": "CLt"}[c[0]] + f" {c[1]}%N {c[2]}%N"

    def pcs(name, ps):
        out = []
        for p in ps:
            if p[0] == "lit":
                out.append(f"PLit {coq_str(p[1])}")
            elif p[0] == "attr":
                q = resolve_attr_param(classes, name, p[1])
                if q is None:
                    raise TranslateError(f"translator: {name}: __str__ attribute {p[1]} is not a constructor parameter")
                out.append(f"PParamUnquoted {q}" if p[1] in classes[name].unquoted else f"PParam {q}")
            elif p[0] == "joinlist":
                q = resolve_attr_param(classes, name, p[1])
                if q is None:
                    raise TranslateError(f"translator: {name}: __str__ list attribute {p[1]}")
                out.append(f"PJoin {q}")
            elif p[0] == "clsname_lower":
                out.append("PClsLower")
        return "[" + "; ".join(out) + "]"

    entries = []
    meta = {}
    for name in order:
        if name in ("Instruction", "InstructionWithLabel", "IntcInstruction", "BytecInstruction"):
            pass
        ci = classes[name]
        nparams = None
        c = name
        # number of ctor params: own or inherited
        def nparams_of(n):
            k = classes[n]
            if k.params is not None:
                return len(k.params)
            for b in k.bases:
                if b in classes:
                    return nparams_of(b)
            return 0
        nparams = nparams_of(name)
        ver = resolve(classes, name, "version")
        mode = resolve(classes, name, "mode") or "ANY"
        pop = resolve(classes, name, "pop") or ("const", 0)
        push = resolve(classes, name, "push") or ("const", 0)
        cost = resolve(classes, name, "cost")
        st = resolve(classes, name, "str")
        lstrip = any(classes[b].label_strip for b in [name] + all_bases(classes, name))
        if ver is None or cost is None or st is None:
            raise TranslateError(f"translator: class {name} lacks version/cost/str")
        # owner class of pop/push/str expressions decides attr->param resolution; attrs are resolved on `name`
        if st[0] == "plain":
            sf = f"FPlain {pcs(name, st[1])}"
        else:
            q = resolve_attr_param(classes, name, st[1])
            sf = f"FIfSome {q} {pcs(name, st[2])} {pcs(name, st[3])}"
        mode_c = {"STATEFUL": "MStateful", "STATELESS": "MStateless", "ANY": "MAny"}[mode]
        entries.append(
            f"  {{| c_name := {coq_str(name)}; c_nparams := {nparams}; c_version := {ver}%N; c_mode := {mode_c};\n"
            f"     c_pop := {aex(name, pop)}; c_push := {aex(name, push)}; c_cost := [{'; '.join(cl(c, name) for c in cost)}];\n"
            f"     c_str := {sf}; c_label_strip := {'true' if lstrip else 'false'} |}}"
        )
        meta[name] = dict(nparams=nparams, version=ver, mode=mode, bases=all_bases(classes, name))
    w("Definition classes : list cinfo := [")
    w(";\n".join(entries))
    w("].")
    w("")
    # subclass facts used by isinstance tests in the analyses
    intc = [n for n in order if "IntcInstruction" in all_bases(classes, n)]
    bytec = [n for n in order if "BytecInstruction" in all_bases(classes, n)]
    w(f"Definition intc_classes : list string := [{'; '.join(coq_str(n) for n in intc)}].")
    w(f"Definition bytec_classes : list string := [{'; '.join(coq_str(n) for n in bytec)}].")
    w("")

    # ---- fields
    txf_path = os.path.join(T, "teal/instructions/transaction_field.py")
    vers, raw, is_sub = read_field_classes(txf_path, None)
    ptf = os.path.join(T, "teal/instructions/parse_transaction_field.py")
    plain = read_dict(ptf, "TX_FIELD_TXT_TO_OBJECT")
    arr = read_dict(ptf, "ARRAY_TX_FIELD_TO_OBJECT")
    fp = fingerprint_functions(ptf, {"parse_transaction_field", "_parse_int"})
    want_ptf = "def parse_transaction_field(tx_field: str, use_stack: bool) -> transaction_field.TransactionField:\n    for field, obj in ARRAY_TX_FIELD_TO_OBJECT.items():\n        if tx_field.startswith(field):\n            index = -1 if use_stack else _parse_int(tx_field[len(field) + 1:])\n            return obj(index)\n    tx_field = tx_field.replace(' ', '')\n    return TX_FIELD_TXT_TO_OBJECT[tx_field]()"
    if fp.get("parse_transaction_field") != want_ptf:
        raise TranslateError("translator: parse_transaction_field body changed (hand-modelled in Model/Parse.v):\n" + fp.get("parse_transaction_field", "<missing>"))
    for k, c in plain + arr:
        if c not in vers or vers[c] is None:
            raise TranslateError(f"translator: field class {c} has no version")
    w("(* (text, class name, version) *)")
    w("Definition tx_fields : list (string * (string * N)) := [")
    w(";\n".join(f"  ({coq_str(k)}, ({coq_str(c)}, {vers[c]}%N))" for k, c in plain))
    w("].")
    w("Definition tx_array_fields : list (string * (string * N)) := [")
    w(";\n".join(f"  ({coq_str(k)}, ({coq_str(c)}, {vers[c]}%N))" for k, c in arr))
    w("].")
    for modname, dname, coqname, pfile in [
        ("global_field.py", "GLOBAL_FIELD_TXT_TO_OBJECT", "global_fields", "teal/instructions/parse_global_field.py"),
        ("instructions/asset_holding_field.py", "ASSET_HOLDING_FIELD_TXT_TO_OBJECT", "asset_holding_fields", "teal/instructions/parse_asset_holding_field.py"),
        ("instructions/asset_params_field.py", "ASSET_PARAMS_FIELD_TXT_TO_OBJECT", "asset_params_fields", "teal/instructions/parse_asset_params_field.py"),
        ("instructions/app_params_field.py", "APP_PARAMS_FIELD_TXT_TO_OBJECT", "app_params_fields", "teal/instructions/parse_app_params_field.py"),
        ("instructions/acct_params_field.py", "ACCT_PARAMS_FIELD_TXT_TO_OBJECT", "acct_params_fields", "teal/instructions/parse_acct_params_field.py"),
    ]:
        v2, _, _ = read_field_classes(os.path.join(T, "teal", modname), None)
        d = read_dict(os.path.join(T, pfile), dname)
        for k, c in d:
            if c not in v2 or v2[c] is None:
                raise TranslateError(f"translator: field class {c} has no version")
        w(f"Definition {coqname} : list (string * (string * N)) := [")
        w(";\n".join(f"  ({coq_str(k)}, ({coq_str(c)}, {v2[c]}%N))" for k, c in d))
        w("].")
    w("")
    # _verify_version's isinstance tuple
    pt = os.path.join(T, "teal/parse_teal.py")
    tree = parse(pt)
    checked = None
    for node in ast.walk(tree):
        if isinstance(node, ast.Call) and isinstance(node.func, ast.Name) and node.func.id == "isinstance" and len(node.args) == 2 and isinstance(node.args[0], ast.Name) and node.args[0].id == "field" and isinstance(node.args[1], ast.Tuple):
            checked = [ast.unparse(e) for e in node.args[1].elts]
    if checked is None:
        raise TranslateError("translator: _verify_version isinstance tuple not found")
    w(f"Definition version_checked_field_kinds : list string := [{'; '.join(coq_str(c) for c in checked)}].")
    w("")

    # ---- enums
    enums, tuples, funcs = read_enums()
    for en in ("TealerTransactionType", "TransactionType", "TransactionOnCompletion"):
        w(f"Definition enum_{en} : list (string * N) := [{'; '.join(f'({coq_str(k)}, {v}%N)' for k, v in enums[en])}].")
    for tn in ("ALL_TRANSACTION_TYPES", "APPLICATION_TRANSACTION_TYPES", "TYPEENUM_TRANSACTION_TYPES"):
        w(f"Definition {tn} : list string := [{'; '.join(coq_str(x) for x in tuples[tn])}].")
    for fn in ("oncompletion_to_tealer_type", "transaction_type_to_tealer_type"):
        d = funcs[fn]
        w(f"Definition {fn}_names : list (string * N) := [{'; '.join(f'({coq_str(k)}, {v}%N)' for k, v in d['ENUM_NAMES_TO_INT'])}].")
        w(f"Definition {fn}_ints : list (N * string) := [{'; '.join(f'({k}%N, {coq_str(v)})' for k, v in d['INT_TO_TYPE'])}].")
    consts = read_constants()
    for cn in ("MAX_GROUP_SIZE", "MAX_UINT64", "MAX_TRANSACTION_COST", "MIN_ALGORAND_FEE", "MAX_NUM_INNER_TXN"):
        w(f"Definition {cn} : N := {consts[cn]}%N.")
    w(f"Definition ZERO_ADDRESS : string := {coq_str(consts['ZERO_ADDRESS'])}.")
    w("")
    os.makedirs(outdir, exist_ok=True)
    with open(os.path.join(outdir, "Tables.v"), "w") as f:
        f.write("\n".join(lines) + "\n")
    # JSON mirror for the harness (self-check + generators)
    with open(os.path.join(outdir, "tables.json"), "w") as f:
        json.dump({"rules": rules, "classes": meta, "tx_fields": plain, "tx_array_fields": arr}, f)
    return len(rules), len(order)


def all_bases(classes, name):
    out = []
    for b in classes[name].bases:
        if b in classes:
            out.append(b)
            out += all_bases(classes, b)
    return out


def main():
    outdir = sys.argv[1] if len(sys.argv) > 1 else os.path.join(os.path.dirname(os.path.abspath(__file__)), "..", "coq", "Gen")
    try:
        nr, nc = emit_tables(outdir)
        from translate_leaves import emit_leaves  # noqa

        nl = emit_leaves(outdir)
        from translate_keys import emit_keys  # noqa

        nk = emit_keys(outdir)
        from translate_single import emit_single  # noqa

        ns = emit_single(outdir)
        from translate_asserted import emit_asserted  # noqa

        na = emit_asserted(outdir)
        from translate_graph import emit_graph  # noqa

        ng = emit_graph(outdir)
        from translate_search import emit_search  # noqa

        nsr = emit_search(outdir)
        from translate_solver import emit_solver  # noqa

        nsv = emit_solver(outdir)
        from translate_constraints import emit_constraints  # noqa

        nct = emit_constraints(outdir)
        from translate_regex import emit_regex  # noqa

        nrx = emit_regex(outdir)
        from translate_group import emit_group  # noqa

        ngr = emit_group(outdir)
        from translate_run import emit_run_gen  # noqa

        nrn = emit_run_gen(outdir)
        from translate_cfg import emit_cfg  # noqa

        ncf = emit_cfg(outdir)
        from translate_stack import emit_stack  # noqa

        nst = emit_stack(outdir)
        from translate_function import emit_function_gen  # noqa
        nfn = emit_function_gen(outdir)
        from translate_line import emit_line  # noqa
        nln = emit_line(outdir)
        from translate_joint import emit_joint  # noqa
        njt = emit_joint(outdir)
        from translate_consts import emit_consts  # noqa
        ncs = emit_consts(outdir)
        from translate_detectors import emit_detectors  # noqa
        ndt = emit_detectors(outdir)
        from translate_output import emit_output  # noqa
        nout = emit_output(outdir)
        from translate_version import emit_version  # noqa
        nvr = emit_version(outdir)
        from translate_copy import emit_copy  # noqa
        ncp = emit_copy(outdir)
        from translate_report import emit_report  # noqa
        nrp = emit_report(outdir)
        from translate_groupinit import emit_groupinit  # noqa
        ngi = emit_groupinit(outdir)
        from translate_store import emit_store  # noqa
        nsto = emit_store(outdir)
        from translate_shape import emit_shape  # noqa
        nsh = emit_shape(outdir)
        from translate_rows import emit_rows  # noqa
        nrw = emit_rows(outdir)
    except TranslateError as e:
        print(str(e))
        sys.exit(2)
    print(f"translate: {nr} parser rules, {nc} instruction classes, {nl} leaf functions, {nk} key/index classification functions, {ns} wrapper functions, {na} condition-combination functions, {ng} global-graph/neighbourhood functions, {nsr} path-search functions, {nsv} worklist-solver functions, {nct} constraint-initialisation functions, {nrx} regex-engine functions, {ngr} group-verdict functions, {nrn} orchestration functions, {ncf} CFG-construction functions, {nst} operand-reconstruction functions, {nfn} function-construction functions, {nln} line-parser functions, {njt} joint-pass function, {ncs} constant-resolution functions, {ndt} detector functions, {nout} exporter functions, {nvr} version/mode/cost functions, {ncp} main-CFG-copy functions, {nrp} report functions, {ngi} group-configuration functions, {nsto} context / result-storing functions, {nsh} argument-parser functions and rule lambdas, {nrw} row-text functions -> {outdir}")


if __name__ == "__main__":
    main()
