#!/bin/bash
# usage: seedmatrix.sh <seed-dir-name>... ; for each seeded change: apply to /repo, run ALL registered quick checks, undo.
# writes /verif/seeded/<name>/matrix.txt : one line per check  "<id> exit=<rc> <first VIOLATION line or OK>"
# SEED_WT=<dir>: instead of patching /repo itself, use a scratch worktree <dir> of /repo's HEAD and point every tool at it
# through VERIF_REPO (used while other jobs read /repo); the worktree is removed at the end.
set -u
V=${VERIF_DIR:-/verif}   # VERIF_DIR=<copy of /verif>: run from a copy (e.g. a `vp run` snapshot) so that the checks of /verif itself are not disturbed
R=/repo
if [ -n "${SEED_WT:-}" ]; then
  R=$SEED_WT
  [ -d "$R" ] || git -C /repo worktree add -q --detach "$R" HEAD || exit 2
  export VERIF_REPO=$R
fi
cd $R || exit 2
for name in "$@"; do
  d=$V/seeded/$name
  if ! git diff --quiet; then echo "/repo is dirty"; exit 2; fi
  git apply "$d/patch.diff" || { echo "patch $name does not apply"; continue; }
  [ "${CHECKS:-}" = "own" ] && [ -z "${MATRIX_OUT:-}" ] && [ -s $d/matrix.txt ] && [ "$(wc -l < $d/matrix.txt)" -ge 20 ] && { git -C $R checkout -- .; echo "skip $name (full matrix present)"; continue; }
  : > $d/${MATRIX_OUT:-matrix.txt}
  own=$(python3 -c "import json;print(json.load(open('$d/meta.json'))['breaks_property'])" 2>/dev/null || echo "${name%%-*}")
  if [ "${CHECKS:-}" = "own" ]; then list="$own"; else list="${CHECKS:-C01 C02 C03 C04 C05 C06 C07 C08 C09 C10 C11 C12 C13 C14 C15 C16 C17 C18 C19 C20}"; fi
  for c in $list; do
    out=$(cd $V && timeout 1500 ./check "$c" 2>&1); rc=$?
    line=$(echo "$out" | grep -E -A1 "^(VIOLATION|OK)" | head -2 | tr '\n' ' ' | cut -c1-500)
    echo "$c exit=$rc $line" >> $d/${MATRIX_OUT:-matrix.txt}
  done
  git -C $R checkout -- .
  (cd $V && git checkout -- evidence 2>/dev/null; true)
  echo "done $name"
done
[ -n "${SEED_WT:-}" ] && { cd /; git -C /repo worktree remove --force "$R"; unset VERIF_REPO; }
(cd $V && ./check --setup >/dev/null 2>&1)   # leave coq/Gen regenerated from the restored /repo
echo MATRIXDONE
