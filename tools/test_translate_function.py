#!/venv/bin/python
"""Self-test of tools/translate_function.py (the regenerated function construction, Gen/FunctionGen.v).

(a) runs the translator on the clean source ($VERIF_REPO, default /tmp/cleanrepo) and checks that the output is the
    committed coq/Gen/FunctionGen.v, compiles, and that Lemmas/FunctionGenLemmas.v compiles against it;
(b) applies small mutations to a scratch copy of teal/parse_functions.py / parse_teal.py / subroutine.py / basic_blocks.py /
    functions.py / instructions/instructions.py and shows that, for each, either the translator stops (TranslateError)
    or the generated Gallina differs AND Lemmas/FunctionGenLemmas.v no longer compiles against it.

Precondition: coq/ has been built (`make`).  Every coqc runs under `timeout`; the cases run in parallel (JOBS, default
6), each on its own scratch copy.  Exit status 0 iff every row has the expected verdict.

usage: VERIF_REPO=/tmp/cleanrepo /venv/bin/python tools/test_translate_function.py [-v]
"""
import ast
import os
import re
import shutil
import subprocess
import sys
import tempfile
from concurrent.futures import ThreadPoolExecutor

HERE = os.path.dirname(os.path.abspath(__file__))
ROOT = os.path.dirname(HERE)
COQ = os.path.join(ROOT, "coq")
PY = "/venv/bin/python"
REPO = os.environ.get("VERIF_REPO", "/tmp/cleanrepo")
JOBS = int(os.environ.get("JOBS", "6"))

PF = "tealer/teal/parse_functions.py"
PT = "tealer/teal/parse_teal.py"
SUB = "tealer/teal/subroutine.py"
BB = "tealer/teal/basic_blocks.py"
FN = "tealer/teal/functions.py"
INS = "tealer/teal/instructions/instructions.py"


def sh(cmd, cwd=None, env=None):
    e = dict(os.environ)
    if env:
        e.update(env)
    p = subprocess.run(cmd, shell=True, cwd=cwd, stdout=subprocess.PIPE, stderr=subprocess.STDOUT, env=e, check=False)
    return p.returncode, p.stdout.decode(errors="replace")


# ----------------------------------------------------------------------------- mutations (text -> text)
def replace_once(src, old, new):
    if src.count(old) != 1:
        raise RuntimeError(f"mutation anchor found {src.count(old)} times: " + old[:60])
    return src.replace(old, new, 1)


def R(old, new):
    return lambda src: replace_once(src, old, new)


LOOP_TEST = '                if bi in dispatch_path_blocks:\n                    raise TealerException(f"Dispatch path is a loop: {dispatch_path}")\n'
ELSE_RAISE = '        else:\n            raise TealerException(f"Invalid dispatch path: {dispatch_path}, {bid} is not valid")\n'

MUTATIONS = [
    # --- the cutting loop
    ("(c1) wrong successor replaced: bi.next[0] = err_block", PF, R("                bi.next[j] = err_block\n", "                bi.next[0] = err_block\n")),
    ("(c2) bi_next.prev.remove(bi) dropped", PF, R("                bi_next.prev.remove(bi)\n", "")),
    ("(c3) cut test inverted (== for !=)", PF, R("            if bi_next != valid_next:\n", "            if bi_next == valid_next:\n")),
    ("(c4) err_block.add_prev(bi) dropped", PF, R("                err_block.add_prev(bi)\n", "")),
    ("(c5) err idx formula uses bi.idx", PF, R("err_block.idx = (bi_next.idx << 16) + (bi_next.idx)", "err_block.idx = (bi_next.idx << 16) + (bi.idx)")),
    ("(c6) valid_next = dispatch_path_blocks[i]", PF, R("        valid_next = dispatch_path_blocks[i + 1]\n", "        valid_next = dispatch_path_blocks[i]\n")),
    ("(c7) the last path block is cut too", PF, R("enumerate(dispatch_path_blocks[:-1])", "enumerate(dispatch_path_blocks[1:])")),
    ("(c8) successors iterated without the snapshot list(..)", PF, R("enumerate(list(bi.next))", "enumerate(bi.next)")),
    ("(c9) err line formula: exit line of bi_next", PF, R("(bi_next.entry_instr.line << 16) + bi.exit_instr.line", "(bi_next.entry_instr.line << 16) + bi_next.exit_instr.line")),
    ("(c10) the err instruction is added to bi", PF, R("                err_block.add_instruction(err_instruction)\n", "                bi.add_instruction(err_instruction)\n")),
    # --- the walk
    ("(w1) loop test dropped", PF, R(LOOP_TEST, "")),
    ("(w2) continue for break in the walk", PF, R("                current_valid_next_blocks = bi.next\n                break\n", "                current_valid_next_blocks = bi.next\n                continue\n")),
    ("(w3) for-else dropped: invalid paths accepted", PF, R(ELSE_RAISE, "")),
    ("(w4) next blocks taken from bi.prev", PF, R("                current_valid_next_blocks = bi.next\n", "                current_valid_next_blocks = bi.prev\n")),
    ("(w5) idx test inverted", PF, R("            if bi.idx == block_index:\n", "            if bi.idx != block_index:\n")),
    ("(w6) the two exceptions swapped", PF, lambda s: replace_once(replace_once(s, "Dispatch path is a loop: {", "Invalid dispatch path; {"), "Invalid dispatch path: {", "Dispatch path is a loop: {")),
    ("(w7) the walk starts from the last block", PF, R("    entry = function_blocks[0]\n", "    entry = function_blocks[-1]\n")),
    # --- main blocks
    ("(m1) prev filter inverted", PF, R("            if prev_b not in function_main_blocks:\n", "            if prev_b in function_main_blocks:\n")),
    ("(m2) prev filter iterates over the list it mutates", PF, R("        for prev_b in list(bi.prev):\n", "        for prev_b in bi.prev:\n")),
    ("(m3) entry = the last path block", PF, R("    entry = dispatch_path_blocks[0]\n", "    entry = dispatch_path_blocks[-1]\n")),
    ("(m4) DFS: `not in stack` dropped (parse_teal.py)", PT, R("            if next_bb not in subroutines_blocks and next_bb not in stack:\n", "            if next_bb not in subroutines_blocks:\n")),
    ("(m5) DFS: break for the guarded append (parse_teal.py)", PT, R(
        "            if next_bb not in subroutines_blocks and next_bb not in stack:\n                stack.append(next_bb)\n",
        "            if next_bb in subroutines_blocks or next_bb in stack:\n                break\n            stack.append(next_bb)\n")),
    # --- closure
    ("(k1) worklist popped from the wrong end", PF, lambda s: replace_once(replace_once(s, "for sub in worklist[0].called_subroutines:", "for sub in worklist[-1].called_subroutines:"), "        worklist = worklist[1:]\n", "        worklist = worklist[:-1]\n")),
    ("(k2) `sub not in used_subroutines` dropped", PF, R(
        "            if sub not in used_subroutines:\n                used_subroutines.append(sub)\n                if sub not in worklist:\n                    worklist.append(sub)\n",
        "            used_subroutines.append(sub)\n            if sub not in worklist:\n                worklist.append(sub)\n")),
    ("(k3) worklist.append outside the `not in used` test", PF, R(
        "                used_subroutines.append(sub)\n                if sub not in worklist:\n                    worklist.append(sub)\n",
        "                used_subroutines.append(sub)\n            if sub not in worklist:\n                worklist.append(sub)\n")),
    ("(k4) called_subroutines: set(..) for dict.fromkeys (subroutine.py)", SUB, R("        return list(\n            dict.fromkeys(bi.called_subroutine for bi in self._blocks if bi.is_callsub_block)\n        )\n", "        return list(set(bi.called_subroutine for bi in self._blocks if bi.is_callsub_block))\n")),
    ("(k5) called_subroutines: callsub test dropped (subroutine.py)", SUB, R("for bi in self._blocks if bi.is_callsub_block)", "for bi in self._blocks)")),
    ("(k6) worklist never shrinks by one: worklist[2:]", PF, R("        worklist = worklist[1:]\n", "        worklist = worklist[2:]\n")),
    # --- assembly
    ("(a1) subroutine blocks before the main blocks", PF, R("for sub in [function_main] + used_subroutines:", "for sub in used_subroutines + [function_main]:")),
    ("(a2) conditional expression in the Function(..) call", PF, R("        all_function_blocks,\n        teal,\n        function_main,\n", "        all_function_blocks,\n        teal,\n        function_main if False else function_main,\n")),
    ("(a3) a statement between the segments", PF, R("    used_subroutines: List[Subroutine] = []\n", "    function_main_blocks = function_main_blocks[1:]\n    used_subroutines: List[Subroutine] = []\n")),
    # --- the glue table / fail-closed checks
    ("(s1) BasicBlock.add_prev appends to _next (basic_blocks.py)", BB, R("        self._prev.append(prev_bb)\n", "        self._next.append(prev_bb)\n")),
    ("(s2) Subroutine defines __eq__ (subroutine.py)", SUB, R("    @property\n    def name(self) -> str:\n", "    def __eq__(self, other: object) -> bool:\n        return True\n\n    @property\n    def name(self) -> str:\n")),
    ("(s3) copy_main_cfg edited: blocks sorted in reverse", PF, R("    all_bbs = sorted(all_bbs, key=lambda bi: bi.entry_instr.line)\n", "    all_bbs = sorted(all_bbs, key=lambda bi: -bi.entry_instr.line)\n")),
    ("(s4) Function.__init__ stores another entry (functions.py)", FN, R('        self.entry: "BasicBlock" = entry\n', '        self.entry: "BasicBlock" = blocks[0]\n')),
    ("(s5) a skipped statement edited", PF, R("                err_block.teal = teal\n", "                err_block.teal = None\n")),
    ("(s6) attribute outside the glue table (.cost)", PF, R("            if bi_next != valid_next:\n", "            if bi_next != valid_next and bi_next.cost > 0:\n")),
    ("(s7) TealerCustomErrInstruction gets an __init__ (instructions.py)", INS, R('    def __str__(self) -> str:\n        return "TealerCustomErrInstruction"\n', '    def __init__(self) -> None:\n        super().__init__()\n        self._line_num = 1\n\n    def __str__(self) -> str:\n        return "TealerCustomErrInstruction"\n')),
    ("(s8) identify_subroutine_blocks re-bound at module level", PF, lambda s: s + "\n\nidentify_subroutine_blocks = copy_main_cfg\n"),
    ("(s9) BasicBlock.idx setter edited (basic_blocks.py)", BB, R("    def idx(self, i: int) -> None:\n        self._idx = i\n", "    def idx(self, i: int) -> None:\n        self._idx = i + 1\n")),
    ("(s10) try statement in the cutting loop", PF, R("                bi_next.prev.remove(bi)\n", "                try:\n                    bi_next.prev.remove(bi)\n                except ValueError:\n                    pass\n")),
    ("(s11) another exception class in the walk", PF, R('                    raise TealerException(f"Dispatch path is a loop: {dispatch_path}")\n', '                    raise ValueError(f"Dispatch path is a loop: {dispatch_path}")\n')),
]
# behaviour-preserving rewrites: reported, not required to be caught
NEUTRAL = [
    ("(n1) `not a == b` for `a != b`", PF, R("            if bi_next != valid_next:\n", "            if not bi_next == valid_next:\n")),
    ("(n2) the guarded append of the DFS written with continue (parse_teal.py)", PT, R(
        "            if next_bb not in subroutines_blocks and next_bb not in stack:\n                stack.append(next_bb)\n",
        "            if next_bb in subroutines_blocks or next_bb in stack:\n                continue\n            stack.append(next_bb)\n")),
]


# ----------------------------------------------------------------------------- one run
def enclosing(vfile, line):
    name = "?"
    with open(vfile, encoding="utf-8") as f:
        for i, l in enumerate(f, 1):
            m = re.match(r"\s*(Lemma|Theorem|Corollary|Definition)\s+(\w+)", l)
            if m and i <= line:
                name = m.group(2)
            if i > line:
                break
    return name


def run_case(work, rel=None, mutate=None):
    """-> dict(translator=..., text=..., gen_ok=..., lemmas_ok=..., where=..., log=...)"""
    gen = os.path.join(work, "Gen")
    lem = os.path.join(work, "Lemmas")
    scratch = os.path.join(work, "repo")
    os.makedirs(gen)
    os.makedirs(lem)
    shutil.copytree(os.path.join(REPO, "tealer"), os.path.join(scratch, "tealer"), ignore=shutil.ignore_patterns("__pycache__"))
    if mutate:
        path = os.path.join(scratch, rel)
        with open(path, encoding="utf-8") as fh:
            orig = fh.read()
        new = mutate(orig)
        if new == orig:
            raise RuntimeError("mutation did not change the source")
        ast.parse(new)  # the mutant is valid Python
        with open(path, "w", encoding="utf-8") as fh:
            fh.write(new)
    rc, out = sh(f"{PY} {HERE}/translate_function.py {gen}", env={"VERIF_REPO": scratch})
    res = {"translator": "ok" if rc == 0 else "STOPPED", "log": out.strip().replace(scratch + "/", ""), "text": None, "gen_ok": None, "lemmas_ok": None, "where": None}
    if rc != 0:
        if rc != 2 or "translator:" not in out:
            res["translator"] = "CRASHED"
        return res
    with open(os.path.join(gen, "FunctionGen.v"), encoding="utf-8") as fh:
        res["text"] = fh.read()
    # the other generated files are taken (compiled) from the built tree
    for f in os.listdir(os.path.join(COQ, "Gen")):
        if f.endswith(".vo") and f != "FunctionGen.vo":
            os.symlink(os.path.join(COQ, "Gen", f), os.path.join(gen, f))
    lemv = os.path.join(lem, "FunctionGenLemmas.v")
    shutil.copy(os.path.join(COQ, "Lemmas", "FunctionGenLemmas.v"), lemv)
    q = f"-Q {COQ}/Model Tealer -Q {gen} Tealer -Q {COQ}/Spec Tealer -Q {COQ}/Lemmas Tealer"
    rc, out = sh(f"timeout 600 coqc {q} {gen}/FunctionGen.v 2>&1")
    res["gen_ok"] = rc == 0
    res["log"] += "\n" + out[-1500:]
    if rc == 0:
        rc, out = sh(f"timeout 1200 coqc {q} {lemv} 2>&1")
        res["lemmas_ok"] = rc == 0
        res["log"] += "\n" + out[-1500:]
        if rc != 0:
            m = re.search(r"line (\d+), characters", out)
            res["where"] = f"{enclosing(lemv, int(m.group(1)))} (line {m.group(1)})" if m else ("timeout" if rc == 124 else "?")
    return res


def main():
    verbose = "-v" in sys.argv
    for f in ("Model/Group.vo", "Gen/KeysGen.vo", "Lemmas/GroupLemmas.vo", "Lemmas/CutGraphOk.vo", "Lemmas/SubOrderEx.vo"):
        if not os.path.exists(os.path.join(COQ, f)):
            print(f"precondition: {COQ}/{f} missing -- build coq/ first (make)")
            sys.exit(3)
    top = tempfile.mkdtemp(prefix="tfun_")
    rows = []
    ok = True
    try:
        cases = [("(a) clean source", None, None)] + MUTATIONS + NEUTRAL
        with ThreadPoolExecutor(max_workers=JOBS) as ex:
            futs = [ex.submit(run_case, os.path.join(top, f"c{i}"), rel, fn) for i, (_, rel, fn) in enumerate(cases)]
            results = [f.result() for f in futs]
        base = results[0]
        same = None
        cur = os.path.join(COQ, "Gen", "FunctionGen.v")
        if base["text"] is not None and os.path.exists(cur):
            with open(cur, encoding="utf-8") as fh:
                same = fh.read() == base["text"]
        good = base["translator"] == "ok" and base["gen_ok"] and base["lemmas_ok"] and same is True
        ok &= bool(good)
        rows.append(("(a) clean source", base["translator"], "= coq/Gen/FunctionGen.v" if same else ("DIFFERS from coq/Gen" if same is False else "-"), base["gen_ok"], base["lemmas_ok"], "PASS" if good else "FAIL"))
        if verbose or not good:
            print(base["log"])
        for i, ((name, rel, fn), r) in enumerate(zip(cases[1:], results[1:])):
            neutral = i >= len(MUTATIONS)
            if r["translator"] == "STOPPED":
                verdict, good, diff = "caught: translator stops", True, "-"
            elif r["translator"] == "CRASHED":
                verdict, good, diff = "FAIL: translator crashed", False, "-"
            else:
                differs = r["text"] != base["text"]
                diff = "differs" if differs else "IDENTICAL"
                if differs and r["gen_ok"] and r["lemmas_ok"] is False:
                    verdict, good = f"caught: lemmas break in {r['where']}", True
                elif differs and not r["gen_ok"]:
                    verdict, good = "caught: FunctionGen.v ill-typed", True
                elif neutral:
                    verdict, good = "accepted (behaviour-preserving rewrite)", True
                else:
                    verdict, good = "FAIL: NOT DETECTED", False
            if neutral:
                verdict = "[not a defect] " + verdict
            ok &= good
            rows.append((name, r["translator"], diff, r["gen_ok"], r["lemmas_ok"], verdict))
            if verbose or not good:
                print(f"--- {name}\n{r['log']}\n")
            elif r["translator"] == "STOPPED":
                print(f"--- {name}: {r['log'].splitlines()[0][:260]}")
    finally:
        shutil.rmtree(top, ignore_errors=True)
    hdr = ("case", "translator", "generated Gallina", "FunctionGen.v compiles", "FunctionGenLemmas.v compiles", "verdict")
    fmt = lambda x: "-" if x is None else ("yes" if x is True else ("NO" if x is False else str(x)))  # noqa: E731
    table = [hdr] + [tuple(fmt(c) for c in r) for r in rows]
    widths = [max(len(r[i]) for r in table) for i in range(len(hdr))]
    print()
    for k, r in enumerate(table):
        print(" | ".join(c.ljust(w) for c, w in zip(r, widths)))
        if k == 0:
            print("-+-".join("-" * w for w in widths))
    print("\nRESULT:", "all mutations caught, clean source accepted" if ok else "FAILURE")
    sys.exit(0 if ok else 1)


if __name__ == "__main__":
    main()
