"""Cross-check of the trusted hand transcription Spec/AvmTables.v against an independent second source that is available
offline: the opcode table of PyTeal (pyteal.ir.ops.Op: mnemonic, minimum program version, execution mode), maintained
by the PyTeal authors from the AVM specification.  PyTeal starts at program version 2, so an opcode introduced in
version 1 appears there with min_version 2: versions are compared as max(a_version, 2).  Prints one line per
disagreement and a summary; exit 0 iff there is none.  (Validation of the trusted base; not a proof.)"""
import os
import re
import sys

ROOT = os.path.dirname(os.path.dirname(os.path.abspath(__file__)))


def avm_tables():
    src = open(os.path.join(ROOT, "coq", "Spec", "AvmTables.v")).read()
    out = {}
    for m in re.finditer(r'\bop[a-z]*\s+"([^"]+)"\s+(\d+)\s+(Any|Sig|App)\b', src):
        out.setdefault(m.group(1), (int(m.group(2)), m.group(3)))
    return out


def main():
    sys.path.insert(0, os.environ.get("VERIF_REPO", "/repo"))
    try:
        from pyteal.ir.ops import Op, Mode
    except Exception as e:  # pylint: disable=broad-except
        print("pyteal not importable:", e)
        return 0
    avm = avm_tables()
    mode_name = {Mode.Signature | Mode.Application: "Any", Mode.Signature: "Sig", Mode.Application: "App"}
    checked, bad = 0, []
    for o in Op:
        mn = o.value.value if hasattr(o.value, "value") else o.value
        mn = getattr(o, "value").value
        if mn not in avm or o.min_version > 8:
            continue
        checked += 1
        v, md = avm[mn]
        if max(v, 2) != o.min_version:
            bad.append(f"{mn}: AvmTables version {v}, PyTeal min_version {o.min_version}")
        if md != mode_name.get(o.mode, "?"):
            bad.append(f"{mn}: AvmTables mode {md}, PyTeal mode {mode_name.get(o.mode, o.mode)}")
    for b in bad:
        print("DISAGREE", b)
    print(f"avm_crosscheck: {checked} opcodes of Spec/AvmTables.v found in PyTeal's table, {len(bad)} disagreements; "
          f"{len(avm) - checked} AvmTables entries without a PyTeal counterpart")
    return 1 if bad else 0


if __name__ == "__main__":
    sys.exit(main())
