#!/venv/bin/python
"""Fail-closed Python-ast translator: /repo/tealer source -> coq/Gen/*.v

Reads source files with `ast` only (never imports tealer).  Any syntactic shape it does not know
raises TranslateError("file:line: ...") and the run stops (the tie is then reported broken).

Generated: Gen/Tables.v  (parser rules, instruction class table, field tables, enums, constants)
           Gen/Leaves.v  (lattice leaf functions of fee/addr/int domains, detectors' checks_field)
           Gen/KeysGen.v (index/key classification: _get_index, get_index_and_field, is_value_matches_key)
"""
import ast
import os
import sys
import json

REPO = os.environ.get("VERIF_REPO", "/repo")
T = os.path.join(REPO, "tealer")


class TranslateError(Exception):
    pass


def fail(path, node, msg):
    raise TranslateError(f"translator: unsupported construct at {path}:{getattr(node, 'lineno', '?')}: {msg}")


def parse(path):
    with open(path, encoding="utf-8") as f:
        return ast.parse(f.read(), filename=path)


def coq_str(s):
    for ch in s:
        if ord(ch) < 32 or ord(ch) > 126:
            raise TranslateError(f"non printable character in string literal {s!r}")
    return '"' + s.replace('"', '""') + '"'


def strip_doc(body):
    return [s for s in body if not (isinstance(s, ast.Expr) and isinstance(s.value, ast.Constant) and isinstance(s.value.value, str))]




# ----------------------------------------------------------------------------- twin parameters of a Coq Section
# Section variables of the same type that could be written for each other in the Python source (self._universal_set /
# self._null_set, self._union / self._intersection).  The discharge of a Coq Section generalises a definition over the
# variables it USES only: if a translated function used `null` alone, a source that calls self._universal_set instead
# would merely rename that parameter, the generated function would keep its type, and a lemma file that applies it
# positionally (`calculate_livein_gen T null union inter f`) would still prove "generated = model" although the code now
# starts from the other set.  A definition that mentions one member of a group therefore takes the whole group (a dead
# `let`), so that the position of every member in the discharged type is fixed by the Section header and not by the
# Python text: the swap then changes which PARAMETER is used and the lemma against the model fails.
DOMAIN_TWINS = [("univ", "null"), ("union", "inter")]


def pin_twins(term, twins=None):
    """wrap `term` (Gallina text of a definition body) so that it mentions every member of each group it touches"""
    import re

    toks = set(re.findall(r"[A-Za-z_][A-Za-z_0-9']*", term))
    for grp in DOMAIN_TWINS if twins is None else twins:
        if toks & set(grp):
            term = f"(let _ := ({', '.join(grp)}) in (* takes the whole group of parameters *)\n{term})"
    return term
