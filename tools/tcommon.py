#!/venv/bin/python
"""Fail-closed Python-ast translator: /repo/tealer source -> coq/Gen/*.v

Reads source files with `ast` only (never imports tealer).  Any syntactic shape it does not know
raises TranslateError("file:line: ...") and the run stops (the tie is then reported broken).

Generated: Gen/Tables.v  (parser rules, instruction class table, field tables, enums, constants)
           Gen/Leaves.v  (lattice leaf functions of fee/addr/int domains, detectors' checks_field)
           Gen/KeysGen.v (index/key classification: _get_index, get_index_and_field, is_value_matches_key)
"""
import ast
import os
import sys
import json

REPO = os.environ.get("VERIF_REPO", "/repo")
T = os.path.join(REPO, "tealer")


class TranslateError(Exception):
    pass


def fail(path, node, msg):
    raise TranslateError(f"translator: unsupported construct at {path}:{getattr(node, 'lineno', '?')}: {msg}")


def parse(path):
    with open(path, encoding="utf-8") as f:
        return ast.parse(f.read(), filename=path)


def coq_str(s):
    for ch in s:
        if ord(ch) < 32 or ord(ch) > 126:
            raise TranslateError(f"non printable character in string literal {s!r}")
    return '"' + s.replace('"', '""') + '"'


def strip_doc(body):
    return [s for s in body if not (isinstance(s, ast.Expr) and isinstance(s.value, ast.Constant) and isinstance(s.value.value, str))]


